#!/usr/bin/env python3
"""C17 — file handles and library resources have a clean lifecycle (DESIGN.md §4 C17).

S3  lake build PnVerif.Props.C17 + c17drv, axiom audit, forbidden-construct grep
S4  stream `life`: interleavings of create/open/close/abort over up to 5 files with API calls in between and
    probes on stale / negative / huge ids (each probe in a forked child of harness/c17_life.c, so a crash is
    a result), generated adaptively against the Lean driver (id-table model), replayed on the real library;
    directed scripts for NC_MAX_NFILES, id reuse, close with pending requests, failing creates/opens.
    MEASURED (not a theorem): after the last close `ncmpi_inq_malloc_size` must report 0 and the PMPI shim's
    create/free balance of datatypes, communicators, infos and file handles must be 0.
S5  the property's own oracle on the implementation's outputs: a probe on an id that is not open must return
    NC_EBADID (never a signal), LEAK lines must be all zero; anything else that differs from the model is a
    broken tie.
"""
import os, sys, re, subprocess
sys.path.insert(0, os.path.dirname(os.path.abspath(__file__)))
from common import *

PROP = 'C17'
LEANFILES = ['PnVerif/Model/IdTable.lean', 'PnVerif/Lemmas/IdTable.lean', 'PnVerif/Props/C17.lean', 'Driver/C17.lean']
KINDS_ANY = ['NDIMS', 'NVARS', 'DEFDIM', 'DEFVAR', 'PUTATT', 'ENDDEF', 'REDEF', 'SYNC', 'INQPATH', 'INQFORMAT']
PROBE_KINDS = KINDS_ANY + ['CLOSE', 'ABORT', 'IPUTFX', 'SETUP', 'ATTACH', 'DETACH', 'INQATT', 'GETVAR', 'WAITALL', 'BEGININDEP']
ZERO_LEAK = 'malloc=0 type=0 comm=0 info=0 file=0'
# every API form of a request that transfers nothing (zero-length / rejected arguments); the list is read from the harness
ZFORMS = re.findall(r'F\("([A-Z0-9_]+)"\)', open(os.path.join(os.path.dirname(os.path.dirname(os.path.abspath(__file__))), 'harness/c17_life.c')).read())


def clean(out):
    """library chatter on stdout ('PnetCDF warning: ...') is not an answer; '# code' suffixes are informational"""
    res = []
    for l in out.split('\n'):
        if l.startswith('PnetCDF warning'):
            continue
        res.append(l.split(' # ')[0].rstrip())
    return res


class Gen:
    def __init__(self, rng, drv, nmax):
        self.rng, self.drv, self.nmax = rng, drv, nmax
        self.lines, self.answers = [], []
        self.open = {}          # ncid -> dict(k, indef, rdonly, pending, attached, nvars, fresh)
        self.exists = set()
        self.closed_ids = set()
        self.dist = {}
        self.io_paths = {}         # path k -> (io set up, nrecs) as left on disk
        self.l2_fixed = False      # close frees the attached buffer: closing with an attached buffer / pending bput is leak-free
        self.abort_cancels = False  # abort cancels pending requests: abort with pending requests is leak-free

    def send(self, line):
        self.drv.stdin.write(line + '\n')
        self.drv.stdin.flush()
        a = self.drv.stdout.readline().rstrip('\n')
        self.lines.append(line)
        self.answers.append(a)
        return a

    def count(self, k):
        self.dist[k] = self.dist.get(k, 0) + 1

    def used_paths(self):
        return {f['k'] for f in self.open.values()}

    def do_open(self):
        r = self.rng
        free = [k for k in range(5) if k not in self.used_paths()]
        c = r.below(12)
        if c <= 1:
            self.count('failing-open')
            line = r.choice(['OPENJUNK', 'OPENMISSING', 'CREATEBAD 0', 'CREATEBAD 1'])
            if self.exists and r.chance(1, 2):
                kk = [k for k in self.exists if k not in self.used_paths()]
                if kk:
                    line = 'OPENTRUNC %d %d' % (r.choice(kk), r.choice([0, 1, 3, 4, 5, 8, 12, 20, 31, 32, 33, 47, 64, 100, 4000]))
            self.send(line)
            return
        if not free:
            return
        k = r.choice(free)
        a = ['x']
        if k in self.exists and c <= 5:
            w = 0 if r.chance(1, 3) else 1
            a = self.send('OPEN %d %d' % (k, w)).split()
            if a[0] == '0':
                io, nrecs = self.io_paths.get(k, (False, 0))
                self.open[int(a[1])] = dict(k=k, indef=False, rdonly=not w, pget=0, pput=0, pbput=0, precput=0, lastm=0, attached=False, nvars=None, fresh=False,
                                            io=io, nrecs=nrecs)
                self.count('open')
        elif k in self.exists and c == 6:
            self.send('CREATEX %d' % k)
            self.count('create-eexist')
        else:
            a = self.send('CREATE %d' % k).split()
            if a[0] == '0':
                self.open[int(a[1])] = dict(k=k, indef=True, rdonly=False, pget=0, pput=0, pbput=0, precput=0, lastm=0, attached=False, nvars=0, fresh=True,
                                            io=False, nrecs=0)
                self.io_paths[k] = (False, 0)
                if r.chance(1, 2):      # make the file ready for nonblocking I/O right away
                    ncid = int(a[1])
                    if self.send('SETUP %d' % ncid) == '0' and self.send('ENDDEF %d' % ncid) == '0':
                        f = self.open[ncid]
                        f['io'], f['indef'], f['fresh'] = True, False, False
                        self.io_paths[k] = (True, 0)
                self.exists.add(k)
                self.count('create')
        if a[0] == '0' and int(a[1]) in self.closed_ids:
            self.count('id-reissued')
            self.closed_ids.discard(int(a[1]))

    def do_close(self, ncid, allow_abort=True):
        r = self.rng
        f = self.open[ncid]
        pend = f['pget'] + f['pput']
        if f['attached'] and (not self.l2_fixed or r.chance(1, 2)):
            if f['pbput']:
                self.send('WAITALL %d' % ncid)     # a pending bput forbids detach
                self.wait_done(f)
                pend = 0
            self.send('DETACH %d' % ncid)
            f['attached'] = False
        if f['attached']:
            self.count('close-with-attached-buffer')
        if allow_abort and (pend == 0 or self.abort_cancels) and r.chance(1, 4):
            self.send('ABORT %d' % ncid)
            self.count('abort-with-pending' if pend else 'abort')
            if f['fresh']:
                self.exists.discard(f['k'])
            elif not f['indef']:
                self.io_paths[f['k']] = (f['io'], f['nrecs'])
        else:
            a = self.send('CLOSE %d' % ncid)
            if a.startswith('-236'):
                self.count('close-with-pending:' + ('get+put' if f['pget'] and f['pput'] else 'get' if f['pget'] else 'put') +
                           ('+bput' if f['pbput'] else ''))
            else:
                self.count('close')
            self.io_paths[f['k']] = (f['io'], f['nrecs'])
        del self.open[ncid]
        self.closed_ids.add(ncid)

    def wait_done_nocommit(self, f):
        f['pget'] = f['pput'] = f['pbput'] = f['precput'] = f['lastm'] = 0

    def wait_done(self, f):
        if f['precput']:
            f['nrecs'] = max(f['nrecs'], 1)
        f['pget'] = f['pput'] = f['pbput'] = f['precput'] = f['lastm'] = 0

    def do_call(self, ncid):
        r = self.rng
        f = self.open[ncid]
        pend = f['pget'] + f['pput']
        if f['io'] and not f['indef'] and r.chance(1, 4):
            # a request that transfers nothing: zero-length or rejected for its arguments, in any API form
            forms = [z for z in ZFORMS if not (f['rdonly'] and ('PUT' in z or z.startswith('BP_') or 'VAR1' in z))]
            self.send('ZREQ %d %s' % (ncid, r.choice(forms)))
            self.count('zreq')
            return
        if f['io'] and not f['indef'] and r.chance(2, 3):
            # nonblocking requests on fixed / record variables, large (8 KiB, byte-swapped in place) / small buffers
            kinds = ['IGET fx', 'IGET sm'] + (['IGET rc', 'IGET rs'] if f['nrecs'] else [])
            if not f['rdonly']:
                kinds += ['IPUT fx', 'IPUT rc', 'IPUT sm', 'IPUT rs'] * 2
                if f['attached'] and f['pbput'] < 4:
                    kinds += ['BPUT fx', 'BPUT rc', 'BPUT sm', 'BPUT rs'] * 3
            if r.chance(1, 4):
                # varm + transposed imap + non-contiguous derived buftype: the request owns an imaptype AND a dup of the buftype
                mk = ['IGET'] + ([] if f['rdonly'] else ['IPUT', 'IPUT'] + (['BPUT'] if f['attached'] and f['pbput'] < 4 else []))
                k = r.choice(mk)
                if self.send('MREQ %d %s' % (ncid, k)) == '0':
                    self.count('mreq:' + k)
                    f['lastm'] = {'IGET': 1, 'IPUT': 2, 'BPUT': 3}[k]
                    if k == 'IGET':
                        f['pget'] += 1
                    else:
                        f['pput'] += 1
                        f['pbput'] += (k == 'BPUT')
                return
            if pend and r.chance(1, 5):
                # end pending requests otherwise than by close: by id (wait / cancel) or wholesale per kind
                ops = ['CANCELGET', 'CANCELPUT', 'CANCELALL'] + (['WAITID', 'CANCELID'] * 2 if f['lastm'] else [])
                k = r.choice(ops)
                a = self.send('%s %d' % (k, ncid))
                self.count('end-pending:' + k)
                if a.startswith('0'):
                    if k == 'CANCELGET':
                        f['pget'] = 0
                        f['lastm'] = 0 if f['lastm'] == 1 else f['lastm']
                    elif k == 'CANCELPUT':
                        f['pput'] = f['pbput'] = f['precput'] = 0
                        f['lastm'] = 1 if f['lastm'] == 1 else 0
                    elif k == 'CANCELALL':
                        self.wait_done_nocommit(f)
                    else:
                        if f['lastm'] == 1:
                            f['pget'] -= 1
                        else:
                            f['pput'] -= 1
                            f['pbput'] -= (f['lastm'] == 3)
                        f['lastm'] = 0
                return
            if pend and r.chance(1, 6):
                a = self.send('WAITALL %d' % ncid)
                self.count('call:WAITALL')
                if a.startswith('0'):
                    self.wait_done(f)
                return
            k = r.choice(kinds)
            a = self.send('IOP %d %s' % (ncid, k))
            self.count('iop:' + k)
            if a == '0':
                kind, var = k.split(' ')
                if kind == 'IGET':
                    f['pget'] += 1
                else:
                    f['pput'] += 1
                    if kind == 'BPUT':
                        f['pbput'] += 1
                    if var[0] == 'r':
                        f['precput'] += 1
            return
        kinds = [k for k in KINDS_ANY if not (pend and k in ('REDEF', 'ENDDEF'))]
        if f['indef'] and not f['io'] and r.chance(2, 5):
            kinds = ['SETUP']
        elif f['indef'] and f['io'] and r.chance(2, 5):
            kinds = ['ENDDEF']
        if not f['attached']:
            kinds += ['ATTACH'] * 2
        elif not f['pbput']:
            kinds += ['DETACH']
        kind = r.choice(kinds)
        a = self.send('%s %d' % (kind, ncid)).split()
        self.count('call:' + kind)
        if a[0] != '0':
            self.count('call-error')
            return
        if kind == 'ENDDEF':
            f['indef'], f['fresh'] = False, False
            self.io_paths[f['k']] = (f['io'], f['nrecs'])
        elif kind == 'REDEF':
            f['indef'] = True
        elif kind == 'DEFVAR':
            f['nvars'] = (f['nvars'] or 0) + 1
        elif kind == 'NVARS':
            f['nvars'] = int(a[1])
        elif kind == 'SETUP':
            f['io'] = True
        elif kind == 'ATTACH':
            f['attached'] = True
        elif kind == 'DETACH':
            f['attached'] = False

    def do_probe(self):
        r = self.rng
        c = r.below(10)
        if c <= 4 and self.closed_ids:
            ncid = r.choice(sorted(self.closed_ids)); self.count('probe:stale')
        elif c <= 6:
            ncid = r.choice([i for i in (3, 7, 100, 555, self.nmax - 1) if i not in self.open]); self.count('probe:never-used')
        elif c == 7:
            ncid = r.choice([-1, -2, -1000, -2**31]); self.count('probe:negative')
        else:
            ncid = r.choice([self.nmax, self.nmax + 1, 5000, 2**31 - 1]); self.count('probe:huge')
        if self.open:
            self.count('probe:while-others-open')
        self.send('PROBE %d %s' % (ncid, r.choice(PROBE_KINDS)))

    def script(self, nops):
        r = self.rng
        for _ in range(nops):
            c = r.below(100)
            if not self.open or (c < 22 and len(self.open) < 5):
                self.do_open()
            elif c < 34:
                self.do_close(r.choice(sorted(self.open)))
            elif c < 52:
                self.do_probe()
            else:
                self.do_call(r.choice(sorted(self.open)))
            if r.chance(1, 2):
                self.send('SNAP')
        for ncid in sorted(self.open):
            self.do_close(ncid, allow_abort=False)
        self.do_probe()
        self.send('SNAP')
        self.send('LEAK')


def directed(nmax):
    """(name, lines, leak-scenario or None)"""
    S = []
    # F1 replay: create a, create b, close a, inq_ndims(a)
    S.append(('f1-replay', ['CREATE 0', 'CREATE 1', 'CLOSE 0', 'PROBE 0 NDIMS', 'CLOSE 1', 'PROBE 0 NDIMS', 'PROBE 1 NDIMS', 'LEAK'], None))
    L = ['CREATE 0', 'CREATE 1', 'DEFVAR 1', 'ENDDEF 1', 'CLOSE 0']
    for k in PROBE_KINDS:
        L += ['PROBE 0 %s' % k, 'PROBE 9 %s' % k, 'PROBE -1 %s' % k, 'PROBE %d %s' % (nmax, k), 'SNAP']
    L += ['CLOSE 1'] + ['PROBE %d %s' % (i, k) for i in (0, 1) for k in PROBE_KINDS] + ['SNAP', 'LEAK']
    S.append(('stale-ids-every-call', L, None))
    # NC_MAX_NFILES open at once, no failing call: ids 0..N-1 in order; close three in the middle, they are reissued lowest first
    L = ['CREATE 2', 'DEFDIM 0', 'DEFVAR 0', 'CLOSE 0', 'FILL 2 %d' % nmax, 'SNAP', 'NDIMS %d' % (nmax - 1),
         'CLOSE 700', 'CLOSE 3', 'CLOSE 512', 'PROBE 3 NDIMS', 'OPEN 2 0', 'OPEN 2 0', 'OPEN 2 0', 'SNAP']
    L += ['CLOSE %d' % i for i in range(nmax)] + ['SNAP', 'LEAK']
    S.append(('max-files', L, None))
    # one more than the maximum: NC_ENFILE, nothing else disturbed
    L = ['CREATE 2', 'DEFDIM 0', 'CLOSE 0', 'FILL 2 %d' % nmax, 'FILL 2 2', 'CREATE 3', 'OPEN 2 0', 'SNAP', 'CLOSE 5', 'OPEN 2 1', 'NDIMS 5']
    L += ['CLOSE %d' % i for i in range(nmax)] + ['SNAP', 'LEAK']
    S.append(('enfile', L, 'leak-after-enfile'))
    io = ['CREATE 0', 'SETUP 0', 'ENDDEF 0']
    # close with pending requests of BOTH kinds, several of each, fixed and record variables, large (in-place swapped) and small buffers
    S.append(('pending-close', io + ['IOP 0 IGET fx', 'IOP 0 IPUT fx', 'IOP 0 IPUT sm', 'IOP 0 IGET sm', 'IOP 0 IPUT rc', 'IOP 0 IPUT rs', 'IOP 0 IPUT fx',
                                     'CREATE 1', 'SNAP', 'CLOSE 0', 'SNAP', 'NDIMS 1', 'CLOSE 1', 'LEAK'], None))
    S.append(('pending-close-gets-only', io + ['IOP 0 IGET fx', 'IOP 0 IGET sm', 'IOP 0 IGET fx', 'CLOSE 0', 'LEAK'], None))
    S.append(('pending-close-puts-only', io + ['IOP 0 IPUT rc', 'IOP 0 IPUT sm', 'IOP 0 IPUT fx', 'CLOSE 0', 'LEAK'], None))
    S.append(('pending-close-one-each', io + ['IOP 0 IGET sm', 'IOP 0 IPUT fx', 'CLOSE 0', 'LEAK'], None))
    S.append(('pending-close-after-wait', io + ['IOP 0 IPUT rc', 'IOP 0 IPUT rs', 'IOP 0 IPUT fx', 'WAITALL 0', 'IOP 0 IGET rc', 'IOP 0 IGET rs', 'IOP 0 IPUT rc',
                                                'IOP 0 IPUT fx', 'CLOSE 0', 'OPEN 0 1', 'IOP 0 IGET rc', 'IOP 0 IPUT rs', 'IOP 0 IPUT fx', 'IOP 0 IGET fx',
                                                'CLOSE 0', 'OPEN 0 0', 'IOP 0 IGET rc', 'IOP 0 IGET fx', 'IOP 0 IPUT fx', 'CLOSE 0', 'LEAK'], None))
    S.append(('pending-close-redef', io + ['IOP 0 IGET fx', 'IOP 0 IPUT fx', 'IOP 0 IPUT rs', 'REDEF 0', 'DEFDIM 0', 'CLOSE 0', 'LEAK'], None))
    # iget + bput pending, buffer still attached at close (the attached buffer itself is scenario leak-attach-without-detach)
    S.append(('pending-close-bput', io + ['ATTACH 0', 'IOP 0 BPUT fx', 'IOP 0 IGET fx', 'IOP 0 BPUT rs', 'IOP 0 BPUT sm', 'IOP 0 IGET sm', 'IOP 0 IPUT rc',
                                          'DETACH 0', 'CLOSE 0', 'LEAK'], 'leak-attach-without-detach'))
    S.append(('pending-wait-detach-close', io + ['ATTACH 0', 'IOP 0 BPUT fx', 'IOP 0 IGET fx', 'IOP 0 BPUT rc', 'WAITALL 0', 'DETACH 0', 'IOP 0 IGET rc',
                                                 'IOP 0 IPUT rc', 'CLOSE 0', 'LEAK'], None))
    # requests that transfer nothing, every API form: all in one session (with and without requests pending / buffer attached) ...
    S.append(('zero-length-all-forms', io + ['ZREQ 0 %s' % z for z in ZFORMS] + ['IOP 0 IGET fx', 'IOP 0 IPUT sm', 'ATTACH 0', 'IOP 0 BPUT sm'] +
              ['ZREQ 0 %s' % z for z in ZFORMS] + ['WAITALL 0', 'DETACH 0', 'CLOSE 0', 'LEAK'], None))
    # ... and each form on its own, followed by the close of the last file and the balance
    L = io + ['CLOSE 0', 'LEAK']
    for z in ZFORMS:
        L += ['OPEN 0 1', 'ZREQ 0 %s' % z, 'CLOSE 0', 'LEAK']
    S.append(('zero-length-each-form', L, None))
    # pending varm requests with transposed imap AND a non-contiguous derived buftype (the request owns two datatypes), each kind ended
    # in each possible way, balance after the close of the last file
    ends = {'wait': ['WAITID 0'], 'wait_all': ['WAITALL 0'], 'cancel-id': ['CANCELID 0'], 'cancel-get-all': ['CANCELGET 0'],
            'cancel-put-all': ['CANCELPUT 0'], 'cancel-all': ['CANCELALL 0'], 'close': [], 'abort': None}
    for kind in ('IGET', 'IPUT', 'BPUT'):
        for en, eops in ends.items():
            pre = io + (['ATTACH 0'] if kind == 'BPUT' else [])
            post = (['WAITALL 0', 'DETACH 0'] if kind == 'BPUT' and en not in ('close', 'abort') else [])
            if eops is None:
                L = pre + ['MREQ 0 %s' % kind, 'MREQ 0 %s' % kind, 'CREATE 1', 'ABORT 0', 'CLOSE 1', 'LEAK']
                scen = 'leak-abort-with-pending'
            else:
                L = pre + ['MREQ 0 %s' % kind, 'IOP 0 IGET sm', 'MREQ 0 %s' % kind] + eops + post + ['CLOSE 0', 'LEAK']
                scen = 'leak-attach-without-detach' if kind == 'BPUT' and en == 'close' else None
            S.append(('varm-buftype-%s-%s' % (kind.lower(), en), L, scen))
    S.append(('varm-buftype-mixed', io + ['ATTACH 0', 'MREQ 0 IGET', 'MREQ 0 IPUT', 'MREQ 0 BPUT', 'MREQ 0 IGET', 'CANCELID 0', 'MREQ 0 IPUT', 'WAITID 0',
                                          'CANCELGET 0', 'MREQ 0 IGET', 'CANCELPUT 0', 'MREQ 0 IPUT', 'MREQ 0 IGET', 'CANCELALL 0', 'MREQ 0 IGET',
                                          'MREQ 0 IPUT', 'DETACH 0', 'CLOSE 0', 'LEAK'], None))
    # abort with pending requests
    S.append(('pending-abort', io + ['IOP 0 IGET fx', 'IOP 0 IPUT fx', 'IOP 0 IPUT rs', 'IOP 0 IGET sm', 'CREATE 1', 'ABORT 0', 'SNAP', 'CLOSE 1', 'LEAK'],
              'leak-abort-with-pending'))
    S.append(('attach-detach', ['CREATE 0', 'ENDDEF 0', 'ATTACH 0', 'DETACH 0', 'CLOSE 0', 'LEAK'], None))
    S.append(('attach-no-detach', ['CREATE 0', 'ENDDEF 0', 'ATTACH 0', 'CLOSE 0', 'LEAK'], 'leak-attach-without-detach'))
    L = ['CREATE 0', 'DEFDIM 0', 'DEFVAR 0', 'PUTATT 0', 'CLOSE 0', 'CREATEX 0', 'OPENJUNK', 'OPENMISSING', 'CREATEBAD 0', 'CREATEBAD 1', 'SNAP']
    L += ['OPENTRUNC 0 %d' % n for n in range(0, 140)] + ['CREATE 1', 'CREATEX 0', 'OPENMISSING', 'SNAP', 'ABORT 0', 'OPEN 1 0', 'SNAP', 'LEAK']
    S.append(('failing-opens', L, None))
    return S


def run_check(tier, seed):
    V = Verdict(PROP, tier, seed)
    rng = SplitMix64(seed * 1000003 + 17)
    V.assumptions = [
        'PARTIAL: "no heap memory and no MPI objects left after the last close" is a statement about the C heap and the MPI library; it is MEASURED per script (ncmpi_inq_malloc_size of a -DPNC_MALLOC_TRACE build; PMPI shim counting create/dup vs free of datatypes, communicators, infos, file handles), not proved',
        'the per-file object of the model is abstract (any type, any function on it); the driver instantiates it with counters and mode flags only',
        'PNC_check_id is modelled in both variants (as in the source: no NULL test; with the one-line repair); the run determines by execution which variant the library follows and ties to that one',
        'single process (singleton MPI_Init, MPI_COMM_WORLD and a dup of it); thread-safe build (ENABLE_THREAD_SAFE) not modelled',
    ]
    V.cov['trusted_base'] = TRUSTED_BASE_COMMON + ['hand transcription of src/dispatchers/file.c id table in lean/PnVerif/Model/IdTable.lean, tied by the correspondence stream `life`',
                                                   'harness/c17_life.c incl. its PMPI shim, checks/c17.py']
    tree = build_impl('plain')
    wd = workdir('c17')
    try:
        m = re.search(r'#define\s+NC_MAX_NFILES\s+(\d+)', open(os.path.join(tree, 'src/include/pnetcdf.h')).read())
        nmax = int(m.group(1)) if m else 1024
        # ---- S3
        ok, out = lake_build(['PnVerif.Props.C17', 'c17drv'])
        failed_thms = set()
        if not ok:
            for f, ln, msg in lake_errors(out):
                t = theorem_at(f, ln)
                if t:
                    failed_thms.add(t)
            log('[S3] lake build FAILED; theorems that no longer check:', sorted(failed_thms)[:20])
        obl = obligations_of('PnVerif/Props/C17.lean')
        discharged, bad = axiom_audit('PnVerif.Props.C17', obl, 'PnVerif.Props.C17') if ok else ([], [])
        forb = grep_forbidden([os.path.join(LEAN, f) for f in LEANFILES])
        V.cov['obligations'] = len(obl)
        V.cov['discharged'] = len(discharged)
        V.cov['checker_cmd'] = 'cd lean && lake build PnVerif.Props.C17 c17drv && lake env lean <#print axioms of every name in PnVerif.Props.C17.obligations>'
        if tier == 'thorough' and ok:
            lc = leanchecker(['PnVerif.Props.C17'])
            V.cov['leanchecker'] = 'ok' if not lc else str(lc)
            if lc:
                bad.append(('leanchecker', lc))
        proof_broken = (not ok) or bad or forb or not obl
        log('[S3] obligations=%d discharged=%d bad=%s forbidden=%s' % (len(obl), len(discharged), bad[:3], forb[:3]))
        # ---- S4
        drv = os.path.join(LEAN, '.lake/build/bin/c17drv')
        if not os.path.exists(drv):
            V.broken_tie('Lean driver c17drv does not build', out[-1500:])
            return V.finish()
        hexe = cc(tree, [os.path.join(VERIF, 'harness/c17_life.c')], os.path.join(wd, 'c17h'),
                  extra=['-I' + tree + '/src/include', '-DHAVE_CONFIG_H'])

        def run_c(name, lines, extra=()):
            d = os.path.join(wd, name)
            os.makedirs(d, exist_ok=True)
            try:
                p = subprocess.run([hexe, d] + list(extra), input='\n'.join(lines) + '\n', stdout=subprocess.PIPE, stderr=subprocess.PIPE,
                                   text=True, timeout=900)
                return p.returncode, clean(p.stdout), p.stderr
            except subprocess.TimeoutExpired:
                return -999, [], 'TIMEOUT'

        # which PNC_check_id variant does the library follow?  (F1 trigger: create a, create b, close a, inq_ndims(a))
        rc, o, _ = run_c('variant', ['CREATE 0', 'CREATE 1', 'CLOSE 0', 'PROBE 0 NDIMS', 'CLOSE 1'])
        probe = o[3] if len(o) > 3 else '?'
        nullcheck = 1 if probe.startswith('-33') else 0
        V.cov['check_id_variant'] = 'with NULL test (repaired)' if nullcheck else 'as in the source: no NULL test (F1)'
        log('[S4] stale-id probe while another file is open answers %r -> model variant nullCheck=%d' % (probe, nullcheck))
        # two more variants found by execution: does close free an attached buffer (C17-L2)?  does abort cancel pending requests?
        rc, o, _ = run_c('variant2', ['CREATE 0', 'ENDDEF 0', 'ATTACH 0', 'CLOSE 0', 'LEAK'])
        l2_fixed = len(o) > 4 and o[4] == ZERO_LEAK
        rc, o, _ = run_c('variant3', ['CREATE 0', 'SETUP 0', 'ENDDEF 0', 'IOP 0 IGET fx', 'IOP 0 IPUT sm', 'ABORT 0'])
        abort_cancels = len(o) > 5 and o[5].startswith('-236')
        V.cov['abort_variant'] = 'abort cancels pending requests and reports NC_EPENDING' if abort_cancels else 'as in the source: abort ignores pending requests'
        log('[S4] close frees an attached buffer: %s; abort cancels pending requests: %s' % (l2_fixed, abort_cancels))
        cfg = 'CFG %d %d %d' % (nullcheck, nmax, 1 if abort_cancels else 0)
        scripts = []   # (name, lines, model answers, leak scenario, harness args)
        import resource
        hard = resource.getrlimit(resource.RLIMIT_NOFILE)[1]
        fd_ok = hard == resource.RLIM_INFINITY or hard >= 2 * nmax + 64
        V.cov['max_files_scripts_run'] = bool(fd_ok)
        if not fd_ok:
            log('[S4] RLIMIT_NOFILE hard limit %s too small for %d simultaneously open files: max-files/enfile scripts skipped' % (hard, nmax))
        for name, lines, scen in directed(nmax):
            if not fd_ok and name in ('max-files', 'enfile'):
                continue
            L = [cfg] + lines
            p = subprocess.run([drv], input='\n'.join(L) + '\n', stdout=subprocess.PIPE, text=True)
            scripts.append((name, L, p.stdout.split('\n')[:len(L)], scen, ()))
        cdir = os.path.join(VERIF, 'corpus', PROP)
        if os.path.isdir(cdir):
            for fn in sorted(os.listdir(cdir)):
                if fn.endswith('.txt'):
                    L = [cfg] + [l for l in open(os.path.join(cdir, fn)).read().split('\n') if l and not l.startswith('CFG')]
                    p = subprocess.run([drv], input='\n'.join(L) + '\n', stdout=subprocess.PIPE, text=True)
                    scripts.append(('corpus-' + fn, L, p.stdout.split('\n')[:len(L)], None, ()))
        log('[S4] directed scripts prepared (%.1fs since start)' % V.t.s())
        nscr, nops = (24, 60) if tier == 'quick' else (600, 200)
        dist = {}
        for i in range(nscr):
            p = subprocess.Popen([drv], stdin=subprocess.PIPE, stdout=subprocess.PIPE, text=True, bufsize=1)
            g = Gen(rng, p, nmax)
            g.l2_fixed, g.abort_cancels = l2_fixed, abort_cancels
            g.send(cfg)
            g.script(nops)
            p.stdin.close(); p.wait()
            scripts.append(('life%d' % i, g.lines, g.answers, None, ('dupcomm',) if i % 3 == 2 else ()))
            for k, v in g.dist.items():
                dist[k] = dist.get(k, 0) + v
        log('[S4] random scripts generated (%.1fs since start)' % V.t.s())
        t2 = Timer()
        evals, tie_diffs, prop_fail, nontrivial = 0, [], [], set()
        leak_seen = {}
        for name, lines, answers, scen, extra in scripts:
            tt = Timer()
            rc, co, err = run_c(name, lines, extra)
            if tt.s() > 3:
                log('[S4] script %s (%d requests) took %.1fs' % (name, len(lines), tt.s()))
            if rc != 0 or len(co) < len(lines):
                k = max(0, min(len(co) - 1, len(lines) - 1))
                prop_fail.append(dict(sig='life:crash:%s' % lines[k].split(' ')[0], what='harness process died (rc=%s) in script %s at request %d (%s); stderr %s'
                                      % (rc, name, k, lines[k], err[-300:]), script=lines[:k + 1]))
                continue
            last_z = None
            for i, line in enumerate(lines):
                evals += 1
                op = line.split(' ')[0]
                impl, mod = co[i], answers[i]
                if op == 'ZREQ':
                    last_z = line.split(' ')[2]
                    dist['zreq:' + last_z] = dist.get('zreq:' + last_z, 0) + 1
                    nontrivial.add('zreq:%s:%s' % (last_z, name.rstrip('0123456789')))
                elif op in ('MREQ', 'WAITID', 'CANCELID', 'CANCELGET', 'CANCELPUT', 'CANCELALL'):
                    kk = op + (':' + line.split(' ')[2] if op == 'MREQ' else '')
                    dist['varm-buftype:' + kk] = dist.get('varm-buftype:' + kk, 0) + 1
                    nontrivial.add('%s:%s' % (kk, name.rstrip('0123456789')))
                elif op in ('OPEN', 'CREATE'):
                    last_z = None if name == 'zero-length-each-form' else last_z
                dist['op:' + op] = dist.get('op:' + op, 0) + 1
                if op == 'PROBE':
                    nontrivial.add(line + '@' + ('open' if any(l.startswith(('CREATE', 'OPEN', 'FILL')) for l in lines[:i]) else ''))
                    # property oracle: an id that is not open -> NC_EBADID, whatever the call
                    if not impl.startswith('-33'):
                        dist['probe:not-EBADID'] = dist.get('probe:not-EBADID', 0) + 1
                        # F1's input class: in-range id with an empty slot while some other file is open — exactly where the
                        # unrepaired model variant predicts the NULL dereference too; anything else gets its own signature
                        f1 = impl.startswith('SIG') and mod == impl and nullcheck == 0
                        prop_fail.append(dict(sig='stale-id-null-deref' if f1 else ('stale-id-crash:' if impl.startswith('SIG') else 'stale-id-accepted:') + line.split(' ')[2],
                                              what='API call %s on ncid %s, which is not open, answers %s instead of NC_EBADID (script %s request %d)'
                                              % (line.split(' ')[2], line.split(' ')[1], impl, name, i), script=lines[:i + 1], impl=impl))
                    if impl != mod:
                        tie_diffs.append(dict(script=name, index=i, line=line, impl=impl, model=mod))
                elif op == 'LEAK':
                    prev_leak = leak_seen.get(name, ZERO_LEAK)
                    leak_seen[name] = impl
                    if name == 'zero-length-each-form' and impl == prev_leak:
                        pass        # nothing new since the previous balance of this script: already attributed to an earlier form
                    elif impl != ZERO_LEAK:
                        zsig = 'leak:after-request-that-transfers-nothing:%s' % last_z if (name == 'zero-length-each-form' and last_z) else None
                        prop_fail.append(dict(sig=scen or zsig or ('leak:%s' % name.rstrip('0123456789')), what='after the last close of script %s the library still holds: %s' % (name, impl),
                                              script=lines, impl=impl))
                    elif scen:
                        log('[S4] note: scenario %s no longer leaks' % scen)
                elif op in ('CLOSE', 'ABORT', 'WAITALL', 'CANCELALL') and 'bufs=CHANGED' in impl:
                    # property oracle: the caller's put buffers are bit-identical again once the request is completed or cancelled
                    prop_fail.append(dict(sig='put-buffer-not-restored:' + op, what='%s of ncid %s with pending put requests leaves %s of the caller\'s put buffers modified '
                                          '(byte-swapped in place and never swapped back): %s (script %s request %d)' % (op, line.split(' ')[1], impl.split('(')[-1].rstrip(')'), impl, name, i),
                                          script=lines[:i + 1], impl=impl))
                elif op == 'CLOSE' and mod.startswith('-236') and not impl.startswith('-236'):
                    # property oracle: requests were pending (iput posted, no wait) -> the close must say NC_EPENDING
                    prop_fail.append(dict(sig='close-pending-not-reported', what='ncmpi_close of ncid %s with pending nonblocking requests answers %s instead of NC_EPENDING (script %s request %d)'
                                          % (line.split(' ')[1], impl, name, i), script=lines[:i + 1], impl=impl))
                elif impl != mod:
                    tie_diffs.append(dict(script=name, index=i, line=line, impl=impl[:300], model=mod[:300]))
                if op in ('CLOSE', 'ABORT', 'FILL', 'IOP', 'WAITALL', 'CREATEX', 'OPENJUNK', 'OPENMISSING', 'CREATEBAD', 'OPENTRUNC') or (impl and impl.split(' ')[0] not in ('0', 'cfg')):
                    nontrivial.add(name.rstrip('0123456789') + ':' + line + ':' + impl[:40])
        log('[S4] %d scripts, %d requests replayed on the real library in %.1fs: %d property failures, %d model differences'
            % (len(scripts), evals, t2.s(), len(prop_fail), len(tie_diffs)))
        for td in tie_diffs[:6]:
            log('[S4] model difference:', td)
        sigs = {}
        for pf in prop_fail:
            sigs[pf['sig']] = sigs.get(pf['sig'], 0) + 1
        if sigs:
            log('[S4] property failures by signature:', sigs)
        V.cov['evaluations'] = evals
        V.cov['distinct_nontrivial'] = len(nontrivial)
        V.cov['traces_validated_against_impl'] = len(scripts) - len({t['script'] for t in tie_diffs})
        V.cov['rule'] = ('stream `life`: %d directed scripts (F1 replay, every API kind on stale/never-used/negative/huge ids, NC_MAX_NFILES=%d files open at once, '
                         'NC_ENFILE, id reuse, close/abort with pending get+put+bput requests, %d API forms of requests that transfer nothing (zero-length, argument errors; ZREQ) each followed by close + balance, attach/detach, failing creates/opens incl. a 140-step truncated-header sweep) + %d random scripts x %d '
                         'steps over up to 5 files (create/open/close/abort, calls in between, probes in forked children, SNAP after half of the steps; every 3rd '
                         'script on a dup of MPI_COMM_WORLD); each script = one singleton MPI process. non-trivial = distinct (probe, whether files are open) pair, or a '
                         'distinct close/abort/failing-open/error-returning request' % (len(directed(nmax)), nmax, len(ZFORMS), nscr, nops))
        V.cov['distribution'] = dict(sorted(dist.items()))
        V.cov['samples'] = scripts[0][1][:8] + scripts[-1][1][:12]
        V.cov['measured_resource_balance'] = dict(what='MEASURED, not a theorem: LEAK line after the last close of every script', scripts=len(leak_seen),
                                                  nonzero={k: v for k, v in leak_seen.items() if v != ZERO_LEAK})
        # ---- S5
        nf = 0
        for pf in prop_fail:
            if V.failing_input(pf['sig'], pf['what'], dict(script=pf['script'], impl=pf.get('impl'),
                                                            harness='harness/c17_life.c <dir> < script ; lean/.lake/build/bin/c17drv < script'), tag='in%d' % nf):
                nf += 1
                if nf >= 3:
                    break
        if nf == 0:
            if tie_diffs:
                V.broken_tie('correspondence stream life: model and implementation differ', tie_diffs[:8])
            if proof_broken:
                V.broken_tie('proof obligations no longer check', dict(failed_theorems=sorted(failed_thms), axiom_audit=bad[:10], forbidden=forb[:10],
                                                                        lake_tail=out[-1500:] if not ok else ''))
        return V.finish()
    finally:
        cleanup(wd)


if __name__ == '__main__':
    tier, seed, replay = args(sys.argv[1:])
    sys.exit(run_check(tier, seed))
