#!/usr/bin/env python3
"""C18 — format size limits are enforced and 64-bit offsets are addressed correctly (DESIGN.md §4 C18).

S3  lake build PnVerif.Props.C18 + c18drv (+ c15drv for element offsets), axiom audit, grep
S4  stream `dim`   : ncmpi_def_dim on lengths around every limit, all formats
    stream `def`   : real create / def_dim / def_var / enddef on every combination of format x kind
                     (fixed/record) x order x per-variable size taken from just below / at / just above the
                     format's thresholds, 1-3 variables exhaustively + seeded 4-variable cases, several
                     header / record alignments (the CDF-1 2 GiB begin rule needs begins near 2^31):
                     error codes, begins, recsize, vsize/begin header fields against Model/SizeLimits
    stream `sparse`: single elements written and read back on both sides of 2^31 and 2^32 bytes
                     (byte offset and linear element index), bytes verified with pread on the sparse file
S5  decide
"""
import os, sys, re, struct, subprocess
sys.path.insert(0, os.path.dirname(os.path.abspath(__file__)))
from common import *

PROP = 'C18'
EVARSIZE, EDIMSIZE = -62, -63
LEAN_FILES = ['PnVerif/Model/SizeLimits.lean', 'PnVerif/Spec/SizeRules.lean', 'PnVerif/Lemmas/SizeLemmas.lean',
              'PnVerif/Props/C18.lean', 'Driver/C18.lean']
XSZ = {1: 1, 3: 2, 4: 4, 5: 4, 6: 8, 10: 8}
SIG_OVF = 'enddef-accepts-variable-offsets-beyond-2^63'
BYTE, SHORT, INT, DOUBLE, INT64 = 1, 3, 4, 6, 10


def local_findings(V):
    try:
        for line in open(os.path.join(VERIF, 'findings', 'C18.txt')):
            m = re.match(r'finding:\s+property=(\S+)\s+sig=(\S+)\s+(.*)$', line.strip())
            if m and m.group(1) == PROP and not any(k['sig'] == m.group(2) for k in V.known):
                V.known.append(dict(sig=m.group(2), text=m.group(3)))
    except OSError:
        pass


def rndup(x, a):
    return (x + a - 1) // a * a


def hdr_len(fmt, vars_, allvars=None):
    """length of the header the harness's definitions produce (4-character names, no attributes);
    the dimensions of every requested variable exist, also of those def_var rejected"""
    W = 8 if fmt == 5 else 4
    dv = allvars if allvars is not None else vars_
    ndims = sum(len(v['dims']) - (1 if v['isrec'] else 0) for v in dv) + (1 if any(v['isrec'] for v in dv) else 0)
    n = 4 + W
    n += 4 + W + ndims * (W + 4 + W)
    n += 4 + W
    n += 4 + W
    for v in vars_:
        n += (W + 4) + W + len(v['dims']) * W + (4 + W) + 4 + W + (4 if fmt == 1 else 8)
    return n


def hdr_fields(fmt, vars_, H, allvars=None):
    """-> [(vsize, begin)] parsed from the header bytes at the positions the format prescribes"""
    W = 8 if fmt == 5 else 4
    dv = allvars if allvars is not None else vars_
    ndims = sum(len(v['dims']) - (1 if v['isrec'] else 0) for v in dv) + (1 if any(v['isrec'] for v in dv) else 0)
    pos = 4 + W + 4 + W + ndims * (W + 4 + W) + 4 + W + 4 + W
    out = []
    BW = 4 if fmt == 1 else 8
    for v in vars_:
        pos += (W + 4) + W + len(v['dims']) * W + (4 + W) + 4
        vs = int.from_bytes(H[pos:pos + W], 'big'); pos += W
        bg = int.from_bytes(H[pos:pos + BW], 'big'); pos += BW
        out.append((vs, bg))
    return out


def atoms(fmt):
    """(tag, xtype, dims) — per-variable sizes just below / at / just above the thresholds"""
    small = [('small40', INT, [10]), ('small3', BYTE, [3]), ('small48', DOUBLE, [2, 3])]
    a31 = [('2^31-8', BYTE, [2147483640]), ('2^31-5', BYTE, [2147483643]), ('2^31-4', BYTE, [2147483644]),
           ('2^31-4i', INT, [536870911]), ('2^31-3', BYTE, [2147483645]), ('2^31', BYTE, [2, 1073741824]),
           ('2^31s', SHORT, [1073741824])]
    a32 = [('2^32-8', BYTE, [8, 536870911]), ('2^32-6', SHORT, [2147483645]), ('2^32-4', BYTE, [4, 1073741823]),
           ('2^32-4i', INT, [1073741823]), ('2^32-3', BYTE, [9241, 464773]), ('2^32-2', SHORT, [2147483647]),
           ('2^32', BYTE, [4, 1073741824]), ('2^32i', INT, [1073741824])]
    huge = [('2^63-8', DOUBLE, [1073741823, 1073741825])]
    if fmt == 1:
        return small + a31 + a32[2:3] + huge
    if fmt == 2:
        return small + a31[2:3] + a31[5:6] + a32 + huge
    a63 = [('2^63-5', BYTE, [2**63 - 5]), ('2^63-4', BYTE, [2**63 - 4]), ('2^63-3', BYTE, [2**63 - 3]),
           ('2^63-8q', INT64, [2**60 - 1]), ('2^63q', INT64, [2**60]), ('2^62', BYTE, [2**62]),
           ('2^80', BYTE, [2**40, 2**40]), ('2^61', BYTE, [2**61])]
    return small[:2] + a32[3:4] + a32[6:7] + a63


def mkvar(atom, isrec):
    tag, xt, dims = atom
    return dict(tag=tag + ('r' if isrec else 'f'), xt=xt, isrec=isrec, dims=([0] if isrec else []) + list(dims))


def tline(kind, fmt, halign, ralign, vars_):
    return '%s %d %d %d %d %s' % (kind, fmt, halign, ralign, len(vars_),
                                  ' '.join('%d %d %d %s' % (v['xt'], v['isrec'], len(v['dims']), ' '.join(str(d) for d in v['dims'])) for v in vars_))


def lean_tline(fmt, begin_var, ralign, vars_, op='T'):
    return '%s %d %d 0 %d %d %s' % (op, fmt, begin_var, ralign, len(vars_),
                                   ' '.join('%d %d %d %s' % (XSZ[v['xt']], v['isrec'], len(v['dims']), ' '.join(str(d) for d in v['dims'])) for v in vars_))


def gen_defs(rng, tier):
    cases = []
    for fmt in (1, 2, 5):
        A = atoms(fmt)
        choices = [mkvar(a, r) for a in A for r in (0, 1)]
        for v in choices:
            cases.append((fmt, 512, 4, [v]))
        for v in choices:
            for w in choices:
                cases.append((fmt, 512, 4, [v, w]))
        # three variables: exhaustive in thorough, seeded sample in quick
        if tier == 'thorough':
            for v in choices:
                for w in choices:
                    for x in choices:
                        if rng.chance(1, 2):
                            cases.append((fmt, 512, 4, [v, w, x]))
        for _ in range(8000 if tier == 'thorough' else 2500):
            n = rng.choice([3, 3, 4])
            cases.append((fmt, rng.choice([512, 512, 4, 4096]), rng.choice([4, 4, 512]), [dict(rng.choice(choices)) for _ in range(n)]))
    # CDF-1: the 2 GiB rule for begins.  header extent 2^30, first variable ~2^30 bytes
    B = [('2^30-8', BYTE, [1073741816]), ('2^30-4', BYTE, [1073741820]), ('2^30-3', BYTE, [1073741821]),
         ('2^30', BYTE, [1073741824]), ('2^30+4', BYTE, [1073741828]), ('small40', INT, [10]), ('small3', BYTE, [3])]
    bch = [mkvar(a, r) for a in B for r in (0, 1)]
    for fmt in (1, 2):
        for v in bch:
            for w in bch:
                cases.append((fmt, 2**30, 4, [v, w]))
                if rng.chance(1, 3) or tier == 'thorough':
                    cases.append((fmt, 2**30, 2**30, [v, w, dict(rng.choice(bch))]))
                if rng.chance(1, 4) or tier == 'thorough':
                    cases.append((fmt, 512, 2**31 - 4 if rng.chance(1, 2) else 2**31, [v, w]))
    # CDF-5: sums of sizes around 2^63 (finding: no test of the file end)
    q = lambda k: ('2^%d' % k, BYTE, [2**k])
    for combo in ([q(62), q(62), q(62)], [q(62), q(62)], [q(62), q(61), q(61), q(61)], [q(61)] * 4,
                  [q(62), ('2^62-1024', BYTE, [2**62 - 1024])], [q(62), ('2^62-512', BYTE, [2**62 - 512])]):
        cases.append((5, 512, 4, [mkvar(a, 0) for a in combo]))
        cases.append((5, 512, 4, [mkvar(a, 0) for a in combo[:-1]] + [mkvar(combo[-1], 1)]))
    cases.append((5, 512, 4, [mkvar(q(62), 0), mkvar(q(62), 0), mkvar(('small40', INT, [10]), 1)]))
    return cases


def wrap64(x):
    return (x + 2**63) % 2**64 - 2**63


def split_idx(lin, shape):
    idx = []
    for n in reversed(shape):
        idx.append(lin % n); lin //= n
    idx.reverse()
    return idx, lin


def gen_sparse(rng, tier):
    """-> [(fmt, halign, ralign, vars, writes=[(var, idx, value)])]; offsets are filled in later from the model"""
    S = []
    pick = lambda: rng.range(1, 120)
    # CDF-2: big last fixed variable 8 x 536870912 bytes = 2^32, after two small ones
    v_small = dict(tag='s', xt=INT, isrec=0, dims=[10])
    v_big32 = dict(tag='b', xt=BYTE, isrec=0, dims=[8, 536870912])
    v_mid = dict(tag='m', xt=SHORT, isrec=0, dims=[4, 536870911])       # ~2^32-8 bytes, not oversized in CDF-2
    S.append((2, 512, 4, [v_small, v_big32], 'around', 1))
    S.append((2, 512, 4, [v_mid, v_small], 'around', 0))
    S.append((2, 4, 4, [v_mid, v_small], 'after', 1))
    # CDF-1: oversized last fixed variable (no record variables): offsets beyond 2^31 inside it
    S.append((1, 512, 4, [v_small, dict(tag='b', xt=INT, isrec=0, dims=[3, 536870912])], 'around', 1))
    # CDF-5: 2^33 bytes 1-D (linear element index beyond 2^32), int64 2-D, and variables after them
    S.append((5, 512, 4, [dict(tag='l', xt=BYTE, isrec=0, dims=[2**33 + 16]), v_small], 'around', 0))
    S.append((5, 512, 4, [dict(tag='q', xt=INT64, isrec=0, dims=[2**20 + 3, 2**10]), dict(tag='d', xt=DOUBLE, isrec=0, dims=[5])], 'around', 0))
    # record variables: recsize 2^30 (+4), records beyond 2^31 / 2^32 bytes
    for fmt in (2, 5):
        S.append((fmt, 512, 4, [v_small, dict(tag='r', xt=INT, isrec=1, dims=[0, 2**28]), dict(tag='t', xt=BYTE, isrec=1, dims=[0, 3])], 'records', 1))
    return S


# ------------------------------------------------------------------------------------------
def run_check(tier, seed):
    V = Verdict(PROP, tier, seed)
    local_findings(V)
    rng = SplitMix64(seed * 7368787 + 18)
    V.assumptions = [
        'Model/SizeLimits.lean is a hand transcription of ncmpi_def_dim (size test), ncmpio_NC_check_vlen(s), ncmpio_NC_var_shape64, NC_begins (new file, ncp->old == NULL) and the vsize field of hdr_put_NC_var; it is tied to the source by running the real library on the same definitions on every run',
        'the header extent begin_var = D_RNDUP(header length, h_align) is an input of the model; the check computes the header length of its own (fixed-width-name, attribute-free) definitions and verifies it against ncmpi_inq_header_size / ncmpi_inq_header_extent on every accepted case',
        'quantities are Nat in the model; agreement with the signed 64-bit C arithmetic is what checkVlen_no_overflow / defvar_iff / no_overflow_partial state, the remaining gap is finding ' + SIG_OVF,
        'redefinition (ncp->old != NULL) and subfiling are not modelled here (C06)',
        'sparse-file stream: the file system must support sparse files of a few 2^33 bytes (ext4/xfs do); element offsets come from the C15 addressing model (c15drv)',
    ]
    V.cov['trusted_base'] = TRUSTED_BASE_COMMON + ['harness/c18_size.c, checks/c18.py generators, header-field parser and oracle (differential testing)']
    tree = build_impl('plain')
    wd = workdir('c18')
    try:
        ok, out = lake_build(['PnVerif.Props.C18', 'c18drv', 'c15drv'])
        obl = obligations_of('PnVerif/Props/C18.lean')
        failed_thms = set()
        if not ok:
            for f, ln, msg in lake_errors(out):
                t = theorem_at(f, ln)
                if t:
                    failed_thms.add(t)
            log('[S3] lake build FAILED:', sorted(failed_thms)[:10])
        discharged, bad = axiom_audit('PnVerif.Props.C18', obl, 'PnVerif.Props.C18') if ok else ([], [])
        forb = grep_forbidden([os.path.join(LEAN, f) for f in LEAN_FILES])
        if tier == 'thorough' and ok:
            lc = leanchecker(['PnVerif.Props.C18'])
            V.cov['leanchecker'] = 'ok' if not lc else str(lc)
            if lc:
                bad.append(('leanchecker', lc))
        V.cov['obligations'] = len(obl)
        V.cov['discharged'] = len(discharged)
        V.cov['checker_cmd'] = 'cd lean && lake build PnVerif.Props.C18 c18drv c15drv && lake env lean <#print axioms of every obligation>'
        proof_broken = (not ok) or bool(bad) or bool(forb) or len(obl) == 0
        drv = os.path.join(LEAN, '.lake/build/bin/c18drv')
        drv15 = os.path.join(LEAN, '.lake/build/bin/c15drv')
        if not os.path.exists(drv) or not os.path.exists(drv15):
            V.broken_tie('Lean driver c18drv/c15drv does not build', out[-1500:])
            return V.finish()
        hexe = os.path.join(wd, 'c18h')
        try:
            cc(tree, [os.path.join(VERIF, 'harness/c18_size.c')], hexe)
        except BuildFailed as ex:
            V.broken_tie('harness c18_size.c does not compile against the tree', str(ex)[-1500:])
            return V.finish()
        fdir = os.path.join(wd, 'files')
        os.makedirs(fdir)
        prop_fail, tie_diffs, dist, distinct = [], [], {}, set()

        def bump(k):
            dist[k] = dist.get(k, 0) + 1
        # ---------------- stream dim
        dsizes = [-1, 0, 1, 2, 2**31 - 2, 2**31 - 1, 2**31, 2**31 + 1, 2**32 - 1, 2**32, 2**32 + 1, 2**62, 2**63 - 1, -2**63, -2**31]
        dsizes += [rng.range(0, 2**31 - 1) for _ in range(5)] + [rng.range(2**31, 2**63 - 1) for _ in range(5)]
        dlines = ['D %d %d' % (f, s) for f in (1, 2, 5) for s in dsizes]
        # ---------------- stream def
        cases = gen_defs(rng, tier)
        clines, llines = [], []
        for fmt, halign, ralign, vs in cases:
            clines.append(tline('T', fmt, halign, ralign, vs))
        t1 = Timer()
        rc, so, se = mpirun(1, [hexe, fdir], stdin='\n'.join(dlines + clines) + '\n', timeout=1500)
        co = [l for l in so.split('\n') if l.strip() != '']
        if rc != 0 or len(co) < len(dlines) + len(clines):
            V.broken_tie('def harness crashed', 'rc=%s lines=%d/%d stderr=%s' % (rc, len(co), len(dlines) + len(clines), se[-400:]))
            return V.finish()
        # which NC_begins does this tree have?  decided by the replay of the finding's witness (CDF-5, three
        # variables of 2^62 bytes): the original code accepts it (model enddef), the repaired code returns
        # NC_EVARSIZE (model enddefG).  Both variants have their theorems (accept_iff_rules + no_overflow_counterexample
        # / _partial  resp.  accept_iff_rules_repaired + no_overflow_repaired).
        wit = tline('T', 5, 512, 4, [mkvar(('2^62', BYTE, [2**62]), 0)] * 3)
        variant, OP = 'original', 'T'
        try:
            mw = re.search(r' e=(-?\d+)', co[len(dlines) + clines.index(wit)])
            if mw and int(mw.group(1)) == EVARSIZE:
                variant, OP = 'repaired', 'G'
        except (ValueError, IndexError):
            pass
        V.cov['NC_begins_variant'] = variant
        log('[S4] NC_begins variant of this tree: %s' % variant)
        # the model needs to know which variables survive def_var to compute the header length:
        # a first driver pass yields dv (independent of begin_var), a second the layout
        pl = subprocess.run([drv], input='\n'.join(dlines + [lean_tline(c[0], 0, 4, c[3]) for c in cases]) + '\n',
                            stdout=subprocess.PIPE, stderr=subprocess.PIPE, text=True)
        lo1 = pl.stdout.split('\n')
        if len(lo1) < len(dlines) + len(cases):
            V.broken_tie('Lean driver crashed', pl.stderr[-400:]); return V.finish()
        surv = []
        for i, c in enumerate(cases):
            m = re.match(r'dv=(\S+) ', lo1[len(dlines) + i])
            dv = [int(x) for x in m.group(1).split(',')] if m and m.group(1) != '-' else []
            surv.append([v for v, e in zip(c[3], dv) if e == 0])
        bvs = []
        for c, sv in zip(cases, surv):
            ha = rndup(c[1], 4) if c[1] > 0 else 4
            bvs.append(rndup(hdr_len(c[0], sv, c[3]), ha) if sv else hdr_len(c[0], sv, c[3]))
        pl = subprocess.run([drv], input='\n'.join(lean_tline(c[0], bv, rndup(c[2], 4), c[3], OP) for c, bv in zip(cases, bvs)) + '\n',
                            stdout=subprocess.PIPE, stderr=subprocess.PIPE, text=True)
        lo2 = pl.stdout.split('\n')
        if len(lo2) < len(cases):
            V.broken_tie('Lean driver crashed', pl.stderr[-400:]); return V.finish()
        # --- dim stream
        for i, line in enumerate(dlines):
            real = int(co[i]); me, okd = map(int, lo1[i].split())
            bump('dim:' + ('ok' if real == 0 else str(real)))
            distinct.add(line)
            if (real == 0) != (okd == 1) or real not in (0, EDIMSIZE):
                prop_fail.append(('C18:def_dim:real=%d' % real, 'ncmpi_def_dim returns %d, format rule says %s' % (real, 'legal' if okd else 'NC_EDIMSIZE'),
                                  dict(stream='dim', line=line, real=real, model=me)))
            elif real != me:
                tie_diffs.append((line, real, me))
        # --- def stream
        n_def = 0
        seen = set()
        for i, c in enumerate(cases):
            fmt, halign, ralign, vs = c
            line = clines[i]
            if line in seen:
                continue
            seen.add(line)
            n_def += 1
            r = co[len(dlines) + i]
            m = re.match(r'dd=(\S*) dv=(\S*) e=(-?\d+)(?: hs=(-?\d+) he=(-?\d+) b=(\S*) rs=(-?\d+) H=(\S*))?', r)
            ml = re.match(r'dv=(\S+) e=(-?\d+) sr=(\d) br=(\d) b=(\S+) brec=(\S+) rs=(\S+) er=(\d) vs=(\S+) len=(\S+)', lo2[i])
            if not m or not ml:
                tie_diffs.append((line, r[:200], lo2[i][:200])); continue
            desc = dict(stream='def', fmt=fmt, halign=halign, ralign=ralign, vars=[(v['tag'], v['xt'], v['isrec'], v['dims']) for v in vs],
                        real=r[:300], model=lo2[i][:300], begin_var=bvs[i])
            dd = [x for x in m.group(1).split(',') if x]
            dvr = [int(x) for x in m.group(2).split(',') if x and x != 'skip']
            dvm = [int(x) for x in ml.group(1).split(',')] if ml.group(1) != '-' else []
            er, em, sr, br = int(m.group(3)), int(ml.group(2)), int(ml.group(3)), int(ml.group(4))
            if any(int(x) != 0 for x in dd):
                tie_diffs.append((line, 'def_dim failed', dd)); continue
            big = any(t in v['tag'] for v in vs for t in ('2^31', '2^32', '2^63', '2^62', '2^61', '2^80', '2^30'))
            if er != 0 or big:
                distinct.add(line)
            bump('def:fmt%d:%s' % (fmt, 'ok' if er == 0 else er))
            # def_var: documented error for a variable that cannot be represented
            if dvr != dvm:
                prop_fail.append(('C18:def_var:codes', 'ncmpi_def_var returns %s, format rule says %s' % (dvr, dvm), desc)); continue
            sv = surv[i]
            # property oracle: enddef succeeds exactly when the size rules hold (per-variable sizes, CDF-1 begins,
            # every offset representable in 63 bits), else NC_EVARSIZE
            endrule = int(ml.group(8))
            want_ok = (sr == 1 and br == 1 and endrule == 1)
            if (er == 0) != want_ok or er not in (0, EVARSIZE):
                if er == 0 and sr == 1 and br == 1 and endrule == 0:
                    prop_fail.append((SIG_OVF, 'ncmpi_enddef returns NC_NOERR although the data section would end beyond 2^63-1; begins reported: %s' % m.group(6), desc))
                    bump('def:offsets-beyond-2^63-accepted')
                else:
                    prop_fail.append(('C18:enddef:real=%d:rules=%d%d%d' % (er, sr, br, endrule),
                                      'ncmpi_enddef returns %d, size rules %s, CDF-1 begin rule %s, 63-bit end rule %s' %
                                      (er, 'hold' if sr else 'violated', 'holds' if br else 'violated', 'holds' if endrule else 'violated'), desc))
                continue
            if er != em:
                tie_diffs.append((line, 'enddef', er, em)); continue
            if er != 0:
                continue
            hs, he = int(m.group(4)), int(m.group(5))
            br_real = [int(x) for x in m.group(6).split(',') if x]
            rs_real = int(m.group(7))
            H = bytes.fromhex(m.group(8))
            bm = [int(x) for x in ml.group(5).split(',')] if ml.group(5) != '-' else []
            rs_m = int(ml.group(7))
            vsm = [int(x) for x in ml.group(9).split(',')] if ml.group(9) != '-' else []
            lens = [int(x) for x in ml.group(10).split(',')] if ml.group(10) != '-' else []
            # without fixed-size variables the reported header extent is the start of the record section
            he_want = bvs[i] if any(not v['isrec'] for v in sv) else int(ml.group(6))
            if sv and (hs != hdr_len(fmt, sv, vs) or he != he_want):
                tie_diffs.append((line, 'header length/extent', hs, he, hdr_len(fmt, sv, vs), bvs[i])); continue
            if br_real != bm or (any(v['isrec'] for v in sv) and rs_real != rs_m):
                tie_diffs.append((line, 'begins/recsize', br_real, rs_real, bm, rs_m)); continue
            try:
                fields = hdr_fields(fmt, sv, H, vs)
            except Exception as ex:
                tie_diffs.append((line, 'header parse', str(ex))); continue
            if [f[0] for f in fields] != vsm or [f[1] for f in fields] != bm:
                # the file must carry the begins the library uses and the vsize the format prescribes
                prop_fail.append(('C18:header-fields', 'vsize/begin fields in the file %s differ from the format rule %s' % (fields, list(zip(vsm, bm))), desc))
        log('[S4] dim: %d, def: %d definitions through the real library and the model in %.1fs' % (len(dlines), n_def, t1.s()))
        # ---------------- stream sparse
        t2 = Timer()
        n_sp, n_elem = 0, 0
        sp = gen_sparse(rng, tier)
        # model begins
        spl = [lean_tline(s[0], rndup(hdr_len(s[0], s[3]), rndup(s[1], 4)), rndup(s[2], 4), s[3], OP) for s in sp]
        pl = subprocess.run([drv], input='\n'.join(spl) + '\n', stdout=subprocess.PIPE, stderr=subprocess.PIPE, text=True)
        lo3 = pl.stdout.split('\n')
        wl, wmeta, alines = [], [], []
        for si, s in enumerate(sp):
            fmt, halign, ralign, vs, mode, vi = s
            ml = re.match(r'dv=(\S+) e=(-?\d+) sr=(\d) br=(\d) b=(\S+) brec=(\S+) rs=(\S+) er=(\d) vs=(\S+) len=(\S+)', lo3[si] if si < len(lo3) else '')
            if not ml or int(ml.group(2)) != 0:
                tie_diffs.append(('sparse scenario not accepted by the model', spl[si], lo3[si] if si < len(lo3) else '')); continue
            bm = [int(x) for x in ml.group(5).split(',')]
            rs_m = int(ml.group(7))
            writes = []
            targets = [2**31 - 8, 2**31 - 1, 2**31, 2**31 + 1, 2**32 - 4, 2**32 - 1, 2**32, 2**32 + 5, 2**33 + 7]
            nper = 9 if tier == 'thorough' else 6
            if mode == 'records':
                v = vs[vi]
                for rec in (0, 1, 2, 3, 4, 5):
                    inner = [rng.range(0, n - 1) for n in v['dims'][1:]]
                    writes.append((vi, [rec] + inner))
                writes.append((2, [4, 1]))
                writes.append((0, [7]))
            else:
                v = vs[vi]
                x = XSZ[v['xt']]
                total = 1
                for n in v['dims']:
                    total *= n
                for T in rng.shuffle(targets)[:nper]:
                    lin = (T - bm[vi]) // x
                    if 0 <= lin < total:
                        idx, _ = split_idx(lin, v['dims'])
                        writes.append((vi, idx))
                writes.append((vi, [n - 1 for n in v['dims']]))
                writes.append((vi, [0] * len(v['dims'])))
                other = 1 - vi
                writes.append((other, [vs[other]['dims'][0] - 1] + [0] * (len(vs[other]['dims']) - 1)))
                if mode == 'after':
                    writes.append((1, [3]))
            # dedupe, give values
            ww, seenw = [], set()
            for var, idx in writes:
                if (var, tuple(idx)) in seenw:
                    continue
                seenw.add((var, tuple(idx)))
                ww.append((var, idx, rng.range(1, 120)))
            for var, idx, val in ww:
                v = vs[var]
                shape = list(v['dims'])
                if v['isrec']:
                    shape[0] = 0
                alines.append('A 0 %d %d 0 1 %d %d %d 0 %d %s S %s CN TN' % (
                    1 if fmt != 5 else 0, v['isrec'], bm[var], XSZ[v['xt']], rs_m, len(shape),
                    ' '.join(str(x) for x in shape), ' '.join(str(x) for x in idx)))
            wmeta.append((si, ww, bm))
        pl = subprocess.run([drv15], input='\n'.join(alines) + '\n', stdout=subprocess.PIPE, stderr=subprocess.PIPE, text=True)
        la = pl.stdout.split('\n')
        k = 0
        wmeta2 = []
        for si, ww, bm in wmeta:
            fmt, halign, ralign, vs, mode, vi = sp[si]
            offs = []
            for var, idx, val in ww:
                t = la[k].split(); k += 1
                offs.append(int(t[3]) if len(t) >= 4 and t[0] == '0' else -1)
            wl.append(tline('W', fmt, halign, ralign, vs) + ' %d ' % len(ww) +
                      ' '.join('%d %d %s %d %d' % (var, len(idx), ' '.join(str(x) for x in idx), val, off) for (var, idx, val), off in zip(ww, offs)))
            wmeta2.append((si, ww, bm, offs))
        rc, so, se = mpirun(1, [hexe, fdir], stdin='\n'.join(wl) + '\n', timeout=900)
        wo = [l for l in so.split('\n') if l.strip() != '']
        if rc != 0 or len(wo) < len(wl):
            V.broken_tie('sparse harness crashed', 'rc=%s lines=%d/%d stderr=%s' % (rc, len(wo), len(wl), se[-400:]))
            return V.finish()
        maxblk = 0
        for j, (si, ww, bm, offs) in enumerate(wmeta2):
            fmt, halign, ralign, vs, mode, vi = sp[si]
            m = re.match(r' ?e=(-?\d+) b=(\S*) w=(\S*) g=(\S*) c=(-?\d+) sz=(-?\d+) blk=(-?\d+) p=(\S*)', wo[j])
            desc = dict(stream='sparse', line=wl[j][:400], real=wo[j][:400])
            n_sp += 1
            if not m:
                tie_diffs.append(('sparse output', wl[j][:200], wo[j][:200])); continue
            if int(m.group(1)) != 0:
                prop_fail.append(('C18:sparse:enddef=%s' % m.group(1), 'an acceptable definition was rejected', desc)); continue
            br_real = [int(x) for x in m.group(2).split(',') if x]
            if br_real != bm:
                tie_diffs.append(('sparse begins', br_real, bm)); continue
            werr = [int(x) for x in m.group(3).split(',') if x]
            g = [tuple(map(int, x.split(':'))) for x in m.group(4).split(',') if x]
            pb = [x for x in m.group(8).split(',') if x]
            maxblk = max(maxblk, int(m.group(7)))
            for (var, idx, val), off, we, (ge, gv), hx in zip(ww, offs, werr, g, pb):
                n_elem += 1
                xt = vs[var]['xt']
                exp = {1: '>b', 3: '>h', 4: '>i', 10: '>q'}.get(xt)
                expb = struct.pack(exp, val) if exp else struct.pack('>d', float(val))
                side = 'lt2^31' if off < 2**31 else ('lt2^32' if off < 2**32 else 'ge2^32')
                bump('sparse:fmt%d:%s' % (fmt, side))
                distinct.add('%d %d %s' % (si, var, idx))
                d2 = dict(desc, var=var, index=idx, value=val, expected_offset=off, put_err=we, get_err=ge, got_value=gv, bytes_at_offset=hx)
                if we != 0 or ge != 0:
                    prop_fail.append(('C18:sparse:put/get-error', 'put/get of an in-range element at byte offset %d failed (%d/%d)' % (off, we, ge), d2))
                elif gv != val:
                    prop_fail.append(('C18:sparse:readback', 'element at byte offset %d reads back %d instead of %d' % (off, gv, val), d2))
                elif bytes.fromhex(hx) != expb:
                    prop_fail.append(('C18:sparse:wrong-place', 'element was not stored at byte offset %d (found %s, expected %s)' % (off, hx, expb.hex()), d2))
        log('[S4] sparse: %d files, %d elements on both sides of 2^31 / 2^32 in %.1fs (max %d blocks allocated)' % (n_sp, n_elem, t2.s(), maxblk))
        # ---------------- stream blocks (added by the integrator): multi-row requests on variables whose inner
        # dimension exceeds 2^31-1 / 2^32: the filetype construction (type_create_subarray64 and its big-integer
        # path) must place row r at begin + r * (inner length) * xsz.  Spec = row-major addressing.
        import apicmp
        t3 = Timer()
        n_blk = 0
        bexe = apicmp.build_apirun(tree, wd)
        for inner, xt, mt, xsz in ((2**31 + 40, 'byte', 'schar', 1), (2**32 + 64, 'byte', 'schar', 1), (2**31 + 8, 'short', 'short', 2),
                                   (2**32 // 4 + 16, 'int', 'int', 4)):
            for (c0, c1, s1) in ((5, 3, 1), (inner - 9, 4, 1), (7, 2, 3)):
                name = 'c18blk_%d.nc' % n_blk
                lines_b = ['1 * create %s 5 clobber -' % name, '2 * def_dim r 3', '3 * def_dim big %d' % inner,
                           '4 * def_var pad int 1 r', '5 * def_var v %s 2 r big' % xt, '6 * enddef',
                           '7 * inq_varoffset v']
                vals = list(range(1, 2 * c1 + 1))
                if s1 == 1:
                    lines_b.append('8 * put vara c v %s c 1,%d 2,%d - - : %s' % (mt, c0, c1, ' '.join(map(str, vals))))
                else:
                    lines_b.append('8 * put vars c v %s c 1,%d 2,%d 1,%d - : %s' % (mt, c0, c1, s1, ' '.join(map(str, vals))))
                lines_b.append('9 * sync')
                st = 10
                cells = [(1 + r, c0 + k * s1) for r in range(2) for k in range(c1)]
                for (r, c) in cells:
                    lines_b.append('%d * get var1 c v %s c %d,%d - - -' % (st, mt, r, c)); st += 1
                if s1 == 1:
                    lines_b.append('%d * get vara c v %s c 1,%d 2,%d - -' % (st, mt, c0, c1)); st += 1
                lines_b.append('%d * close' % st); st += 1
                script = os.path.join(wd, 'blk_%d.txt' % os.getpid())
                open(script, 'w').write('\n'.join(lines_b) + '\n')
                rc, impl, err = apicmp.run_impl(bexe, script, 1, wd)
                n_blk += 1
                desc = dict(stream='blocks', script='\n'.join(lines_b), rc=rc, out=impl[:30])
                begin = None
                got = {}
                for l in impl:
                    t = l.split()
                    if t[0] == '7':
                        begin = int(t[4])
                    if t[2] == 'get' and int(t[0]) >= 10 and int(t[0]) < 10 + len(cells):
                        got[int(t[0]) - 10] = (t[3], t[-1])
                if rc != 0 or begin is None or len(got) != len(cells):
                    prop_fail.append(('C18:blocks:failed', 'multi-row request on a variable with inner dimension %d failed' % inner, desc)); continue
                bad_cells = [(cells[i], got[i], vals[i]) for i in range(len(cells)) if got[i] != ('0', str(vals[i]))]
                # raw bytes at the specified offsets
                fpath = os.path.join(wd, name)
                raw_bad = []
                try:
                    with open(fpath, 'rb') as fh:
                        for i, (r, c) in enumerate(cells):
                            off = begin + (r * inner + c) * xsz
                            fh.seek(off)
                            bts = fh.read(xsz)
                            if int.from_bytes(bts, 'big', signed=True) != vals[i]:
                                raw_bad.append((off, bts.hex(), vals[i]))
                    os.unlink(fpath)
                except OSError as ex:
                    raw_bad.append(('io', str(ex), 0))
                bump('blocks:inner>%s:%s' % ('2^32' if inner * xsz > 2**32 else '2^31', 'strided' if s1 > 1 else 'contig-rows'))
                distinct.add('blocks %d %s %d %d %d' % (inner, xt, c0, c1, s1))
                if bad_cells or raw_bad:
                    prop_fail.append(('C18:blocks:wrong-place', 'block (rows 1-2, cols from %d) of a variable with inner dimension %d: elements read back %s ; raw bytes at the specified offsets %s'
                                      % (c0, inner, bad_cells[:3], raw_bad[:3]), desc))
        # ---------------- stream blocksN (seed C01-6): the same for variables of 3 and 4 dimensions whose outer dimensions have
        # DIFFERENT lengths: the big-integer fallback of type_create_subarray64 accumulates the byte stride of the slower
        # dimensions as a running product of the dimension lengths; a wrong index there is invisible on 2-D variables.
        import itertools
        for outer, inner, xt, mt, xsz in (([3, 2], 2**31 + 40, 'byte', 'schar', 1), ([2, 3, 2], 2**31 + 8, 'short', 'short', 2),
                                          ([4, 3], 2**32 // 4 + 16, 'int', 'int', 4)):
            for (c0, c1, s1) in ((inner - 9, 4, 1), (7, 2, 3)):
                name = 'c18blkN_%d.nc' % n_blk
                dims = outer + [inner]
                nd = len(dims)
                lines_b = ['1 * create %s 5 clobber -' % name]
                for i, d in enumerate(outer):
                    lines_b.append('2 * def_dim d%d %d' % (i, d))
                lines_b += ['3 * def_dim big %d' % inner, '4 * def_var pad int 1 d0',
                            '5 * def_var v %s %d %s big' % (xt, nd, ' '.join('d%d' % i for i in range(len(outer)))), '6 * enddef',
                            '7 * inq_varoffset v']
                st_o = [d - 2 for d in outer]
                start = st_o + [c0]
                count = [2] * len(outer) + [c1]
                cells = [tuple(st_o[i] + ix[i] for i in range(len(outer))) + (c0 + ix[-1] * s1,)
                         for ix in itertools.product(*[range(c) for c in count])]
                vals = list(range(1, len(cells) + 1))
                cs = lambda l: ','.join(map(str, l))
                if s1 == 1:
                    lines_b.append('8 * put vara c v %s c %s %s - - : %s' % (mt, cs(start), cs(count), ' '.join(map(str, vals))))
                else:
                    lines_b.append('8 * put vars c v %s c %s %s %s - : %s' % (mt, cs(start), cs(count), cs([1] * len(outer) + [s1]), ' '.join(map(str, vals))))
                lines_b.append('9 * sync')
                st = 10
                for cidx in cells:
                    lines_b.append('%d * get var1 c v %s c %s - - -' % (st, mt, cs(cidx))); st += 1
                if s1 == 1:
                    lines_b.append('%d * get vara c v %s c %s %s - -' % (st, mt, cs(start), cs(count))); st += 1
                lines_b.append('%d * close' % st); st += 1
                script = os.path.join(wd, 'blkN_%d.txt' % os.getpid())
                open(script, 'w').write('\n'.join(lines_b) + '\n')
                rc, impl, err = apicmp.run_impl(bexe, script, 1, wd)
                n_blk += 1
                desc = dict(stream='blocksN', script='\n'.join(lines_b), rc=rc, out=impl[:40])
                begin = None
                got = {}
                vara_line = None
                for l in impl:
                    tk = l.split()
                    if tk[0] == '7':
                        begin = int(tk[4])
                    if tk[2] == 'get' and int(tk[0]) >= 10 and int(tk[0]) < 10 + len(cells):
                        got[int(tk[0]) - 10] = (tk[3], tk[-1])
                    if s1 == 1 and tk[2] == 'get' and int(tk[0]) == 10 + len(cells):
                        vara_line = tk
                if rc != 0 or begin is None or len(got) != len(cells):
                    prop_fail.append(('C18:blocksN:failed', 'multi-slab request on a %d-dimensional variable with inner dimension %d failed' % (nd, inner), desc)); continue
                bad_cells = [(cells[i], got[i], vals[i]) for i in range(len(cells)) if got[i] != ('0', str(vals[i]))]
                if vara_line is not None and (vara_line[3] != '0' or vara_line[-len(vals):] != [str(x) for x in vals]):
                    bad_cells.append(('get_vara of the whole block', tuple(vara_line[3:][:8]), vals[:6]))
                fpath = os.path.join(wd, name)
                raw_bad = []
                try:
                    with open(fpath, 'rb') as fh:
                        for i, cidx in enumerate(cells):
                            lin = 0
                            for d, ix in zip(dims, cidx):
                                lin = lin * d + ix
                            off = begin + lin * xsz
                            fh.seek(off)
                            bts = fh.read(xsz)
                            if int.from_bytes(bts, 'big', signed=True) != vals[i]:
                                raw_bad.append((off, bts.hex(), vals[i]))
                    os.unlink(fpath)
                except OSError as ex:
                    raw_bad.append(('io', str(ex), 0))
                bump('blocksN:%dD:%s' % (nd, 'strided' if s1 > 1 else 'contig-rows'))
                distinct.add('blocksN %s %d %s %d %d %d' % (outer, inner, xt, c0, c1, s1))
                if bad_cells or raw_bad:
                    prop_fail.append(('C18:blocksN:wrong-place', 'block %s+%s of a variable of shape %s: elements read back %s ; raw bytes at the specified offsets %s'
                                      % (start, count, dims, bad_cells[:3], raw_bad[:3]), desc))
        # ---------------- stream nbwide: several INTERLEAVING nonblocking requests (one strided column request each) completed by one
        # wait, on a variable whose rows are 2 GiB / 4 GiB apart: the flattened offset-length pairs are sorted and merged in
        # ncmpio_wait.c with 64-bit offsets; a comparison that truncates to int mis-orders pairs >= 2^31 bytes apart and the
        # merge then drops them.  Spec = row-major addressing; oracle = get_var1 of every element + raw bytes in the file.
        n_nbw = 0
        for (fmtw, rows, ncol, rstride, xt, mt, xsz) in ((5, 2**20 + 2**19 + 8, 1024, 2**19, 'int', 'int', 4), (2, 2**21 + 8, 256, 2**21 // 4, 'int', 'int', 4),
                                                          (5, 2**22 + 4, 512, 2**22 // 3, 'short', 'short', 2)):
            for direction in ('iput', 'iget'):
                name = 'c18nbw_%d.nc' % n_nbw
                nreq, cnt = 3, 4
                L = ['1 * create %s %d clobber -' % (name, fmtw), '2 * def_dim r %d' % rows, '3 * def_dim c %d' % ncol, '4 * def_var pad int 1 c',
                     '5 * def_var v %s 2 r c' % xt, '6 * enddef', '7 * inq_varoffset v']
                st = 8
                cells, vals = [], {}
                val = 1
                for j in range(nreq):
                    for k in range(cnt):
                        cells.append((k * rstride, j)); vals[(k * rstride, j)] = val; val += 1
                if direction == 'iput':
                    for j in range(nreq):
                        L.append('%d * iput q%d vars v %s c 0,%d %d,1 %d,1 - : %s' % (st, j, mt, j, cnt, rstride, ' '.join(str(vals[(k * rstride, j)]) for k in range(cnt)))); st += 1
                    L.append('%d * waitall c ALL' % st); st += 1
                    L.append('%d * sync' % st); st += 1
                    g0 = st
                    for (r, c) in cells:
                        L.append('%d * get var1 c v %s c %d,%d - - -' % (st, mt, r, c)); st += 1
                else:
                    for (r, c) in cells:
                        L.append('%d * put var1 c v %s c %d,%d - - - : %d' % (st, mt, r, c, vals[(r, c)])); st += 1
                    L.append('%d * sync' % st); st += 1
                    g0 = st
                    for j in range(nreq):
                        L.append('%d * iget g%d vars v %s c 0,%d %d,1 %d,1 -' % (st, j, mt, j, cnt, rstride)); st += 1
                    wstep = st
                    L.append('%d * waitall c GET' % st); st += 1
                L.append('%d * close' % st)
                script = os.path.join(wd, 'nbw_%d.txt' % os.getpid())
                open(script, 'w').write('\n'.join(L) + '\n')
                rc, impl, err = apicmp.run_impl(bexe, script, 1, wd, timeout=300, alarm=120)
                n_nbw += 1
                desc = dict(stream='nbwide', script='\n'.join(L), rc=rc, out=[l[:200] for l in impl[-20:]])
                begin, got = None, {}
                for l in impl:
                    t = l.split()
                    if t[0] == '7':
                        begin = int(t[4])
                    if direction == 'iput' and t[2] == 'get' and g0 <= int(t[0]) < g0 + len(cells):
                        got[cells[int(t[0]) - g0]] = t[-1] if t[3] == '0' else 'err' + t[3]
                    if direction == 'iget' and t[2] == 'waitall' and int(t[0]) == wstep:
                        # "0 | g0 gap=ok : a b c d | g1 ..." -> values per request in posting order
                        segs = l.split(' | ')[1:]
                        for j, sg in enumerate(segs):
                            vv = sg.split(' : ')[1].split() if ' : ' in sg else []
                            for k, x in enumerate(vv):
                                got[(k * rstride, j)] = x
                bad_cells = [(c, got.get(c), vals[c]) for c in cells if got.get(c) != str(vals[c])]
                raw_bad = []
                fpath = os.path.join(wd, name)
                try:
                    if begin is not None:
                        with open(fpath, 'rb') as fh:
                            for (r, c) in cells:
                                off = begin + (r * ncol + c) * xsz
                                fh.seek(off)
                                bts = fh.read(xsz)
                                if int.from_bytes(bts, 'big', signed=True) != vals[(r, c)]:
                                    raw_bad.append((off, bts.hex(), vals[(r, c)]))
                    os.unlink(fpath)
                except OSError as ex:
                    raw_bad.append(('io', str(ex), 0))
                bump('nbwide:%s:fmt%d' % (direction, fmtw))
                distinct.add('nbwide %d %d %s' % (rows, ncol, direction))
                if rc != 0 or begin is None or bad_cells or raw_bad:
                    prop_fail.append(('C18:nbwide:wrong-or-missing', 'interleaving nonblocking column requests (%s) on rows %d bytes apart: rc=%s, elements %s ; raw bytes %s'
                                      % (direction, rstride * ncol * xsz, rc, bad_cells[:3], raw_bad[:3]), desc))
        # ---------------- stream aggwide: the same far-apart accesses through the intra-node aggregation path (2 ranks, one
        # aggregator): the aggregator sorts (offset, length, buffer) triples of both ranks with its own quicksort and merges them;
        # ranks write rows 2 GiB / 4 GiB apart in ONE collective call (blocking put_vara_all, and iput + wait_all)
        n_agg = 0
        for (fmtw, rows, ncol, far, xt, mt, xsz) in ((5, 2**20 + 2**19 + 8, 1024, 2**20, 'int', 'int', 4), (5, 2**20 + 8, 1024, 2**19, 'int', 'int', 4),
                                                      (2, 2**21 + 8, 256, 2**21, 'int', 'int', 4)):
            for kind in ('put', 'iput'):
                name = 'c18agg_%d.nc' % n_agg
                L = ['1 * create %s %d clobber nc_num_aggrs_per_node=1' % (name, fmtw), '2 * def_dim r %d' % rows, '3 * def_dim c %d' % ncol,
                     '4 * def_var pad int 1 c', '5 * def_var v %s 2 r c' % xt, '6 * enddef', '7 * inq_varoffset v']
                # rank 0: two near rows (0 and 1); rank 1: the far row and its neighbour -> pieces >= 2^31 bytes apart in one call
                rowsets = {0: [0, 1], 1: [far, far + 1]}
                vals, cells = {}, []
                val = 1
                st = 8
                for j in range(2):
                    for r in (0, 1):
                        row = rowsets[r][j]
                        vv = []
                        for c in range(4):
                            vals[(row, c)] = val; cells.append((row, c)); vv.append(val); val += 1
                        if kind == 'put':
                            L.append('%d %d put vara c v %s c %d,0 1,4 - - : %s' % (st, r, mt, row, ' '.join(map(str, vv))))
                        else:
                            L.append('%d %d iput q%d_%d vara v %s c %d,0 1,4 - - : %s' % (st, r, j, r, mt, row, ' '.join(map(str, vv))))
                    st += 1
                if kind == 'iput':
                    L.append('%d * waitall c ALL' % st); st += 1
                L.append('%d * sync' % st); st += 1
                L.append('%d * barrier' % st); st += 1
                g0 = st
                for (r, c) in cells:
                    L.append('%d * get var1 c v %s c %d,%d - - -' % (st, mt, r, c)); st += 1
                L.append('%d * close' % st)
                script = os.path.join(wd, 'agg_%d.txt' % os.getpid())
                open(script, 'w').write('\n'.join(L) + '\n')
                rc, impl, err = apicmp.run_impl(bexe, script, 2, wd, timeout=300, alarm=120)
                n_agg += 1
                desc = dict(stream='aggwide', script='\n'.join(L), rc=rc, out=[l[:200] for l in impl[-12:]])
                begin, got = None, {}
                for l in impl:
                    t = l.split()
                    if t[0] == '7' and t[1] == '0':
                        begin = int(t[4])
                    if t[1] == '0' and t[2] == 'get' and g0 <= int(t[0]) < g0 + len(cells):
                        got[cells[int(t[0]) - g0]] = t[-1] if t[3] == '0' else 'err' + t[3]
                bad_cells = [(c, got.get(c), vals[c]) for c in cells if got.get(c) != str(vals[c])]
                raw_bad = []
                fpath = os.path.join(wd, name)
                try:
                    if begin is not None:
                        with open(fpath, 'rb') as fh:
                            for (r, c) in cells:
                                off = begin + (r * ncol + c) * xsz
                                fh.seek(off)
                                bts = fh.read(xsz)
                                if int.from_bytes(bts, 'big', signed=True) != vals[(r, c)]:
                                    raw_bad.append((off, bts.hex(), vals[(r, c)]))
                    os.unlink(fpath)
                except OSError as ex:
                    raw_bad.append(('io', str(ex), 0))
                bump('aggwide:%s:fmt%d' % (kind, fmtw))
                distinct.add('aggwide %d %d %s' % (rows, far, kind))
                if rc != 0 or begin is None or bad_cells or raw_bad:
                    prop_fail.append(('C18:aggwide:wrong-or-missing', 'collective %s of two ranks on rows %d bytes apart with intra-node aggregation: rc=%s, elements %s ; raw bytes %s'
                                      % (kind, far * ncol * xsz, rc, bad_cells[:3], raw_bad[:3]), desc))
        n_nbw += n_agg
        n_elem += n_blk + n_nbw
        log('[S4] blocks: %d multi-row requests across 2^31 / 2^32 inner dimensions, %d interleaved nonblocking request sets on rows >= 2 GiB apart in %.1fs' % (n_blk, n_nbw, t3.s()))
        V.cov['evaluations'] = len(dlines) + n_def + n_elem
        V.cov['distinct_nontrivial'] = len(distinct)
        V.cov['traces_validated_against_impl'] = len(dlines) + n_def + n_elem - len(tie_diffs)
        V.cov['definitions'] = n_def
        V.cov['sparse_elements'] = n_elem
        V.cov['rule'] = ('dim: lengths -1, 0, 1, 2^31-2..2^31+1, 2^32-1..2^32+1, 2^62, 2^63-1, negative extremes and seeded values x 3 formats; '
                         'def: per-variable sizes from {just below, at, just above} 2^31-4 / 2^32-4 / 2^63-4 bytes (padded and unpadded forms, several element types), fixed and record, '
                         'every ordered pair and single per format, seeded triples/quadruples (thorough: half of all triples), header/record alignments 4/512/4096/2^30/2^31 to move begins across 2^31; '
                         'sparse: elements whose byte offset is 2^31-8..2^31+1, 2^32-4..2^32+5, 2^33+7, first/last element, the variable after a > 4 GiB variable, records 0..5 of a 2^30-byte record. '
                         'non-trivial = a definition that is rejected or contains a variable at/above a threshold size; every dim length; every sparse element; distinct = distinct lines')
        V.cov['distribution'] = dist
        V.cov['samples'] = [dlines[5], clines[0], clines[len(clines) // 2], clines[-1]] + wl[:1] + \
                           ['theorem accept_iff_rules (fmt l vars) (hf : fmt = 1 ∨ fmt = 2 ∨ fmt = 5) (hw : ∀ v ∈ vars, WF v) (h4 : l.beginVar % 4 = 0) : ((enddef fmt l vars).1 = NC_NOERR ↔ SizeRules fmt vars ∧ BeginRule fmt l vars) ∧ ((enddef fmt l vars).1 = NC_NOERR ∨ (enddef fmt l vars).1 = NC_EVARSIZE)']
        # ---- S5
        new_fail = 0
        for sig, what, rep in prop_fail:
            if V.failing_input(sig, what, dict(rep, harness='harness/c18_size.c + lean/Driver/C18.lean'), tag='in%d' % new_fail):
                new_fail += 1
                if new_fail >= 5:
                    break
        if new_fail == 0:
            if tie_diffs:
                V.broken_tie('correspondence streams dim/def/sparse: model and implementation differ', tie_diffs[:10])
            if proof_broken:
                V.broken_tie('proof obligations no longer check',
                             dict(failed_theorems=sorted(failed_thms), axiom_audit=bad[:10], forbidden=forb[:10],
                                  lake_tail=out[-1500:] if not ok else ''))
        return V.finish()
    finally:
        cleanup(wd)


if __name__ == '__main__':
    tier, seed, replay = args(sys.argv[1:])
    sys.exit(run_check(tier, seed))
