"""
apigen.py -- type-directed generator of API-level scripts for harness/apirun.c and
lean/Driver/Api.lean (the abstract specification).  A *program* is generated at the logical
level (schema, logical writes/reads) and then decomposed over `nprocs` ranks.

All randomness comes from the SplitMix64 passed in.  Values are small integers that are exactly
representable in every external/memory type used, so numeric conversion (C09) never interferes.
"""
from common import SplitMix64

XT_ALL = ['byte', 'char', 'short', 'int', 'float', 'double', 'ubyte', 'ushort', 'uint', 'int64', 'uint64']
XT_CLASSIC = XT_ALL[:6]
# memory types that can hold 0..100 for each external type
MT_FOR = {
    'byte': ['schar', 'short', 'int', 'float', 'double', 'longlong', 'long', 'uchar', 'ushort', 'uint', 'ulonglong'],
    'char': ['text'],
}
for _x in XT_ALL:
    MT_FOR.setdefault(_x, ['schar', 'uchar', 'short', 'ushort', 'int', 'uint', 'long', 'float', 'double', 'longlong', 'ulonglong'])
NATIVE = {'byte': 'schar', 'char': 'text', 'short': 'short', 'int': 'int', 'float': 'float', 'double': 'double',
          'ubyte': 'uchar', 'ushort': 'ushort', 'uint': 'uint', 'int64': 'longlong', 'uint64': 'ulonglong'}


class Var:
    def __init__(self, name, xt, dims, isrec):
        self.name, self.xt, self.dims, self.isrec = name, xt, dims, isrec   # dims: list of (name, len) ; len 0 = unlimited


class Prog:
    """script builder"""
    def __init__(self, path, nprocs, step0=0):
        self.lines, self.step, self.nprocs, self.path = [], step0, nprocs, path
        self.tags = set()

    def all(self, text):
        self.step += 1
        self.lines.append('%d * %s' % (self.step, text))
        return self.step

    def per_rank(self, texts):
        """texts: dict rank -> text (ranks missing execute nothing at this step)"""
        self.step += 1
        for r in sorted(texts):
            self.lines.append('%d %d %s' % (self.step, r, texts[r]))
        return self.step

    def text(self):
        return '\n'.join(self.lines) + '\n'


LAYOUTS_DERIVED = ['v2', 'v3', 'r2', 'r3', 'h2', 'x2', 'b3', 'H2', 's2', 'S2', 'n2', 'd2', 'k2', 'k3', 'x1', 's1', 'n1', 'U1', 'I1', 'U1']


def pick_layout(rng, plain=3):
    """buffer layout of one request: mostly the plain ones, otherwise one of the derived-type constructors of harness/apirun.c"""
    if rng.chance(plain, plain + 2):
        return rng.choice(['c', 'c', 't'])
    return rng.choice(LAYOUTS_DERIVED)


def lst(xs):
    return ','.join(str(x) for x in xs) if xs else '-'


def gen_schema(rng, fmt, maxdims=3, maxvars=4, allow_rec=True, maxlen=5):
    ndims = rng.range(1, maxdims)
    dims = [('d%d' % i, rng.range(1, maxlen)) for i in range(ndims)]
    hasrec = allow_rec and rng.chance(2, 3)
    types = XT_ALL if fmt == 5 else XT_CLASSIC
    vars_ = []
    nv = rng.range(1, maxvars)
    for i in range(nv):
        xt = rng.choice(types)
        if xt == 'char' and rng.chance(2, 3):
            xt = rng.choice(types)
        k = rng.range(0, min(3, ndims))
        vd = [rng.choice(dims) for _ in range(k)]
        isrec = hasrec and rng.chance(1, 2)
        if isrec:
            vd = [('t', 0)] + vd[:2]
        vars_.append(Var('v%d' % i, xt, vd, isrec))
    return dims, hasrec, vars_


def emit_define(p, dims, hasrec, vars_, rng, fill='none'):
    if hasrec:
        p.all('def_dim t 0')
    for n, l in dims:
        p.all('def_dim %s %d' % (n, l))
    if fill == 'before':
        p.all('set_fill 1')
    for v in vars_:
        p.all('def_var %s %s %d %s' % (v.name, v.xt, len(v.dims), ' '.join(d[0] for d in v.dims)))
    if fill == 'after':
        p.all('set_fill 1')


def shape_of(v, numrecs):
    return [(numrecs if l == 0 else l) for _, l in v.dims]


def rand_region(rng, shape, allow_stride=True, stride_num=1, stride_den=3):
    """random legal (start,count,stride) inside shape (shape entries >= 1)"""
    st, ct, sd = [], [], []
    for n in shape:
        s = rng.range(0, n - 1)
        maxc = n - s
        k = rng.range(1, 3) if allow_stride and rng.chance(stride_num, stride_den) else 1
        c = rng.range(1, max(1, (maxc + k - 1) // k))
        st.append(s); ct.append(c); sd.append(k)
    return st, ct, sd


def split_region(rng, st, ct, sd, nparts):
    """partition a region among nparts along one dimension (some parts may be empty)"""
    if not st:
        # scalar: rank 0 (or a random rank) owns it
        owner = rng.below(nparts)
        return [((st, ct, sd) if r == owner else None) for r in range(nparts)]
    d = rng.below(len(st))
    n = ct[d]
    cuts = sorted(rng.range(0, n) for _ in range(nparts - 1))
    bounds = [0] + cuts + [n]
    parts = []
    for r in range(nparts):
        a, b = bounds[r], bounds[r + 1]
        if b <= a:
            parts.append(None)
            continue
        s2, c2 = list(st), list(ct)
        s2[d] = st[d] + a * sd[d]
        c2[d] = b - a
        parts.append((s2, c2, list(sd)))
    order = rng.shuffle(list(range(nparts)))
    return [parts[order[r]] for r in range(nparts)]


def nelems(ct):
    n = 1
    for c in ct:
        n *= c
    return n


class ValueSource:
    def __init__(self, rng):
        self.rng, self.c = rng, 0

    def take(self, n):
        out = []
        for _ in range(n):
            self.c = (self.c % 100) + 1
            out.append(self.c)
        return out


def rw_text(kind, form, coll, v, mt, lay, st, ct, sd, imap, vals):
    """kind: put/get ; returns op text"""
    s = '%s %s %s %s %s %s %s %s %s %s' % (kind, form, 'c' if coll else 'i', v.name, mt, lay, lst(st), lst(ct),
                                           lst(sd) if form in ('vars', 'varm') else '-', lst(imap) if form == 'varm' else '-')
    if vals is not None:
        s += ' : ' + ' '.join(str(x) for x in vals)
    return s


def nb_text(kind, req, form, v, mt, lay, st, ct, sd, imap, vals):
    s = '%s %s %s %s %s %s %s %s %s %s' % (kind, req, form, v.name, mt, lay, lst(st), lst(ct),
                                           lst(sd) if form in ('vars', 'varm') else '-', lst(imap) if form == 'varm' else '-')
    if vals is not None:
        s += ' : ' + ' '.join(str(x) for x in vals)
    return s


def choose_form(rng, st, ct, sd, family=None):
    """pick an API form able to express the region; family 'varn' / 'sub' restricts the choice so that all
    ranks of one collective step call the same kind of API (varn_all is built on wait_all and must not be
    mixed with vara_all etc. in one collective step)"""
    strided = any(k != 1 for k in sd)
    if family == 'varn':
        return 'varn' if (st and not strided) else None
    if family == 'sub':
        f = choose_form(rng, st, ct, sd)
        return 'vara' if f == 'varn' else f
    if not st:
        return rng.choice(['var1', 'vara', 'var'])
    if strided:
        return rng.choice(['vars', 'varm', 'vars'])
    if all(c == 1 for c in ct) and rng.chance(1, 2):
        return 'var1'
    return rng.choice(['vara', 'vara', 'vars', 'varm', 'varn'])


def zero_part(rng, st, ct):
    """a zero-length participation request for a rank with nothing to do"""
    if not st:
        return None
    c0 = list(ct)
    c0[rng.below(len(c0))] = 0
    return c0


def emit_put(p, rng, v, mt, coll, parts, cellvals, tagset, use_imap=True):
    """one logical write split over the ranks.  parts[r] = (st,ct,sd) or None.  `cellvals` maps every cell
    of the logical region to its value, so the data written does not depend on the decomposition."""
    texts = {}
    family = None
    swapfocus = bool(p.lines) and 'nc_in_place_swap=enable' in p.lines[0]
    if swapfocus and v.xt != 'char' and rng.chance(2, 3):
        mt = NATIVE[v.xt]          # no conversion: the in-place byte-swap shortcut is only considered then
    if coll:
        can_varn = v.dims and all(pt is None or all(k == 1 for k in pt[2]) for pt in parts)
        family = 'varn' if (can_varn and rng.chance(1, 4)) else 'sub'
    for r, part in enumerate(parts):
        if part is None:
            if coll and family == 'varn':
                st0 = [0] * len(v.dims)
                c0 = [0] + [1] * (len(v.dims) - 1)
                texts[r] = 'put varn c %s %s c %s %s - - : ' % (v.name, mt, lst(st0), lst(c0))
                tagset.add('zero-len')
                continue
            if coll:
                # zero-length participation: count with a zero
                if v.dims:
                    st0 = [0] * len(v.dims)
                    c0 = [0] + [1] * (len(v.dims) - 1)
                    texts[r] = rw_text('put', 'vara', True, v, mt, 'c', st0, c0, None, None, [])
                    tagset.add('zero-len')
                else:
                    # scalar variables cannot express a zero-length request: write the same value again is not
                    # allowed (double write); use a get instead? keep it simple: a var1 put by the owner only is
                    # impossible collectively, so every rank writes the same element with the same value
                    texts[r] = None
            continue
        st, ct, sd = part
        form = choose_form(rng, st, ct, sd, family)
        n = nelems(ct)
        vals = [cellvals[c] for c in region_cells(st, ct, sd)]
        lay = pick_layout(rng, plain=(1 if swapfocus else 3))
        imap = None
        if form == 'varm':
            if use_imap and rng.chance(1, 2) and len(ct) >= 2:
                # transposed memory layout: imap of the transposed array
                imap = [1] * len(ct)
                acc = 1
                for d in range(len(ct)):
                    imap[d] = acc
                    acc *= ct[d]
                lay = rng.choice(['c', 't'])
                tagset.add('imap-transpose')
            else:
                imap = None
                lay = rng.choice(['c', 't'])
        if form == 'varn':
            # split the part into row segments along the first dimension
            segs_s, segs_c = [], []
            for k in range(ct[0]):
                s2 = list(st); s2[0] = st[0] + k
                c2 = list(ct); c2[0] = 1
                segs_s.append(s2); segs_c.append(c2)
            order = rng.shuffle(list(range(len(segs_s))))
            per = nelems(ct) // ct[0]
            vv = []
            for o in order:
                vv.extend(vals[o * per:(o + 1) * per])
            lay = rng.choice(['c', 'v2'])
            texts[r] = 'put varn %s %s %s %s %s %s - - : %s' % ('c' if coll else 'i', v.name, mt, lay,
                                                               '|'.join(lst(segs_s[o]) for o in order),
                                                               '|'.join(lst(segs_c[o]) for o in order),
                                                               ' '.join(str(x) for x in vv))
            tagset.add('varn')
            continue
        if form == 'var1':
            texts[r] = rw_text('put', 'var1', coll, v, mt, lay if lay in ('c', 't') else 'c', st, None, None, None, vals)
        elif form == 'var':
            texts[r] = rw_text('put', 'var', coll, v, mt, lay, None, None, None, None, vals)
        else:
            texts[r] = rw_text('put', form, coll, v, mt, lay, st, ct, sd, imap, vals)
        tagset.add(form)
        if lay[0] in 'hxbHsSndkUI':
            tagset.add('buftype-' + lay[0])
        if lay.startswith('v'):
            tagset.add('buftype-gaps')
        if lay.startswith('r'):
            tagset.add('buftype-resized')
        if any(k != 1 for k in sd):
            tagset.add('strided')
    texts = {r: t for r, t in texts.items() if t}
    if texts:
        p.per_rank(texts)
        p.all('barrier')


def region_cells(st, ct, sd):
    cells = [()]
    for d in range(len(st)):
        cells = [c + (st[d] + k * sd[d],) for c in cells for k in range(ct[d])]
    return cells


def emit_reads(p, rng, v, numrecs, coll, nprocs, tagset, written=None):
    shape = shape_of(v, numrecs)
    if any(n == 0 for n in shape):
        return
    texts = {}
    family = None
    if coll:
        family = 'varn' if (v.dims and rng.chance(1, 5)) else 'sub'
    wr = (written or {}).get(v.name, set())
    for r in range(nprocs):
        if not coll and rng.chance(1, 3):
            continue
        st, ct, sd = rand_region(rng, shape, allow_stride=(family != 'varn'))
        form = choose_form(rng, st, ct, sd, family)
        allw = all(c in wr for c in region_cells(st, ct, sd))
        # unwritten cells hold fill values or unspecified bytes: read them in the native type only
        # (conversion of those is C09's business, not this stream's)
        mt = rng.choice(MT_FOR[v.xt]) if allw else NATIVE[v.xt]
        lay = pick_layout(rng, plain=2)
        if family != 'varn' and rng.chance(1, 6):
            mt = NATIVE[v.xt]
            texts[r] = rw_text('get', 'var', coll, v, mt, rng.choice(['c', 't']), None, None, None, None, None)
            tagset.add('get-var')
            continue
        if form == 'var':
            form = 'vara'
        if form == 'varn':
            segs_s, segs_c = [], []
            for k in range(ct[0] if ct else 1):
                s2 = list(st); c2 = list(ct)
                if st:
                    s2[0] = st[0] + k * sd[0]; c2[0] = 1
                segs_s.append(s2); segs_c.append(c2)
            if any(k != 1 for k in sd[1:]):
                form = 'vars'
            else:
                texts[r] = 'get varn %s %s %s %s %s %s - -' % ('c' if coll else 'i', v.name, mt, rng.choice(['c', 'v2']),
                                                             '|'.join(lst(s) for s in segs_s), '|'.join(lst(c) for c in segs_c))
                tagset.add('get-varn')
                continue
        if form == 'var1':
            texts[r] = rw_text('get', 'var1', coll, v, mt, rng.choice(['c', 't']), st, None, None, None, None)
        elif form == 'varm':
            imap = None
            if len(ct) >= 2 and rng.chance(1, 2):
                imap, acc = [1] * len(ct), 1
                for d in range(len(ct)):
                    imap[d] = acc; acc *= ct[d]
                tagset.add('get-imap')
            texts[r] = rw_text('get', 'varm', coll, v, mt, rng.choice(['c', 't']), st, ct, sd, imap, None)
        else:
            texts[r] = rw_text('get', form, coll, v, mt, lay, st, ct, sd, None, None)
    if texts:
        p.per_rank(texts)
        # ranks run freely between collectives: without this barrier a rank that has nothing to read could
        # already be writing the next phase while the others are still reading this one
        p.all('barrier')


def gen_rw_program(rng, path, nprocs, step0=0, hints='-', fill=None, reopen=True, fmt=None, rd=None, enddef='enddef', dump=True, norewrite=False, big=False):
    """C01-style program: define, several write phases (collective and independent, every form, split over
    the ranks), sync, read phases (every form), close/reopen, read again.
    `rng` drives the LOGICAL program (schema, regions, values, modes); `rd` (default: rng) drives the
    decomposition over the ranks and the per-rank API form / buffer layout / read choices, so that the same
    logical program can be replayed under another process count or decomposition (C10)."""
    rd = rd or rng
    fmt = fmt or rng.choice([1, 2, 5])
    p = Prog(path, nprocs, step0)
    p.all('create %s %d clobber %s' % (path, fmt, hints))
    dims, hasrec, vars_ = gen_schema(rng, fmt, maxlen=(9 if big else 5))
    fill = fill if fill is not None else rng.choice(['none', 'none', 'before', 'after'])
    emit_define(p, dims, hasrec, vars_, rng, fill)
    if rng.chance(1, 3):
        p.all('put_att - title char 5 68656c6c6f')
    p.all(enddef)
    vs = ValueSource(rng)
    numrecs = 0
    written = {}     # var name -> set of index tuples written
    nphase = rng.range(2, 4)
    for ph in range(nphase):
        coll = rng.chance(3, 4) if big else rng.chance(1, 2)
        if not coll:
            p.all('begin_indep')
        phase_cells = {}
        for _ in range(rng.range(1, 3)):
            v = rng.choice(vars_)
            if v.isrec:
                nr = rng.range(1, 3) + (numrecs if rng.chance(1, 2) else 0)
                shape = shape_of(v, max(nr, 1))
            else:
                shape = shape_of(v, numrecs)
            st, ct, sd = rand_region(rng, shape, stride_num=(2 if big else 1))
            mt = rng.choice(MT_FOR[v.xt])
            cells = region_cells(st, ct, sd)
            cellvals = dict(zip(cells, vs.take(len(cells))))
            if not v.dims and coll:
                continue
            if norewrite:
                # burst-buffer limitation (documented): no element written twice between two flushes
                if phase_cells.setdefault(v.name, set()) & set(cells):
                    continue
                phase_cells[v.name].update(cells)
            parts = split_region(rd, st, ct, sd, nprocs) if v.dims else [((st, ct, sd) if r == 0 else None) for r in range(nprocs)]
            emit_put(p, rd, v, mt, coll, parts, cellvals, p.tags)
            written.setdefault(v.name, set()).update(cells)
            if v.isrec:
                numrecs = max(numrecs, st[0] + (ct[0] - 1) * sd[0] + 1)
        if not coll:
            p.all('end_indep')
        p.all('sync'); p.all('barrier')   # MPI consistency: sync - barrier before another rank reads (ncmpi_sync has no barrier)
        if hasrec:
            p.all('inq_numrecs')
        # read phase
        rcoll = rd.chance(1, 2)
        if not rcoll:
            p.all('begin_indep')
        for _ in range(rd.range(1, 3)):
            v = rd.choice(vars_)
            emit_reads(p, rd, v, numrecs, rcoll, nprocs, p.tags, written)
        if not rcoll:
            p.all('end_indep')
    p.all('inq')
    for v in vars_:
        p.all('inq_var %s' % v.name)
    p.all('close')
    p.dump_from = p.step + 1
    if reopen:
        p.all('open %s r -' % path)
        if hasrec:
            p.all('inq_numrecs')
        for v in vars_:
            for _ in range(2):
                emit_reads(p, rd, v, numrecs, True, nprocs, p.tags, written)
        # logical dump (identical for every decomposition / configuration of the same logical program)
        p.dump_steps = []
        if dump:
            p.dump_steps.append(p.all('inq'))
            if hasrec:
                p.dump_steps.append(p.all('inq_numrecs'))
            p.dump_steps.append(p.all('get_att - title text'))
            for v in vars_:
                p.dump_steps.append(p.all('inq_var %s' % v.name))
                if all(n > 0 for n in shape_of(v, numrecs)):
                    p.dump_steps.append(p.all('get var c %s %s c - - - -' % (v.name, NATIVE[v.xt])))
        p.all('close')
    p.tags.add('fmt%d' % fmt)
    p.tags.add('fill-' + fill)
    if hasrec:
        p.tags.add('recvars')
    p.vars = vars_
    return p


def gen_nb_program(rng, path, nprocs, hints='-', fmt=None, bput=True):
    """nonblocking program: every rank posts a few write-disjoint iput/bput requests and non-overlapping iget
    requests, completes them with wait (full id list in posting order) or waitall by kind, then reads everything
    back.  Deliberately stays away from the request patterns with known library defects that belong to C02/C05/C13
    (reordered or partial id lists, overlapping igets in one wait, non-LIFO bput completion)."""
    fmt = fmt or rng.choice([1, 2, 5])
    p = Prog(path, nprocs)
    p.all('create %s %d clobber %s' % (path, fmt, hints))
    dims, hasrec, vars_ = gen_schema(rng, fmt, maxlen=6)
    vars_ = [v for v in vars_ if v.dims] or vars_
    emit_define(p, dims, hasrec, vars_, rng, 'none')
    p.all('enddef')
    vs = ValueSource(rng)
    numrecs = 0
    written = {}
    reqn = 0
    for rnd in range(rng.range(2, 3)):
        coll = rng.chance(1, 2)
        if not coll:
            p.all('begin_indep')
        if bput and rng.chance(1, 2):
            p.all('attach 4096')
            use_b = True
        else:
            use_b = False
        # one logical region per round, split over the ranks; each rank posts its part as 1-2 requests
        v = rng.choice([x for x in vars_ if x.dims] or vars_)
        if not v.dims:
            if use_b:
                p.all('detach')
            if not coll:
                p.all('end_indep')
            continue
        nr = (rng.range(1, 3) + (numrecs if rng.chance(1, 2) else 0)) if v.isrec else numrecs
        shape = shape_of(v, max(nr, 1))
        st, ct, sd = rand_region(rng, shape, allow_stride=True)
        cells = region_cells(st, ct, sd)
        cellvals = dict(zip(cells, vs.take(len(cells))))
        parts = split_region(rng, st, ct, sd, nprocs)
        names = {r: [] for r in range(nprocs)}
        texts = {}
        mt = rng.choice(MT_FOR[v.xt])
        for r, part in enumerate(parts):
            if part is None:
                continue
            pst, pct, psd = part
            vals = [cellvals[c] for c in region_cells(pst, pct, psd)]
            kind = 'bput' if (use_b and rng.chance(2, 3)) else 'iput'
            form = 'vars' if any(k != 1 for k in psd) else rng.choice(['vara', 'vars'])
            reqn += 1
            nm = 'q%d' % reqn
            names[r].append(nm)
            texts[r] = nb_text(kind, nm, form, v, mt, rng.choice(['c', 't', 'v2']) if kind == 'iput' else rng.choice(['c', 't']), pst, pct, psd, None, vals)
        if texts:
            p.per_rank(texts)
        p.all('inq_nreqs')
        # complete
        how = rng.choice(['list', 'all', 'put'])
        if how == 'list':
            p.per_rank({r: 'wait %s %d %s' % ('c' if coll else 'i', len(names[r]), ' '.join(names[r])) for r in range(nprocs)})
        else:
            p.all('waitall %s %s' % ('c' if coll else 'i', 'ALL' if how == 'all' else 'PUT'))
        p.all('inq_nreqs')
        written.setdefault(v.name, set()).update(cells)
        if v.isrec:
            numrecs = max(numrecs, st[0] + (ct[0] - 1) * sd[0] + 1)
        if use_b:
            p.all('inq_buf')
            p.all('detach')
        p.all('barrier')
        if not coll:
            p.all('end_indep')
        p.all('sync'); p.all('barrier')   # MPI consistency: sync - barrier before another rank reads (ncmpi_sync has no barrier)
        if hasrec:
            p.all('inq_numrecs')
        # nonblocking reads of what is written so far: each rank one iget on its own sub-region
        if all(n > 0 for n in shape_of(v, numrecs)):
            if not coll:
                p.all('begin_indep')
            texts, rn = {}, {}
            for r in range(nprocs):
                rst, rct, rsd = rand_region(rng, shape_of(v, numrecs))
                allw = all(c in written.get(v.name, set()) for c in region_cells(rst, rct, rsd))
                reqn += 1
                nm = 'g%d' % reqn
                rn[r] = nm
                texts[r] = nb_text('iget', nm, 'vars', v, (rng.choice(MT_FOR[v.xt]) if allw else NATIVE[v.xt]), rng.choice(['c', 't', 'v2']), rst, rct, rsd, None, None)
            p.per_rank(texts)
            p.per_rank({r: 'wait %s 1 %s' % ('c' if coll else 'i', rn[r]) for r in range(nprocs)})
            p.all('barrier')
            if not coll:
                p.all('end_indep')
    p.all('close')
    p.all('open %s r -' % path)
    if hasrec:
        p.all('inq_numrecs')
    for v in vars_:
        if all(n > 0 for n in shape_of(v, numrecs)):
            p.all('get var c %s %s c - - - -' % (v.name, NATIVE[v.xt]))
    p.all('close')
    p.tags.add('nonblocking')
    return p


XRANGE = {'byte': (-128, 127), 'ubyte': (0, 255), 'short': (-32768, 32767), 'ushort': (0, 65535), 'int': (-2**31, 2**31 - 1),
          'uint': (0, 2**32 - 1), 'int64': (-2**63, 2**63 - 1), 'uint64': (0, 2**64 - 1)}
MRANGE = {'schar': (-128, 127), 'uchar': (0, 255), 'short': (-32768, 32767), 'ushort': (0, 65535), 'int': (-2**31, 2**31 - 1),
          'uint': (0, 2**32 - 1), 'long': (-2**63, 2**63 - 1), 'longlong': (-2**63, 2**63 - 1), 'ulonglong': (0, 2**64 - 1)}


def gen_conv_program(rng, path, nprocs=1, fmt=None):
    """C09 at the API level: out-of-range elements at random positions of a request (NC_ERANGE, fill substituted, the
    other elements transferred), narrowing reads, text/numeric mismatch (NC_ECHAR), the CDF-1/2 byte/uchar exemption,
    user-defined fill values.  Values stay exactly representable; floating-point variables only hold small integers."""
    fmt = fmt or rng.choice([1, 2, 5])
    p = Prog(path, nprocs)
    p.all('create %s %d clobber -' % (path, fmt))
    n = 6
    p.all('def_dim x %d' % n)
    p.all('def_dim t 0')
    xts = ['byte', 'short', 'int', 'float', 'double', 'char'] + (['ubyte', 'ushort', 'uint', 'int64', 'uint64'] if fmt == 5 else [])
    vars_ = []
    for i, xt in enumerate(rng.shuffle(xts)[:rng.range(3, len(xts))]):
        v = Var('c%d' % i, xt, [('x', n)], False)
        vars_.append(v)
        p.all('def_var %s %s 1 x' % (v.name, xt))
        if xt in XRANGE and rng.chance(1, 2):
            lo, hi = XRANGE[xt]
            fv = rng.range(max(lo, -50), min(hi, 50))
            if rng.chance(1, 2):
                p.all('def_var_fill %s 0 %d' % (v.name, fv))
                p.tags.add('conv-userfill-def_var_fill')
            else:
                # user fill value given as an attribute only: the variable stays in no-fill mode (the default), the
                # value substituted for an out-of-range element is the attribute's all the same
                p.all('put_att %s _FillValue %s 1 %d' % (v.name, xt, fv))
                p.tags.add('conv-userfill-attribute-nofill')
    # attributes through the typed APIs: conversion memory type -> external type on put (unrepresentable element ->
    # default fill of the type, NC_ERANGE, attribute stored all the same), external -> memory type on get
    att_xts = [x for x in xts if x != 'char']
    natt = 0
    for _ in range(rng.range(3, 6)):
        xt = rng.choice(att_xts)
        mt = rng.choice(list(MRANGE) + ['float', 'double'])
        mlo, mhi = MRANGE.get(mt, (-2**24, 2**24))
        if xt in XRANGE:
            xlo, xhi = XRANGE[xt]
            cands = [xlo, xhi, xlo - 1, xhi + 1, 0, 1, -1, 100, xhi - 1, xlo + 1, 200, -200, 128, 255, 256, 70000, -70000]
        else:
            cands = [0, 1, -1, 100, -100, 1000, 16777216, -16777216, 65535, 255]
        if mt in ('float', 'double') or xt in ('float', 'double'):
            cands = [c for c in cands if abs(c) <= 2**24]
        cands = [c for c in cands if mlo <= c <= mhi] or [0]
        k = rng.range(1, 5)
        vals = [rng.choice(cands) for _ in range(k)]
        tgt = rng.choice(['-'] + [v.name for v in vars_])
        nm = 'a%d' % natt
        natt += 1
        p.all('put_attm %s %s %s %s %d %s' % (tgt, nm, xt, mt, k, ' '.join(map(str, vals))))
        p.all('get_attm %s %s %s' % (tgt, nm, NATIVE[xt]))
        for mt2 in rng.shuffle(list(MRANGE))[:3] + [rng.choice(['float', 'double', 'text'])]:
            p.all('get_attm %s %s %s' % (tgt, nm, mt2))
        p.tags.add('conv-att-%s' % ('float' if xt in ('float', 'double') else 'int'))
    if rng.chance(1, 2):
        p.all('put_att - txt char 3 616263')
        p.all('get_attm - txt %s' % rng.choice(['int', 'double', 'text']))            # NC_ECHAR unless text
    # record variables: a put that returns NC_ERANGE still transfers its other elements and, when it appends records,
    # extends the record dimension like any other put
    recvars = []
    for i, xt in enumerate(rng.shuffle([x for x in xts if x in XRANGE])[:2]):
        p.all('def_var r%d %s 2 t x' % (i, xt))
        recvars.append(('r%d' % i, xt))
    p.all('enddef')
    nrec = 0
    for (rn_, xt) in recvars:
        xlo, xhi = XRANGE[xt]
        for rep_ in range(rng.range(1, 2)):
            mt = rng.choice([m for m in MRANGE if MRANGE[m][0] <= xlo - 1 or MRANGE[m][1] >= xhi + 1] or list(MRANGE))
            mlo, mhi = MRANGE[mt]
            cands = [c for c in [xlo, xhi, xlo - 1, xhi + 1, 0, 1, 100, xhi + 1, xlo - 1] if mlo <= c <= mhi]
            vals = [rng.choice(cands) for _ in range(n)]
            rec = nrec + rng.range(0, 2)
            form = rng.choice(['vara', 'vars', 'indep'])
            if form == 'vara':
                p.all('put vara c %s %s %s %d,0 1,%d - - : %s' % (rn_, mt, rng.choice(['c', 't']), rec, n, ' '.join(map(str, vals))))
            elif form == 'vars':
                p.all('put vars c %s %s c %d,0 1,%d 1,2 - : %s' % (rn_, mt, rec, n // 2, ' '.join(map(str, vals[:n // 2]))))
            else:
                p.all('begin_indep')
                p.all('put vara i %s %s c %d,0 1,%d - - : %s' % (rn_, mt, rec, n, ' '.join(map(str, vals))))
                p.all('end_indep')
            nrec = max(nrec, rec + 1)
            p.all('inq_numrecs')
            p.all('get vara c %s %s c %d,0 1,%d - -' % (rn_, NATIVE[xt], rec, n))
            p.tags.add('conv-erange-appends-record')
    for v in vars_:
        if v.xt == 'char':
            p.all('put vara c %s text %s 0 %d - - : %s' % (v.name, rng.choice(['c', 't']), n, ' '.join(str(rng.range(65, 90)) for _ in range(n))))
            p.all('put vara c %s int c 0 2 - - : 1 2' % v.name)                 # NC_ECHAR
            p.all('get vara c %s short t 0 2 - -' % v.name)                       # NC_ECHAR
            p.all('get var c %s text c - - - -' % v.name)
            continue
        p.all('put vara c %s text c 0 2 - - : 65 66' % v.name)                    # NC_ECHAR on a numeric variable
        for rep in range(rng.range(2, 4)):
            mt = rng.choice([m for m in MRANGE])
            mlo, mhi = MRANGE[mt]
            vals = []
            for k in range(n):
                if v.xt in XRANGE:
                    xlo, xhi = XRANGE[v.xt]
                    cands = [xlo, xhi, xlo - 1, xhi + 1, 0, 1, -1, 100, xhi - 1, xlo + 1, 200, -200, 128, 255, 256, 70000, -70000]
                else:
                    cands = [0, 1, -1, 100, -100, 1000, 16777216, -16777216, 65535, 255]
                cands = [c for c in cands if mlo <= c <= mhi]
                vals.append(rng.choice(cands))
            st, cnt = 0, n          # whole variable: no unwritten (unspecified) cells are read through conversions
            p.all('put vara c %s %s %s %d %d - - : %s' % (v.name, mt, rng.choice(['c', 't', 'v2', 'r2']), st, cnt, ' '.join(map(str, vals[:cnt]))))
            p.all('get var c %s %s c - - - -' % (v.name, NATIVE[v.xt]))
            if rng.chance(1, 2):
                # the same through ONE varn call of 2-3 segments listed out of file order (each segment takes its slice of the
                # converted buffer: element sizes of memory and external type differ), blocking or nonblocking
                cuts = sorted(set([0, n] + [rng.range(1, n - 1) for _ in range(rng.range(1, 2))]))
                segs = [(cuts[i], cuts[i + 1] - cuts[i]) for i in range(len(cuts) - 1)]
                order = rng.shuffle(list(range(len(segs))))
                # FRESH values (seed C09-5: a varn put that drops its in-range elements on NC_ERANGE is invisible when it
                # re-writes what the vara put before it already stored): same candidate set, drawn again, and at least
                # one in-range element that differs from what is stored
                vals_prev = list(vals)
                vals = []
                for k in range(n):
                    if v.xt in XRANGE:
                        xlo, xhi = XRANGE[v.xt]
                        cands = [xlo, xhi, xlo - 1, xhi + 1, 0, 1, -1, 100, xhi - 1, xlo + 1, 200, -200, 128, 255, 256, 70000, -70000, 3, 7, 11]
                    else:
                        cands = [0, 1, -1, 100, -100, 1000, 16777216, -16777216, 65535, 255, 3, 7, 11]
                    cands = [c for c in cands if mlo <= c <= mhi]
                    vals.append(rng.choice(cands))
                for k in range(n):
                    if vals[k] == vals_prev[k] and mlo <= 5 <= mhi:
                        vals[k] = 5
                        break
                vv = []
                for o in order:
                    vv += vals[segs[o][0]:segs[o][0] + segs[o][1]]
                sst = '|'.join(str(segs[o][0]) for o in order); sct = '|'.join(str(segs[o][1]) for o in order)
                # (blocking only: where a nonblocking put reports NC_ERANGE - at post or at wait - is not part of the specification)
                p.all('put varn c %s %s %s %s %s - - : %s' % (v.name, mt, rng.choice(['c', 'v2']), sst, sct, ' '.join(map(str, vv))))
                p.all('get var c %s %s c - - - -' % (v.name, NATIVE[v.xt]))
                mt3 = rng.choice(list(MRANGE) + ['float', 'double'])
                p.all('get varn c %s %s %s %s %s - -' % (v.name, mt3, rng.choice(['c', 'v2']), sst, sct))
                p.tags.add('conv-varn')
            # narrowing / widening reads of what is stored now
            for mt2 in rng.shuffle(list(MRANGE))[:3] + ['float', 'double']:
                p.all('get vara c %s %s %s 0 %d - -' % (v.name, mt2, rng.choice(['c', 't', 'v2']), n))
    p.all('close')
    p.all('open %s r -' % path)
    for v in vars_:
        p.all('get var c %s %s c - - - -' % (v.name, NATIVE[v.xt]))
    p.all('inq')
    p.all('close')
    p.tags.add('conv-fmt%d' % fmt)
    return p


# ---------------------------------------------------------------------------------------------------------
# "mix" programs: several requests per rank and per call -- blocking varn calls with many segments listed in
# permuted order, and several nonblocking requests per rank whose file ranges interleave (strided lattices with
# three or more planes in a slow dimension), completed by one wait.  These reach the request sorting / merging /
# flattening code (ncmpio_wait.c: mgetput coalescing, vars_flatten, merge_requests) that a single request per
# call never enters.
def near_sorted_perm(rng, n):
    """half of the time a uniformly random permutation, otherwise the identity with a few adjacent transpositions"""
    idx = list(range(n))
    if n < 2:
        return idx
    if rng.chance(1, 2):
        return rng.shuffle(idx)
    for _ in range(rng.range(1, 2)):
        k = rng.below(n - 1)
        idx[k], idx[k + 1] = idx[k + 1], idx[k]
    return idx


def lattice_regions(rng, shape, prefer0=False):
    """K >= 2 pairwise disjoint regions of `shape` whose file ranges interleave: the residues of a stride-s lattice
    along one dimension (a slow one when there is a choice); the other dimensions get a common random box so that
    the regions have the same extent there (equal-sized pieces are what coalescing code confuses)"""
    nd = len(shape)
    cand = [d for d in range(nd) if shape[d] >= 4]
    if not cand:
        return None
    slow = [d for d in cand if d < nd - 1]
    d0 = rng.choice(slow) if (slow and rng.chance(3, 4)) else rng.choice(cand)
    if prefer0 and 0 in cand and rng.chance(3, 4):
        d0 = 0
    n = shape[d0]
    s = rng.range(2, 3) if n >= 7 else 2
    base = rng.range(0, max(0, n - (2 * s + 1))) if n > 2 * s + 1 and rng.chance(1, 2) else 0
    st, ct, sd = [], [], []
    for d in range(nd):
        if d == d0:
            st.append(None); ct.append(None); sd.append(s)
            continue
        a = rng.range(0, shape[d] - 1)
        k = rng.range(1, 2) if rng.chance(1, 3) else 1
        c = rng.range(1, max(1, (shape[d] - a + k - 1) // k))
        st.append(a); ct.append(c); sd.append(k)
    regs = []
    for res in range(s):
        a = base + res
        if a >= n:
            continue
        maxc = (n - a + s - 1) // s
        c = maxc if rng.chance(2, 3) else rng.range(1, maxc)
        r_st, r_ct = list(st), list(ct)
        r_st[d0], r_ct[d0] = a, c
        regs.append((r_st, r_ct, list(sd)))
    return regs if len(regs) >= 2 else None


def unit_segments(st, ct, sd):
    """decompose a (possibly strided) region into contiguous-in-index segments (count 1 along every strided dimension)"""
    segs = [([], [])]
    for d in range(len(st)):
        if sd[d] == 1:
            segs = [(s + [st[d]], c + [ct[d]]) for s, c in segs]
        else:
            segs = [(s + [st[d] + k * sd[d]], c + [1]) for s, c in segs for k in range(ct[d])]
    return segs


def gen_mix_program(rng, path, nprocs, fmt=None, hints='-', focus=None, cancel_rec=True):
    """focus='recvarn': record variables only, mostly varn calls that append records with the lattice along the record
    dimension (one segment per record, listed in any order) - the record count must be 1 + the highest record of ANY segment"""
    fmt = fmt or rng.choice([1, 2, 5])
    p = Prog(path, nprocs)
    p.all('create %s %d clobber %s' % (path, fmt, hints))
    nd = rng.range(1, 3)
    dims = [('d%d' % i, rng.range(5, 10) if i == 0 else rng.range(3, 8)) for i in range(nd)]
    if focus == 'burst':
        nd = rng.range(2, 3)
        dims = [('d%d' % i, rng.range(36, 48) if i == 0 else (rng.range(12, 16) if i == 1 else rng.range(2, 3))) for i in range(nd)]
    hasrec = rng.chance(1, 2) or focus == 'recvarn'
    types = XT_ALL if fmt == 5 else XT_CLASSIC
    types = [t for t in types if t != 'char']
    vars_ = []
    for i in range(rng.range(1, 3)):
        k = nd if focus == 'burst' else rng.range(1, nd)
        vd = dims[:k] if rng.chance(2, 3) else [rng.choice(dims) for _ in range(k)]
        isrec = hasrec and (rng.chance(1, 2) or focus == 'recvarn') and not (focus == 'burst' and i == 0)
        if isrec:
            vd = [('t', 0)] + vd[:2]
        vars_.append(Var('v%d' % i, rng.choice(types), vd, isrec))
    emit_define(p, dims, hasrec, vars_, rng, rng.choice(['none', 'none', 'before']))
    p.all('enddef')
    vs = ValueSource(rng)
    numrecs = 0
    written = {}
    reqn = 0
    zero_varn = lambda v, mt, kind: '%s varn c %s %s c %s %s - -%s' % (kind, v.name, mt, lst([0] * len(v.dims)), lst([0] + [1] * (len(v.dims) - 1)), ' : ' if kind == 'put' else '')
    for rnd in range(rng.range(2, 4)):
        v = rng.choice(vars_)
        nr = (numrecs + rng.range(2, 5) if focus == 'recvarn' else max(numrecs, rng.range(4, 8))) if v.isrec else numrecs
        shape = shape_of(v, max(nr, 1))
        regs = lattice_regions(rng, shape, prefer0=(focus == 'recvarn'))
        if regs is None:
            continue
        # optionally cut every region once more along another dimension: more, smaller requests
        if len(shape) >= 2 and rng.chance(1, 3):
            d = rng.choice([x for x in range(len(shape))])
            more = []
            for st, ct, sd in regs:
                if ct[d] >= 2:
                    h = rng.range(1, ct[d] - 1)
                    s1, c1 = list(st), list(ct); c1[d] = h
                    s2, c2 = list(st), list(ct); s2[d] = st[d] + h * sd[d]; c2[d] = ct[d] - h
                    more += [(s1, c1, list(sd)), (s2, c2, list(sd))]
                else:
                    more.append((st, ct, sd))
            regs = more
        owner = [rng.below(nprocs) for _ in regs]
        mt = rng.choice(MT_FOR[v.xt])
        mode = rng.choice(['varn', 'varn', 'nbvarn', 'iput', 'iput', 'bput', 'mixed'] + (['varn'] * 4 + ['nbvarn'] * 2 if focus == 'recvarn' else []))
        ncell = 1
        for n_ in shape:
            ncell *= n_
        if focus == 'burst' and ncell >= 130 * nprocs and not v.isrec:
            mode = 'burst'
        coll = rng.chance(1, 2)
        cellvals = {}
        for st, ct, sd in regs:
            for c in region_cells(st, ct, sd):
                cellvals[c] = vs.take(1)[0]
        if not coll:
            p.all('begin_indep')
        if mode == 'burst':
            # many tiny requests pending at once (130-300 per rank): the request queues, the per-request arrays and the
            # attached-buffer occupancy table must grow while requests are pending
            allc = region_cells([0] * len(shape), shape, [1] * len(shape))
            per = rng.range(130, min(300, len(allc) // nprocs))
            kind = rng.choice(['bput', 'bput', 'iput'])
            cellvals = {}
            if kind == 'bput':
                p.all('attach 65536')
            for q in range(per):
                texts = {}
                for r in range(nprocs):
                    c = allc[(q * nprocs + r) * 7919 % len(allc)] if False else allc[r * per + q]
                    cellvals[c] = vs.take(1)[0]
                    reqn += 1
                    texts[r] = nb_text(kind, 'q%d' % reqn, 'var1', v, mt, 'c', list(c), None, None, None, [cellvals[c]])
                p.per_rank(texts)
            p.all('inq_nreqs')
            p.all('waitall %s %s' % ('c' if coll else 'i', rng.choice(['ALL', 'PUT'])))
            p.all('inq_nreqs')
            if kind == 'bput':
                p.all('detach')
            regs, owner = [], []
            p.tags.add('mix-burst-%s' % kind)
        elif mode in ('varn', 'nbvarn'):
            texts = {}
            nbkind = rng.choice(['iput', 'bput']) if mode == 'nbvarn' else None
            if nbkind == 'bput':
                p.all('attach 65536')
            for r in range(nprocs):
                mine = [regs[i] for i in range(len(regs)) if owner[i] == r]
                segs = []
                for st, ct, sd in mine:
                    segs += unit_segments(st, ct, sd)
                if not segs:
                    if coll and not nbkind:
                        texts[r] = zero_varn(v, mt, 'put')
                    continue
                segs.sort()
                order = near_sorted_perm(rng, len(segs))
                vals = []
                for o in order:
                    s, c = segs[o]
                    vals += [cellvals[x] for x in region_cells(s, c, [1] * len(s))]
                if nbkind:
                    # the same list of segments as ONE nonblocking varn request (iput_varn / bput_varn), completed below
                    reqn += 1
                    texts[r] = '%s q%d varn %s %s %s %s %s - - : %s' % (nbkind, reqn, v.name, mt, 'c' if nbkind == 'bput' else rng.choice(['c', 'c', 'v2']),
                                                                      '|'.join(lst(segs[o][0]) for o in order), '|'.join(lst(segs[o][1]) for o in order),
                                                                      ' '.join(map(str, vals)))
                    p.tags.add('mix-nbvarn-%s' % nbkind)
                else:
                    texts[r] = 'put varn %s %s %s %s %s %s - - : %s' % ('c' if coll else 'i', v.name, mt, rng.choice(['c', 'c', 'v2']),
                                                                       '|'.join(lst(segs[o][0]) for o in order), '|'.join(lst(segs[o][1]) for o in order),
                                                                       ' '.join(map(str, vals)))
                    p.tags.add('mix-varn-%dseg' % min(len(segs), 8))
            p.per_rank(texts)
            if nbkind:
                p.all('inq_nreqs')
                p.all('waitall %s %s' % ('c' if coll else 'i', rng.choice(['ALL', 'PUT'])))
                p.all('inq_nreqs')
                if nbkind == 'bput':
                    p.all('detach')
        else:
            use_b = mode in ('bput', 'mixed')
            if use_b:
                p.all('attach 65536')
            names = {r: [] for r in range(nprocs)}
            maxq = max([owner.count(r) for r in range(nprocs)] + [0])
            for q in range(maxq):
                texts = {}
                for r in range(nprocs):
                    mine = [regs[i] for i in range(len(regs)) if owner[i] == r]
                    if q >= len(mine):
                        continue
                    st, ct, sd = mine[q]
                    vals = [cellvals[c] for c in region_cells(st, ct, sd)]
                    kind = 'bput' if (mode == 'bput' or (mode == 'mixed' and rng.chance(1, 2))) else 'iput'
                    reqn += 1
                    nm = 'q%d' % reqn
                    names[r].append(nm)
                    texts[r] = nb_text(kind, nm, 'vars', v, mt, pick_layout(rng) if kind == 'iput' else rng.choice(['c', 't']), st, ct, sd, None, vals)
                p.per_rank(texts)
            p.tags.add('mix-nbput-%dreq' % min(maxq, 6))
            p.all('inq_nreqs')
            if (cancel_rec or not v.isrec) and maxq >= 3 and rng.chance(2, 3):
                # cancel the OLDEST request of every rank that has at least three (the later ones must keep their places in the
                # queues), complete a strict subset of the rest by id, then everything that is left
                ctexts, wtexts = {}, {}
                for r in range(nprocs):
                    idx = [i for i in range(len(regs)) if owner[i] == r]
                    if len(idx) >= 3:
                        ctexts[r] = 'cancel 1 %s' % names[r][0]
                        for c in region_cells(*regs[idx[0]]):
                            cellvals.pop(c, None)
                        regs[idx[0]] = None
                        rest = names[r][1:]
                        sub = rest[1::2] or rest[:1]
                        wtexts[r] = 'wait %s %d %s' % ('c' if coll else 'i', len(sub), ' '.join(sub))
                    elif coll:
                        wtexts[r] = 'wait c 0 '
                keep = [i for i in range(len(regs)) if regs[i] is not None]
                regs, owner = [regs[i] for i in keep], [owner[i] for i in keep]
                p.per_rank(ctexts)
                p.all('inq_nreqs')
                p.per_rank(wtexts)
                p.all('inq_nreqs')
                p.all('waitall %s ALL' % ('c' if coll else 'i'))
                p.tags.add('mix-cancel-oldest-then-subset-wait')
            elif rng.chance(1, 2):
                p.per_rank({r: 'wait %s %d %s' % ('c' if coll else 'i', len(names[r]), ' '.join(names[r])) for r in range(nprocs) if coll or names[r]})
            else:
                p.all('waitall %s %s' % ('c' if coll else 'i', rng.choice(['ALL', 'PUT'])))
            p.all('inq_nreqs')
            if use_b:
                p.all('detach')
        # read-your-own-writes: before any sync/flush, some ranks read back a region they have just written (request complete),
        # through nonblocking gets completed with NC_GET_REQ_ALL / an id list / NC_REQ_ALL, in the same data mode
        if regs and rng.chance(1, 2):
            texts, rn = {}, {}
            for r in range(nprocs):
                mine = [regs[i] for i in range(len(regs)) if owner[i] == r]
                if mine and rng.chance(2, 3):
                    st_, ct_, sd_ = rng.choice(mine)
                    reqn += 1
                    rn[r] = 'g%d' % reqn
                    texts[r] = nb_text('iget', rn[r], 'vars', v, rng.choice(MT_FOR[v.xt]), rng.choice(['c', 't', 'v2']), st_, ct_, sd_, None, None)
            if texts:
                p.per_rank(texts)
                how = rng.choice(['GET', 'GET', 'ALL', 'list'])
                if how == 'list':
                    p.per_rank({r: 'wait %s %d %s' % ('c' if coll else 'i', 1 if r in rn else 0, rn.get(r, '')) for r in range(nprocs) if coll or r in rn})
                else:
                    p.all('waitall %s %s' % ('c' if coll else 'i', how))
                p.tags.add('mix-read-own-writes-before-sync')
        p.all('barrier')
        if not coll:
            p.all('end_indep')
        written.setdefault(v.name, set()).update(cellvals.keys())
        if v.isrec:
            numrecs = max([numrecs] + [c[0] + 1 for c in cellvals])
        p.all('sync'); p.all('barrier')   # MPI consistency: sync - barrier before another rank reads (ncmpi_sync has no barrier)
        if hasrec:
            p.all('inq_numrecs')
        # ---- read back: interleaving igets completed by one wait, or varn gets with permuted segments
        shape = shape_of(v, numrecs)
        if any(n == 0 for n in shape):
            continue
        rregs = lattice_regions(rng, shape) or [rand_region(rng, shape)]
        rowner = [rng.below(nprocs) for _ in rregs]
        rcoll = rng.chance(1, 2)
        rmode = rng.choice(['iget', 'iget', 'varn', 'ivarn'])
        wr = written.get(v.name, set())
        if not rcoll:
            p.all('begin_indep')
        if rmode in ('varn', 'ivarn'):
            texts = {}
            for r in range(nprocs):
                mine = [rregs[i] for i in range(len(rregs)) if rowner[i] == r]
                segs = []
                for st, ct, sd in mine:
                    segs += unit_segments(st, ct, sd)
                allw = all(c in wr for st, ct, sd in mine for c in region_cells(st, ct, sd))
                rmt = rng.choice(MT_FOR[v.xt]) if allw else NATIVE[v.xt]
                if not segs:
                    if rcoll and rmode == 'varn':
                        texts[r] = zero_varn(v, rmt, 'get')
                    continue
                segs.sort()
                order = near_sorted_perm(rng, len(segs))
                if rmode == 'ivarn':
                    reqn += 1
                    texts[r] = 'iget g%d varn %s %s %s %s %s - -' % (reqn, v.name, rmt, rng.choice(['c', 'c', 'v2']),
                                                                   '|'.join(lst(segs[o][0]) for o in order), '|'.join(lst(segs[o][1]) for o in order))
                    p.tags.add('mix-igetvarn')
                else:
                    texts[r] = 'get varn %s %s %s %s %s %s - -' % ('c' if rcoll else 'i', v.name, rmt, rng.choice(['c', 'c', 'v2']),
                                                                 '|'.join(lst(segs[o][0]) for o in order), '|'.join(lst(segs[o][1]) for o in order))
                    p.tags.add('mix-getvarn-%dseg' % min(len(segs), 8))
            p.per_rank(texts)
            if rmode == 'ivarn':
                p.all('waitall %s %s' % ('c' if rcoll else 'i', rng.choice(['ALL', 'GET'])))
        else:
            names = {r: [] for r in range(nprocs)}
            maxq = max([rowner.count(r) for r in range(nprocs)] + [0])
            for q in range(maxq):
                texts = {}
                for r in range(nprocs):
                    mine = [rregs[i] for i in range(len(rregs)) if rowner[i] == r]
                    if q >= len(mine):
                        continue
                    st, ct, sd = mine[q]
                    allw = all(c in wr for c in region_cells(st, ct, sd))
                    reqn += 1
                    nm = 'g%d' % reqn
                    names[r].append(nm)
                    texts[r] = nb_text('iget', nm, 'vars', v, (rng.choice(MT_FOR[v.xt]) if allw else NATIVE[v.xt]), pick_layout(rng), st, ct, sd, None, None)
                p.per_rank(texts)
            p.tags.add('mix-iget-%dreq' % min(maxq, 6))
            if rng.chance(1, 2):
                p.per_rank({r: 'wait %s %d %s' % ('c' if rcoll else 'i', len(names[r]), ' '.join(names[r])) for r in range(nprocs) if rcoll or names[r]})
            else:
                p.all('waitall %s %s' % ('c' if rcoll else 'i', rng.choice(['ALL', 'GET'])))
        p.all('barrier')
        if not rcoll:
            p.all('end_indep')
    p.all('close')
    p.all('open %s r -' % path)
    if hasrec:
        p.all('inq_numrecs')
    for v in vars_:
        if all(n > 0 for n in shape_of(v, numrecs)):
            p.all('get var c %s %s c - - - -' % (v.name, NATIVE[v.xt]))
    p.all('close')
    p.tags.add('mix')
    return p


# ---------------------------------------------------------------------------------------------------------
# "meta" programs: metadata operations in define and data mode interleaved with data access, redefinitions that
# add dimensions / variables / attributes, nonblocking requests that are cancelled, flush / sync_numrecs, a second
# session on the existing file that ends in close or in abort (which must drop the uncommitted definitions).
def gen_meta_program(rng, path, nprocs, fmt=None, hints='-', ohints=None, flush_each=False, cancel_rec=True):
    """flush_each: flush after every write (burst-buffer limitation: no element written twice between two flushes)"""
    fmt = fmt or rng.choice([1, 2, 5])
    ohints = hints if ohints is None else ohints
    p = Prog(path, nprocs)
    p.all('create %s %d clobber %s' % (path, fmt, hints))
    types = [t for t in (XT_ALL if fmt == 5 else XT_CLASSIC) if t != 'char']
    dims = [('d%d' % i, rng.range(2, 5)) for i in range(rng.range(1, 3))]
    hasrec = rng.chance(2, 3)
    vars_ = []
    for i in range(rng.range(1, 3)):
        vd = [rng.choice(dims) for _ in range(rng.range(1, 2))]
        isrec = hasrec and rng.chance(1, 2)
        if isrec:
            vd = [('t', 0)] + vd[:1]
        vars_.append(Var('v%d' % i, rng.choice(types), vd, isrec))
    fill = rng.choice(['none', 'none', 'before'])
    emit_define(p, dims, hasrec, vars_, rng, fill)
    atts = {}        # target ('-' or var object id) -> list of [name, xt, n]
    cnt = [0]

    def tname(t):
        return '-' if t == '-' else t.name

    def new_att(t, grow_of=None):
        nm = 'a%d' % cnt[0]; cnt[0] += 1
        if rng.chance(1, 4):
            n = rng.range(0, 6)
            p.all('put_att %s %s char %d %s' % (tname(t), nm, n, ''.join('%02x' % rng.range(97, 122) for _ in range(n)) or '-'))
            atts.setdefault(id(t), []).append([nm, 'char', n])
        else:
            xt = rng.choice(types)
            n = rng.range(1, 4)
            p.all('put_att %s %s %s %d %s' % (tname(t), nm, xt, n, ' '.join(str(rng.range(0, 100)) for _ in range(n))))
            atts.setdefault(id(t), []).append([nm, xt, n])

    targets = ['-'] + vars_
    for _ in range(rng.range(2, 5)):
        new_att(rng.choice(targets))
    p.all('enddef')
    vs = ValueSource(rng)
    numrecs = 0
    written = {}
    reqn = 0

    def write_some(coll=True):
        nonlocal numrecs
        v = rng.choice([x for x in vars_ if x.dims] or vars_)
        if not v.dims:
            return          # a scalar cannot be split over the ranks of a collective call
        nr = (rng.range(1, 3) + (numrecs if rng.chance(1, 2) else 0)) if v.isrec else numrecs
        shape = shape_of(v, max(nr, 1))
        st, ct, sd = rand_region(rng, shape)
        cells = region_cells(st, ct, sd)
        cellvals = dict(zip(cells, vs.take(len(cells))))
        parts = split_region(rng, st, ct, sd, nprocs)
        emit_put(p, rng, v, rng.choice(MT_FOR[v.xt]), coll, parts, cellvals, p.tags)
        written.setdefault(v.name, set()).update(cells)
        if v.isrec:
            numrecs = max(numrecs, st[0] + (ct[0] - 1) * sd[0] + 1)
        if flush_each:
            p.all('flush'); p.all('barrier')

    def data_mode_meta():
        k = rng.below(5)
        t = rng.choice(targets)
        al = atts.get(id(t), [])
        if k == 0 and al and rng.chance(1, 2):
            # overwrite with ANOTHER type / element count: permitted in data mode iff the padded value does not need more header
            # space (wider type with the same count must be refused with NC_ENOTINDEFINE, narrower type with more elements
            # that fit must succeed, 1-3 bytes growing inside the same padded size must succeed)
            a = rng.choice(al)
            XS = {'byte': 1, 'char': 1, 'short': 2, 'int': 4, 'float': 4, 'double': 8, 'ubyte': 1, 'ushort': 2, 'uint': 4, 'int64': 8, 'uint64': 8}
            xt2 = rng.choice([x for x in types if x != a[1]] or types)
            n2 = rng.choice([a[2], a[2], max(1, a[2] - 1), a[2] + 1, max(1, a[2] * XS[a[1]] // XS[xt2])])
            pad = lambda xt_, n_: (n_ * XS[xt_] + 3) // 4 * 4
            p.all('put_att %s %s %s %d %s' % (tname(t), a[0], xt2, n2, ' '.join(str(rng.range(0, 100)) for _ in range(n2))))
            if pad(xt2, n2) <= pad(a[1], a[2]):
                a[1], a[2] = xt2, n2
                p.tags.add('meta-datamode-put_att-retyped-fits')
            else:
                p.tags.add('meta-datamode-put_att-retyped-refused')
            p.all('get_att %s %s double' % (tname(t), a[0]))
        elif k == 0 and al:                                  # overwrite an attribute without growing it
            a = rng.choice(al)
            if a[1] == 'char':
                p.all('put_att %s %s char %d %s' % (tname(t), a[0], a[2], ''.join('%02x' % rng.range(65, 90) for _ in range(a[2])) or '-'))
            else:
                p.all('put_att %s %s %s %d %s' % (tname(t), a[0], a[1], a[2], ' '.join(str(rng.range(0, 100)) for _ in range(a[2]))))
            p.tags.add('meta-datamode-put_att')
        elif k == 1 and al:                                # rename an attribute to a name of the same length
            a = rng.choice(al)
            nn = 'b%d' % cnt[0]; cnt[0] += 1
            nn = (nn + 'xxxxxxxx')[:len(a[0])] if len(nn) <= len(a[0]) else None
            if nn and nn != a[0] and all(x[0] != nn for x in al):
                p.all('rename_att %s %s %s' % (tname(t), a[0], nn)); a[0] = nn
                p.tags.add('meta-datamode-rename_att')
        elif k == 2:                                       # rename a variable, same length
            v = rng.choice(vars_)
            nn = ('w%d' % cnt[0] + 'yyyyyyyy')[:len(v.name)]; cnt[0] += 1
            if len(nn) == len(v.name) and all(x.name != nn for x in vars_):
                p.all('rename_var %s %s' % (v.name, nn))
                if v.name in written:
                    written[nn] = written.pop(v.name)
                v.name = nn
                p.tags.add('meta-datamode-rename_var')
        elif k == 3 and hasrec:
            p.all('sync_numrecs')
        else:
            p.all(rng.choice(['flush', 'sync'])); p.all('barrier')

    def nb_with_cancel():
        nonlocal reqn, numrecs
        v = rng.choice([x for x in vars_ if x.dims] or vars_)
        if not v.dims:
            return
        shape = shape_of(v, max(numrecs, 1))
        st, ct, sd = rand_region(rng, shape)
        cells = region_cells(st, ct, sd)
        cellvals = dict(zip(cells, vs.take(len(cells))))
        parts = split_region(rng, st, ct, sd, nprocs)
        texts, names = {}, {}
        mt = rng.choice(MT_FOR[v.xt])
        for r, part in enumerate(parts):
            if part is None:
                continue
            reqn += 1
            names[r] = 'q%d' % reqn
            texts[r] = nb_text('iput', names[r], 'vars', v, mt, rng.choice(['c', 't']), part[0], part[1], part[2], None,
                               [cellvals[c] for c in region_cells(*part)])
        if not texts:
            return
        p.per_rank(texts)
        p.all('inq_nreqs')
        # cancel_rec=False (burst-buffer runs): a cancelled request on a record variable is not generated -- the burst-buffer
        # driver counts the records of a logged request when it is posted and ncmpi_inq_dimlen keeps reporting them after the
        # cancel until close (the file itself ends with the right count); C12 does not speak about cancelled requests
        cancel = rng.chance(1, 2) and (cancel_rec or not v.isrec)
        if cancel:
            p.per_rank({r: 'cancel 1 %s' % names[r] for r in names})
            p.tags.add('meta-cancel')
        p.all('inq_nreqs')
        p.all('waitall c ALL')
        if not cancel:
            written.setdefault(v.name, set()).update(cells)
            if v.isrec:
                numrecs = max(numrecs, st[0] + (ct[0] - 1) * sd[0] + 1)
        p.all('barrier')

    def read_all():
        if hasrec:
            p.all('inq_numrecs')
        for v in vars_:
            if all(n > 0 for n in shape_of(v, numrecs)):
                p.all('get var c %s %s c - - - -' % (v.name, NATIVE[v.xt]))

    def redefine():
        p.all('redef')
        nd = None
        if rng.chance(1, 2):
            nd = ('e%d' % cnt[0], rng.range(1, 4)); cnt[0] += 1
            p.all('def_dim %s %d' % nd)
            dims.append(nd)
        if rng.chance(2, 3):
            vd = [rng.choice(dims) for _ in range(rng.range(0, 2))]
            isrec = hasrec and rng.chance(1, 2)
            if isrec:
                vd = [('t', 0)] + vd[:1]
            if rng.chance(1, 2):
                p.all('set_fill %d' % rng.choice([1, 1, 0]))
            nv = Var('n%d' % cnt[0], rng.choice(types), vd, isrec); cnt[0] += 1
            p.all('def_var %s %s %d %s' % (nv.name, nv.xt, len(nv.dims), ' '.join(d[0] for d in nv.dims)))
            if rng.chance(1, 3):
                p.all('def_var_fill %s %d %s' % (nv.name, rng.range(0, 1), rng.choice(['-', str(rng.range(1, 50))])))
            vars_.append(nv)
            targets.append(nv)
            p.tags.add('meta-redef-add-var')
        for _ in range(rng.range(0, 2)):
            new_att(rng.choice(targets))
        t = rng.choice(targets)
        al = atts.get(id(t), [])
        if al and rng.chance(1, 2):
            a = rng.choice(al)
            p.all('del_att %s %s' % (tname(t), a[0])); al.remove(a)
            p.tags.add('meta-del_att')
        if al and rng.chance(1, 2):
            a = rng.choice(al)
            nn = 'longer_name_%d' % cnt[0]; cnt[0] += 1
            p.all('rename_att %s %s %s' % (tname(t), a[0], nn)); a[0] = nn
        if al and rng.chance(1, 2):
            a = rng.choice(al)
            t2 = rng.choice(targets)
            al2 = atts.setdefault(id(t2), [])
            if t2 is not t:
                p.all('copy_att %s %s %s' % (tname(t), a[0], tname(t2)))
                ex = [x for x in al2 if x[0] == a[0]]
                if ex:
                    ex[0][1], ex[0][2] = a[1], a[2]
                else:
                    al2.append(list(a))
                p.tags.add('meta-copy_att')
        # rename the OLDEST attribute of a list, then delete a younger one that is not the youngest, then look every
        # remaining one up by name and overwrite the youngest (the name table must renumber the ids behind the deleted one
        # wherever they sit in their buckets; with small hash tables the renamed id sits behind larger ids)
        if rng.chance(1, 2):
            tg = rng.choice(targets)
            alg = atts.setdefault(id(tg), [])
            while len(alg) < 4:
                new_att(tg)
            nn = 'rn%d' % cnt[0]; cnt[0] += 1
            p.all('rename_att %s %s %s' % (tname(tg), alg[0][0], nn)); alg[0][0] = nn
            victim = alg[rng.range(1, len(alg) - 2)]
            p.all('del_att %s %s' % (tname(tg), victim[0])); alg.remove(victim)
            for a in alg:
                p.all('get_att %s %s double' % (tname(tg), a[0]))
            a = alg[-1]
            if a[1] == 'char':
                p.all('put_att %s %s char %d %s' % (tname(tg), a[0], a[2], ''.join('%02x' % rng.range(65, 90) for _ in range(a[2])) or '-'))
            else:
                p.all('put_att %s %s %s %d %s' % (tname(tg), a[0], a[1], a[2], ' '.join(str(rng.range(0, 100)) for _ in range(a[2]))))
            p.all('inq_natts %s' % tname(tg))
            p.tags.add('meta-rename-oldest-then-delete-middle')
        # copy over an EXISTING attribute of another type and size (define mode: the value may grow): first create a
        # small text attribute of the same name at the destination, then copy the numeric one over it
        al = atts.get(id(t), [])
        num = [a for a in al if a[1] != 'char' and a[2] >= 1]
        if num and len(targets) > 1 and rng.chance(1, 2):
            a = rng.choice(num)
            t2 = rng.choice([x for x in targets if x is not t])
            al2 = atts.setdefault(id(t2), [])
            ex = [x for x in al2 if x[0] == a[0]]
            if not ex:
                n0 = rng.range(1, max(1, a[2]))
                p.all('put_att %s %s char %d %s' % (tname(t2), a[0], n0, ''.join('%02x' % rng.range(97, 122) for _ in range(n0))))
                al2.append([a[0], 'char', n0])
                ex = [al2[-1]]
            p.all('copy_att %s %s %s' % (tname(t), a[0], tname(t2)))
            ex[0][1], ex[0][2] = a[1], a[2]
            p.all('get_att %s %s double' % (tname(t2), a[0]))
            p.tags.add('meta-copy_att-over-existing-other-type')
        if rng.chance(1, 3):
            d = rng.choice(dims)
            nn = 'dim_%d' % cnt[0]; cnt[0] += 1
            p.all('rename_dim %s %s' % (d[0], nn))
            i = dims.index(d)
            dims[i] = (nn, d[1])
            for v in vars_:
                v.dims = [((nn, x[1]) if x[0] == d[0] else x) for x in v.dims]
            p.tags.add('meta-rename_dim')
        p.all(rng.choice(['enddef', 'enddef', 'enddef2 0 64 0 32']))

    def dump():
        p.all('inq')
        for t in targets:
            p.all('inq_natts %s' % tname(t))
            for a in atts.get(id(t), []):
                p.all('get_att %s %s double' % (tname(t), a[0]))
        for v in vars_:
            p.all('inq_var %s' % v.name)
        read_all()

    for rnd in range(rng.range(2, 3)):
        write_some()
        for _ in range(rng.range(1, 3)):
            data_mode_meta()
        if rng.chance(1, 2):
            nb_with_cancel()
        read_all()
        redefine()
        read_all()
        if rng.chance(1, 2):
            write_some()
    dump()
    p.all('close')
    # second session on the existing file
    p.all('open %s w %s' % (path, ohints))
    write_some()
    snapshot = ([Var(v.name, v.xt, list(v.dims), v.isrec) for v in vars_], list(dims), {k: [list(a) for a in al] for k, al in atts.items()}, list(targets), dict(written))
    nv0 = len(vars_)
    redefine()
    if rng.chance(1, 2):
        write_some()
        ending = 'close'
    else:
        ending = 'abort'
        p.tags.add('meta-abort-after-redef')
    p.all(ending)
    p.all('open %s r -' % path)
    if ending == 'abort':
        # definitions made after the last redef are gone; what was there before is intact.  Names: the generator's
        # bookkeeping objects were renamed in place, so rebuild the dump from the snapshot
        p.all('inq')
        for v in snapshot[0]:
            p.all('inq_var %s' % v.name)
            if all(n > 0 for n in shape_of(v, numrecs)):
                p.all('get var c %s %s c - - - -' % (v.name, NATIVE[v.xt]))
        if hasrec:
            p.all('inq_numrecs')
    else:
        dump()
    p.all('close')
    p.tags.add('meta')
    p.tags.add('meta-fmt%d' % fmt)
    return p


def gen_cancel_program(rng, path, nprocs=1, fmt=None, hints='-'):
    """directed: several multi-record nonblocking requests with DIFFERENT record counts pending on one variable (each is split
    into one sub-request per record), one in the middle or at the front is cancelled by id, a strict subset of the rest is
    completed by id, then the remainder -- the bookkeeping that maps each request to its sub-requests must survive the cancel.
    Done for puts, then for gets of what was written.  Every rank runs the same independent sequence on its own variable."""
    fmt = fmt or rng.choice([1, 2, 5])
    p = Prog(path, nprocs)
    p.all('create %s %d clobber %s' % (path, fmt, hints))
    p.all('def_dim t 0')
    p.all('def_dim x 3')
    for r in range(nprocs):
        p.all('def_var r%d int 2 t x' % r)
    p.all('enddef')
    p.all('begin_indep')
    vs = ValueSource(rng)
    nreq = rng.range(3, 5)
    cnts = [rng.choice([1, 1, 2, 3, 5, 8]) for _ in range(nreq)]
    if len(set(cnts)) == 1:
        cnts[1] += 3
    starts, a = [], 0
    for c in cnts:
        starts.append(a); a += c
    numrecs = 0
    for phase in ('iput', 'iput2', 'iget'):
        # (the get phase reads those of the same record ranges that exist by then)
        order = rng.shuffle(list(range(nreq)))                 # posting order differs from file order
        if phase == 'iget':
            order = [i for i in order if starts[i] + cnts[i] <= numrecs]
            if len(order) < 3:
                break
        names = ['%s%d_%d' % (phase[1], ['iput', 'iput2', 'iget'].index(phase), i) for i in range(nreq)]
        for i in order:
            if phase != 'iget':
                p.per_rank({r: nb_text('iput', names[i], 'vara', Var('r%d' % r, 'int', [('t', 0), ('x', 3)], True), 'int', 'c', [starts[i], 0], [cnts[i], 3], None, None, vs.take(cnts[i] * 3)) for r in range(nprocs)})
            else:
                p.per_rank({r: nb_text('iget', names[i], 'vara', Var('r%d' % r, 'int', [('t', 0), ('x', 3)], True), 'int', rng.choice(['c', 'v2']), [starts[i], 0], [cnts[i], 3], None, None, None) for r in range(nprocs)})
        p.all('inq_nreqs')
        victim = order[rng.range(0, len(order) - 2)]            # never the last posted one: later requests follow it in the queue
        if phase != 'iget':
            numrecs = max([numrecs] + [starts[i] + cnts[i] for i in order if i != victim])
        p.all('cancel 1 %s' % names[victim])
        rest = [names[i] for i in order if i != victim]
        sub = rest[1:] if len(rest) > 1 else rest
        sub = sub[:max(1, len(sub) - 1)] if len(sub) > 1 else sub
        p.all('inq_nreqs')
        p.all('wait i %d %s' % (len(sub), ' '.join(sub)))
        p.all('inq_nreqs')
        p.all('waitall i ALL')
        p.all('inq_nreqs')
        p.all('sync_numrecs')
        p.all('inq_numrecs')
        for r in range(nprocs):
            p.per_rank({r: 'get vara i r%d int c 0,0 %d,3 - -' % (r, numrecs)}) if phase == 'iput2' else None
    p.all('end_indep')
    p.all('close')
    p.tags.add('cancel-middle-multirecord')
    return p
