#!/usr/bin/env python3
"""C15 — out-of-range requests are rejected and writes stay inside their target (DESIGN.md §4 C15).

S3  lake build PnVerif.Props.C15 + c15drv, axiom audit, forbidden-construct grep
S4  stream `unit` : the real static check_start_count_stride() (reached by #include of the scratch
                    tree's generated var_getput.c) against Scs.checkSCS (64-bit arithmetic) and
                    Spec.InBounds on exhaustive small-scope tuples + random 3-D / large shapes
    stream `api`  : the public put/get API (var1/vara/vars/varm/varn/iput/bput/flexible, collective
                    and independent, CDF-1/2/5, strict and relaxed) on small files; the whole file is
                    dumped after every request and compared with the image the model allows
S5  decide
"""
import os, sys, re, struct, subprocess
sys.path.insert(0, os.path.dirname(os.path.abspath(__file__)))
from common import *

PROP = 'C15'
EINVALCOORDS, EEDGE, ESTRIDE, ENEGATIVECNT, EIOMISMATCH = -40, -57, -58, -210, -209
LEAN_FILES = ['PnVerif/Model/IntraNode.lean', 'PnVerif/Lemmas/IntraNodeLemmas.lean', 'PnVerif/Model/Scs.lean', 'PnVerif/Spec/InBounds.lean', 'PnVerif/Lemmas/ScsLemmas.lean',
              'PnVerif/Props/C15.lean', 'Driver/C15.lean']
XSZ = {1: 1, 3: 2, 4: 4, 5: 4, 6: 8, 7: 1, 8: 2, 9: 4, 10: 8, 11: 8}
SIG_F15 = 'check_EEDGE-stride-product-overflow-accepted'
SIG_VARN = 'varn-record-variable-subrequest-spanning-several-records'
SIG_ST1D = 'strided-access-to-1D-record-variable-uses-element-size-as-record-stride'


def local_findings(V):
    """finding lines proposed in findings/C15.txt count as known until the integrator merges them"""
    try:
        for line in open(os.path.join(VERIF, 'findings', 'C15.txt')):
            m = re.match(r'finding:\s+property=(\S+)\s+sig=(\S+)\s+(.*)$', line.strip())
            if m and m.group(1) == PROP and not any(k['sig'] == m.group(2) for k in V.known):
                V.known.append(dict(sig=m.group(2), text=m.group(3)))
    except OSError:
        pass


# ------------------------------------------------------------------------------------------
# unit stream
# ------------------------------------------------------------------------------------------
def kline(strict, classic, isrec, isread, api, shape, start, count, stride):
    def vec(tag, v):
        return tag + 'N' if v is None else tag + ' ' + ' '.join(str(x) for x in v)
    return 'K %d %d %d %d %d %d %s %s %s %s' % (strict, classic, isrec, isread, api, len(shape),
                                                 ' '.join(str(x) for x in shape), vec('S', start), vec('C', count), vec('T', stride))


def prod_ranges(ranges):
    out = [[]]
    for r in ranges:
        out = [o + [x] for o in out for x in r]
    return out


def gen_unit(rng, tier):
    lines = []
    cfgs = [(s, rec, rd) for s in (0, 1) for (rec, rd) in ((0, 0), (0, 1), (1, 0), (1, 1))]
    # 1-D exhaustive, n <= 3 (thorough: 4)
    n1 = 4 if tier == 'thorough' else 3
    for strict, isrec, isread in cfgs:
        for n in range(0 if isrec else 1, n1 + 1):
            vals = list(range(-1, n + 2))
            for classic in ((0, 1) if isrec else (0,)):
                for st in vals:
                    lines.append(kline(strict, classic, isrec, isread, 1, [n], [st], None, None))
                    for ct in vals:
                        lines.append(kline(strict, classic, isrec, isread, 2, [n], [st], [ct], None))
                        lines.append(kline(strict, classic, isrec, isread, 3, [n], [st], [ct], None))
                        for sd in vals:
                            lines.append(kline(strict, classic, isrec, isread, 3, [n], [st], [ct], [sd]))
                            lines.append(kline(strict, classic, isrec, isread, 4, [n], [st], [ct], [sd]))
                lines.append(kline(strict, classic, isrec, isread, 2, [n], [0], None, None))
                lines.append(kline(strict, classic, isrec, isread, 3, [n], None, [1], [1]))
                lines.append(kline(strict, classic, isrec, isread, 1, [n], None, None, None))
    # 2-D exhaustive: n <= 2 (thorough: 3), start/count/stride in [-1, n+1]
    n2 = 3 if tier == 'thorough' else 2
    for strict, isrec, isread in cfgs:
        if tier != 'thorough' and isrec == 0 and isread == 1:
            continue            # reads and writes of a fixed variable take the same path; thorough runs both
        for a in range(0 if isrec else 1, n2 + 1):
            for b in range(1, n2 + 1):
                va, vb = list(range(-1, a + 2)), list(range(-1, b + 2))
                for st in prod_ranges([va, vb]):
                    lines.append(kline(strict, 0, isrec, isread, 1, [a, b], st, None, None))
                    for ct in prod_ranges([va, vb]):
                        lines.append(kline(strict, 0, isrec, isread, 2, [a, b], st, ct, None))
                        if tier == 'thorough' or (a <= 1 or b <= 1) or rng.chance(1, 3):
                            for sd in prod_ranges([va, vb]):
                                lines.append(kline(strict, 0, isrec, isread, 3, [a, b], st, ct, sd))
    # 3-D: seeded random tuples over n <= 3
    for _ in range(200000 if tier == 'thorough' else 25000):
        strict, isrec, isread = rng.choice(cfgs)
        shape = [rng.range(0 if (isrec and i == 0) else 1, 3) for i in range(3)]
        pick = lambda n: rng.range(-1, n + 1)
        st = [pick(n) for n in shape]
        form = rng.below(10)
        if form == 0:
            lines.append(kline(strict, rng.below(2), isrec, isread, 1, shape, st, None, None))
        elif form <= 3:
            lines.append(kline(strict, rng.below(2), isrec, isread, 2, shape, st, [pick(n) for n in shape], None))
        else:
            lines.append(kline(strict, rng.below(2), isrec, isread, rng.choice([3, 4]), shape, st,
                               [pick(n) for n in shape], [pick(n) for n in shape]))
    # large shapes (no overflow: everything below 2^31 in magnitude, except record starts around 2^32)
    for _ in range(40000 if tier == 'thorough' else 6000):
        strict, isrec, isread = rng.choice(cfgs)
        nd = rng.range(1, 4)
        shape = [rng.choice([1, 2, 7, 100, 65536, 2**31 - 1, rng.range(1, 2**31 - 1)]) for _ in range(nd)]
        if isrec:
            shape[0] = rng.choice([0, 1, 5, 1000, 2**31 - 1])
        st, ct, sd = [], [], []
        for n in shape:
            s = rng.choice([0, n - 1, n, n + 1, -1, rng.range(0, max(n, 1))])
            room = n - s
            c = rng.choice([0, 1, room, room + 1, room - 1, -1, rng.range(0, max(room, 1))])
            if c > 1 and rng.chance(2, 3):
                q = (room - 1) // (c - 1) if room >= 1 else 1
                t = rng.choice([1, q, q + 1, max(q - 1, 1), 0, -1, 2])
            else:
                t = rng.choice([1, 1, 2, 0, -1, n, n + 1])
            st.append(s); ct.append(c); sd.append(t)
        classic = rng.below(2)
        if isrec and rng.chance(1, 4):
            st[0] = rng.choice([2**32 - 1, 2**32, 2**32 - 2, 2**32 + 5])
            if rng.chance(1, 2):
                ct[0] = rng.choice([0, 1]); sd[0] = 1
        lines.append(kline(strict, classic, isrec, isread, rng.choice([2, 3, 3, 4]), shape, st, ct,
                           None if rng.chance(1, 4) else sd))
    # witnesses of finding F15 (signed overflow of (count-1)*stride in check_EEDGE)
    wit = [kline(0, 0, 0, 0, 3, [10], [0], [3], [2**62]),
           kline(1, 0, 0, 1, 3, [10], [0], [3], [2**62]),
           kline(0, 0, 0, 0, 3, [10], [0], [3], [2**63 - 1]),
           kline(0, 1, 1, 1, 3, [10, 4], [0, 0], [3, 1], [2**62, 1]),
           kline(0, 0, 0, 0, 4, [4, 10], [0, 1], [1, 5], [1, 2**62]),
           kline(0, 0, 0, 0, 2, [2**63 - 1], [2**63 - 2], [2**63 - 1], None),
           kline(1, 0, 0, 1, 3, [2**63 - 1], [2**63 - 2], [2**63 - 1], [1])]
    return wit + lines


def parse_k(line):
    t = line.split()
    strict, classic, isrec, isread, api, nd = map(int, t[1:7])
    p = 7
    shape = list(map(int, t[p:p + nd])); p += nd
    vecs = []
    for tag in 'SCT':
        if t[p] == tag:
            vecs.append(list(map(int, t[p + 1:p + 1 + nd]))); p += 1 + nd
        else:
            vecs.append(None); p += 1
    return dict(strict=strict, classic=classic, isrec=isrec, isread=isread, api=api, shape=shape,
                start=vecs[0], count=vecs[1], stride=vecs[2])


def overflow_class(k):
    """the request leaves the envelope of checkSCS_iff_partial: start+count, (count-1)*stride or
    start+(count-1)*stride exceeds int64 (the sums/products of the original check_EEDGE)"""
    if k['start'] is None or k['count'] is None:
        return False
    strides = k['stride'] if k['stride'] is not None else [None] * len(k['start'])
    for s, c, t in zip(k['start'], k['count'], strides):
        vals = [s + c] if t is None else [s + c, (c - 1) * t, s + (c - 1) * t]
        for v in vals:
            if not (-2**63 <= v < 2**63):
                return True
    return False


def on_boundary(k):
    if k['start'] is None:
        return False
    for i, n in enumerate(k['shape']):
        s = k['start'][i]
        c = 1 if k['count'] is None else k['count'][i]
        t = 1 if k['stride'] is None else k['stride'][i]
        if c == 0 or s == n or s + (c - 1) * t == n - 1 or s == 0 and c == n:
            return True
    return False


# ------------------------------------------------------------------------------------------
# api stream
# ------------------------------------------------------------------------------------------
def enc(xt, v):
    if xt in (1, 7):
        return struct.pack('>b' if xt == 1 else '>B', v)
    if xt in (3, 8):
        return struct.pack('>h', v)
    if xt in (4, 9):
        return struct.pack('>i', v)
    if xt == 5:
        return struct.pack('>f', float(v))
    if xt == 6:
        return struct.pack('>d', float(v))
    return struct.pack('>q', v)


def dec(xt, b):
    if xt == 1:
        return struct.unpack('>b', b)[0]
    if xt == 7:
        return b[0]
    if xt in (3, 8):
        return struct.unpack('>h', b)[0]
    if xt in (4, 9):
        return struct.unpack('>i', b)[0]
    if xt == 5:
        return int(struct.unpack('>f', b)[0])
    if xt == 6:
        return int(struct.unpack('>d', b)[0])
    return struct.unpack('>q', b)[0]


def lst(v):
    return 'N' if v is None else ','.join(str(x) for x in v)


def gen_request(rng, var, nrec_est, kinds):
    """one (mostly valid) request for variable `var`; returns dict"""
    nd = len(var['dims'])
    shape = list(var['dims'])
    kind = rng.choice(kinds)
    isput = rng.chance(3, 5)
    if kind == 'bvara':
        isput = True
    if var['isrec']:
        shape[0] = nrec_est if not isput else max(nrec_est, 1) + rng.range(0, 2)
    bad = rng.chance(1, 4)
    st, ct, sd = [], [], []
    for i, n in enumerate(shape):
        if n <= 0:
            s, c, t = 0, rng.choice([0, 1]), 1
        else:
            s = rng.range(0, n - 1)
            c = rng.range(1, min(n - s, 3))
            t = 1
            if c > 1 and kind in ('vars', 'varm', 'varmt', 'ivars'):
                t = rng.range(1, max(1, (n - 1 - s) // (c - 1)))
        st.append(s); ct.append(c); sd.append(t)
    if rng.chance(1, 10):
        i = rng.below(nd); ct[i] = 0
        if rng.chance(1, 2):
            st[i] = shape[i]                 # start == extent with an empty edge (relaxed-mode rule)
    if bad:
        i = rng.below(nd)
        what = rng.below(7)
        n = shape[i]
        if what == 0:
            st[i] = rng.choice([-1, n, n + 1])
        elif what == 1:
            ct[i] = n - st[i] + 1
        elif what == 2:
            ct[i] = -1
        elif what == 3:
            sd[i] = rng.choice([0, -1])
        elif what == 4:
            sd[i] = (n - 1 - st[i]) // max(ct[i] - 1, 1) + 1; ct[i] = max(ct[i], 2)
        elif what == 5:
            st[i] = n; ct[i] = rng.choice([0, 1])
        else:
            j = rng.below(nd); st[i] = -1; ct[j] = -1     # two errors: precedence
    subs = [(st, ct, sd)]
    if kind == 'var1':
        subs = [(st, None, None)]
    elif kind in ('vara', 'bvara', 'flex'):
        subs = [(st, ct, None)]
    elif kind == 'varn':
        subs = []
        for _ in range(rng.range(1, 3)):
            s2 = [min(max(x + rng.range(-1, 1), 0), max(shape[i] - 1, 0)) for i, x in enumerate(st)]
            c2 = None if rng.chance(1, 4) else [max(min(c, shape[i] - s2[i]), 0 if rng.chance(1, 8) else 1) for i, c in enumerate(ct)]
            subs.append((s2, c2, None))
        if bad:
            k = rng.below(len(subs))
            subs[k] = (st, ct, None)
        # overlapping sub-requests: which datum wins / whether both read buffers are filled is C02's business (F13)
        seen, keep = set(), []
        for a, b, c in subs:
            cells = set(tuple(x) for x in prod_ranges([range(a[i], a[i] + (1 if b is None else max(b[i], 0))) for i in range(nd)])) \
                if all(-2 <= (1 if b is None else b[i]) <= 8 for i in range(nd)) else set()
            if cells & seen:
                continue
            seen |= cells
            keep.append((a, b, c))
        subs = keep or subs[:1]
        if var['isrec']:
            # sub-requests of more than one record are the class of a known defect (SIG_VARN): replayed separately
            subs = [(a, (None if b is None else [min(b[0], 1)] + list(b[1:])), c) for a, b, c in subs]
    elif rng.chance(1, 12) and kind in ('vars', 'varm'):
        subs = [(st, ct, None)]              # NULL stride through the vars/varm entry point
    if rng.chance(1, 40):
        subs = [(None, ct, sd if kind in ('vars', 'varm', 'ivars') else None)] if kind != 'varn' else subs
    if rng.chance(1, 40) and kind in ('vara', 'vars', 'varm', 'ivars'):
        subs = [(subs[0][0], None, subs[0][2])]
    return dict(kind=kind, isput=isput, subs=subs)


def nelems(sub):
    st, ct, sd = sub
    if st is None:
        return 0
    if ct is None:
        return 1
    n = 1
    for c in ct:
        n *= max(c, 0)
    return n


def gen_api(rng, tier):
    """-> list of scenarios: dict(fmt, strict, indep, vars=[...], reqs=[...])"""
    scen = []
    nfiles = 60 if tier == 'thorough' else 14
    for f in range(nfiles):
        fmt = [1, 2, 5][f % 3]
        strict = (f // 3) % 2
        indep = (f // 6) % 2 if f >= 2 else f % 2
        types = [1, 3, 4, 5, 6] + ([7, 10] if fmt == 5 else [])
        nv = rng.range(2, 4)
        vs = []
        for i in range(nv):
            isrec = 1 if rng.chance(2, 5) else 0
            nd = rng.range(1, 3)
            dims = [rng.range(1, 4) for _ in range(nd)]
            if isrec:
                dims[0] = 0
            vs.append(dict(xt=rng.choice(types), isrec=isrec, dims=dims))
        if not any(v['isrec'] for v in vs):
            vs[rng.below(nv)]['isrec'] = 1
            for v in vs:
                if v['isrec']:
                    v['dims'][0] = 0
        kinds = ['var1', 'vara', 'vara', 'vars', 'vars', 'varm', 'varmt', 'varn', 'ivars', 'bvara', 'flex']
        reqs, nrec = [], 0
        for q in range(60 if tier == 'thorough' else 36):
            vi = rng.below(nv)
            r = gen_request(rng, vs[vi], nrec, kinds)
            r['var'] = vi; r['q'] = q + 1
            r['extra'] = 0
            if r['kind'] == 'flex':
                n = nelems(r['subs'][0])
                r['extra'] = n + 1 if (rng.chance(1, 4) and n > 0) else n
            if vs[vi]['isrec'] and r['isput']:
                for st, ct, sd in r['subs']:
                    if st is not None and st[0] >= 0 and (ct is None or ct[0] > 0) and nelems((st, ct, sd)) > 0:
                        last = st[0] + ((ct[0] - 1) * (sd[0] if sd else 1) if ct else 0)
                        if 0 <= last < 12:
                            nrec = max(nrec, last + 1)
            reqs.append(r)
        scen.append(dict(fmt=fmt, strict=strict, indep=indep, vars=vs, reqs=reqs))
    return scen


def witness_scenarios():
    """replays of known defects, run in a process of their own"""
    f15 = dict(fmt=2, strict=0, indep=0, vars=[dict(xt=4, isrec=0, dims=[10])],
               reqs=[dict(kind='vars', isput=True, subs=[([0], [3], [2**62])], var=0, q=1, extra=0, f15=True),
                     dict(kind='vars', isput=False, subs=[([0], [3], [2**62])], var=0, q=2, extra=0, f15=True)])
    vn1 = dict(fmt=1, strict=0, indep=0, vars=[dict(xt=4, isrec=1, dims=[0])],
               reqs=[dict(kind='varn', isput=True, subs=[([0], [3], None)], var=0, q=1, extra=0)])
    vn2 = dict(fmt=5, strict=0, indep=0, vars=[dict(xt=5, isrec=1, dims=[0, 3, 4]), dict(xt=4, isrec=0, dims=[2])],
               reqs=[dict(kind='varn', isput=True, subs=[([0, 2, 0], [3, 1, 3], None)], var=0, q=1, extra=0)])
    s1d = dict(fmt=1, strict=0, indep=0, vars=[dict(xt=4, isrec=1, dims=[0]), dict(xt=4, isrec=1, dims=[0, 4, 2])],
               reqs=[dict(kind='vars', isput=True, subs=[([1], [2], [3])], var=0, q=1, extra=0)])
    return [f15, s1d, vn1, vn2]


def api_script(scen):
    out = []
    for s in scen:
        out.append('F %d %d %d %d' % (s['fmt'], s['strict'], s['indep'], len(s['vars'])))
        for v in s['vars']:
            out.append('V %d %d %d %s' % (v['xt'], v['isrec'], len(v['dims']), ' '.join(str(d) for d in v['dims'])))
        out.append('D 0 6144')
        for r in s['reqs']:
            nout = sum(nelems(x) for x in r['subs'])
            out.append('R %d %s %s %d %d %s %d %d' % (
                r['q'], r['kind'], 'p' if r['isput'] else 'g', r['var'], len(r['subs']),
                ' '.join('%s %s %s' % (lst(a), lst(b), lst(c)) for a, b, c in r['subs']), r['extra'], min(nout, 512)))
            out.append('D 0 6144')
        out.append('X')
    return out


def api_kind_code(kind, sub):
    st, ct, sd = sub
    if kind == 'var1':
        return 1
    if kind in ('vara', 'bvara', 'flex'):
        return 2
    if kind == 'varn':
        return 1 if ct is None else 2
    if kind in ('vars', 'ivars'):
        return 2 if sd is None else 3
    # varm / varmt: imap NULL & stride NULL -> VARA ; imap NULL & stride -> VARS
    if kind == 'varm':
        return 2 if sd is None else 3
    return 4


def aline(s, v, layout, begin, numrecs, r, sub):
    st, ct, sd = sub
    shape = list(v['dims'])
    if v['isrec']:
        shape[0] = numrecs
    nd = len(shape)

    def vec(tag, x):
        return tag + 'N' if x is None else tag + ' ' + ' '.join(str(y) for y in x)
    classic = 1 if s['fmt'] in (1, 2) else 0
    return 'A %d %d %d %d %d %d %d %d %d %d %s %s %s %s' % (
        s['strict'], classic, v['isrec'], 0 if r['isput'] else 1, api_kind_code(r['kind'], sub),
        begin, XSZ[v['xt']], layout['recsize'], numrecs, nd, ' '.join(str(x) for x in shape),
        vec('S', st), vec('C', ct), vec('T', sd))


def bufval(q, j):
    return ((q * 31 + j * 7) % 100) + 1


def transposed_index(ct, j):
    """buffer index of the j-th element (row-major request order) under the column-major imap"""
    idx = []
    for c in reversed(ct):
        idx.append(j % c); j //= c
    idx.reverse()
    p, b = 1, 0
    for i, c in enumerate(ct):
        b += idx[i] * p
        p *= max(c, 1)
    return b


def run_api(hexe, drv, wd, scen, runtag):
    """run scenarios through the real API and the Lean driver; -> dict of results"""
    prop_fail, tie_diffs, dist, distinct = [], [], {}, set()
    crashed = None
    script = api_script(scen)
    fdir = os.path.join(wd, 'files-' + runtag)
    os.makedirs(fdir)
    rc, so, se = mpirun(1, [hexe, 'api', fdir], stdin='\n'.join(script) + '\n', timeout=900)
    outl = [l for l in so.split('\n') if l and not l.startswith('MPI error')]
    n_api, n_img = 0, 0
    alines, ameta = [], []
    pos = 0
    parsed = []
    okrun = (rc == 0)
    try:
        for s in scen:
            L = outl[pos].split(); pos += 1
            assert L[0] == 'L', outl[pos - 1]
            layout = dict(hsize=int(L[1]), hext=int(L[2]), recsize=int(L[3]), begins=list(map(int, L[4:])))
            assert outl[pos].startswith('D '), outl[pos][:20]
            layout['img0'] = bytes.fromhex(outl[pos][2:]); pos += 1
            recs = []
            for r in s['reqs']:
                a = outl[pos]; d = outl[pos + 1]; pos += 2
                m = re.match(r'(-?\d+) (-?\d+) (-?\d+) chg=(\S+) size=(-?\d+)>(-?\d+)(?: data=(\S+))?$', a)
                assert m and d.startswith('D '), (a, d[:20])
                recs.append(dict(err=int(m.group(1)), werr=int(m.group(2)), nrec=int(m.group(3)), chg=m.group(4),
                                 size=(int(m.group(5)), int(m.group(6))),
                                 data=None if m.group(7) in (None, '-') else list(map(int, m.group(7).split(','))),
                                 img=bytes.fromhex(d[2:])))
            assert outl[pos].startswith('X '), outl[pos]; pos += 1
            parsed.append((layout, recs))
    except (AssertionError, IndexError, ValueError) as ex:
        okrun = False
        crashed = 'api harness output not parseable / harness crashed: rc=%s at output line %d: %s stderr=%s' % (rc, pos, str(ex)[:300], se[-300:])
    if okrun:
        # Lean side: footprints
        for si, s in enumerate(scen):
            layout, recs = parsed[si]
            nrec = 0
            for ri, r in enumerate(s['reqs']):
                v = s['vars'][r['var']]
                for sub in r['subs']:
                    alines.append(aline(s, v, layout, layout['begins'][r['var']], nrec if v['isrec'] else 0, r, sub))
                    ameta.append((si, ri))
                nrec = max(recs[ri]['nrec'], 0)
        pl = subprocess.run([drv], input='\n'.join(alines) + '\n', stdout=subprocess.PIPE, stderr=subprocess.PIPE, text=True)
        lo = pl.stdout.split('\n')
        if len(lo) < len(alines):
            crashed = 'Lean driver crashed on the api stream: ' + pl.stderr[-400:]
            okrun = False
    if okrun:
        ans = {}
        for i, (si, ri) in enumerate(ameta):
            ans.setdefault((si, ri), []).append(lo[i].split())
        for si, s in enumerate(scen):
            layout, recs = parsed[si]
            nfield = (4, 12) if s['fmt'] == 5 else (4, 8)
            img_prev = None
            nrec_prev = 0
            for ri, r in enumerate(s['reqs']):
                rec = recs[ri]
                v = s['vars'][r['var']]
                xsz = XSZ[v['xt']]
                subs_ans = ans[(si, ri)]
                desc = dict(stream='api', fmt=s['fmt'], strict=s['strict'], indep=s['indep'], vars=s['vars'], layout=dict((k_, v_) for k_, v_ in layout.items() if k_ != 'img0'),
                            request=dict(kind=r['kind'], put=r['isput'], var=r['var'], subs=r['subs'], extra=r['extra']),
                            real=dict(err=rec['err'], wait_err=rec['werr'], numrecs=rec['nrec'], changed=rec['chg']))
                n_api += 1
                real_err = rec['err'] if rec['err'] != 0 else rec['werr']
                model_err, offs, huge = 0, [], False
                new_nrec = nrec_prev
                for a in subs_ans:
                    e = int(a[0])
                    if e != 0:
                        model_err = e; break
                if model_err == 0:
                    for a in subs_ans:
                        if int(a[2]) < 0:
                            huge = True
                        offs += list(map(int, a[3:]))
                        new_nrec = max(new_nrec, int(a[1]))
                expect_err = model_err
                if expect_err == 0 and r['kind'] == 'flex' and r['extra'] != len(offs):
                    expect_err = EIOMISMATCH
                tag = 'api:%s:%s:%s' % (r['kind'], 'put' if r['isput'] else 'get', 'ok' if real_err == 0 else real_err)
                dist[tag] = dist.get(tag, 0) + 1
                img = rec['img']
                img0 = img_prev if img_prev is not None else layout['img0']
                line_id = '%d/%d %s' % (si, ri, script_line(r))
                vm = (r['kind'] == 'varn' and v['isrec'] and
                      any(x[1] is not None and x[1][0] > 1 and nelems(x) > 0 for x in r['subs']))
                s1 = (v['isrec'] and len(v['dims']) == 1 and layout['recsize'] != xsz and
                      any(x[0] is not None and x[1] is not None and x[2] is not None and x[1][0] > 1 and x[2][0] > 1 for x in r['subs']))
                if vm or s1:
                    # known defects: igetput_varn() does not divide nelems by counts[i][0] before splitting per record;
                    # stride_flatten() treats the only dimension of a 1-D record variable as an ordinary lowest dimension
                    class _L(list):
                        def append(self, item, _pf=prop_fail, _d=desc, _sig=(SIG_VARN if vm else SIG_ST1D)):
                            _pf.append((_sig, ('varn request on a record variable with a sub-request of more than one record: ' if _sig == SIG_VARN
                                               else 'strided request (count>1, stride>1) on a 1-D record variable next to other record variables: ') + str(item[1])[:200], _d))
                    pf, td = _L(), _L()
                else:
                    pf, td = prop_fail, tie_diffs
                if r.get('f15'):
                    # checker accepts (overflow), request then fails with NC_EFILE; nothing may change
                    if real_err == EEDGE and rec['chg'] == '-' and img == img0:
                        pass        # rejected with the documented error: the defect is repaired in this tree
                    elif real_err != 0 and rec['chg'] == '-':
                        pf.append((SIG_F15, 'request outside the variable (stride 2^62) is not rejected by the checker; '
                                          'the call fails later with undocumented error %d' % real_err, desc))
                    elif real_err == 0:
                        pf.append(('C15:api:out-of-range-request-succeeded', 'stride 2^62 request returned NC_NOERR', desc))
                    else:
                        pf.append(('C15:api:rejected-request-changed-file', 'failing request changed the file', desc))
                    img_prev, nrec_prev = img, max(rec['nrec'], 0)
                    continue
                distinct.add(line_id)
                # --- rejected or zero-length: nothing may change
                if real_err != 0 or len(offs) == 0:
                    if rec['chg'] != '-' or (v['isrec'] and rec['nrec'] != nrec_prev) or img != img0:
                        pf.append(('C15:api:rejected-or-empty-request-changed-file',
                                          'a %s request changed the file or the record count' % ('rejected' if real_err else 'zero-length'), desc))
                if real_err != expect_err:
                    pf.append(('C15:api:%s:real=%d:expected=%d' % (r['kind'], real_err, expect_err),
                                      'API returns %d, model+spec say %d' % (real_err, expect_err), desc))
                elif real_err == 0 and len(offs) > 0 and not huge:
                    n_img += 1
                    # buffer index of the j-th addressed element
                    if r['kind'] == 'varmt' and r['subs'][0][1] is not None:
                        bidx = [transposed_index(r['subs'][0][1], j) for j in range(len(offs))]
                    else:
                        bidx = list(range(len(offs)))
                    if r['isput']:
                        exp = bytearray(img0) + bytearray(max(0, len(img) - len(img0)))
                        for j, o in enumerate(offs):
                            if o + xsz > len(exp):
                                exp += bytearray(o + xsz - len(exp))
                            exp[o:o + xsz] = enc(v['xt'], bufval(r['q'], bidx[j]))
                        got = bytearray(img) + bytearray(max(0, len(exp) - len(img)))
                        exp = exp + bytearray(max(0, len(got) - len(exp)))
                        # numrecs field: new value (collective) or still the old one (independent, synced later)
                        nb = nfield[1] - nfield[0]
                        f_new = new_nrec.to_bytes(nb, 'big') if v['isrec'] else bytes(got[nfield[0]:nfield[1]])
                        f_old = bytes(img0[nfield[0]:nfield[1]])
                        f_got = bytes(got[nfield[0]:nfield[1]])
                        nrec_ok = (not v['isrec']) or rec['nrec'] == new_nrec
                        field_ok = f_got == f_new or (s['indep'] and f_got == f_old) or not v['isrec'] and f_got == f_old
                        exp[nfield[0]:nfield[1]] = f_got
                        diffpos = [p_ for p_ in range(len(got)) if got[p_] != exp[p_]]
                        inside = set()
                        for o in offs:
                            inside.update(range(o, o + xsz))
                        outside = [p_ for p_ in diffpos if p_ not in inside]
                        if outside or not field_ok or not nrec_ok:
                            desc['unexpected_bytes'] = outside[:20]
                            desc['numrecs_expected'] = new_nrec
                            pf.append(('C15:api:accepted-put-changed-bytes-outside-target',
                                              'an accepted put changed bytes outside the addressed elements (or a wrong record count)', desc))
                        elif diffpos:
                            td.append((line_id, 'addressed elements do not hold the written values at', diffpos[:10]))
                    else:
                        if img != img0 or (v['isrec'] and rec['nrec'] != nrec_prev):
                            pf.append(('C15:api:get-changed-file', 'a get request changed the file', desc))
                        want = [None] * len(offs)
                        padded = img0 + bytes(8192)
                        for j, o in enumerate(offs):
                            if bidx[j] < len(want):
                                want[bidx[j]] = dec(v['xt'], padded[o:o + xsz])
                        if rec['data'] is None or rec['data'][:len(want)] != want:
                            td.append((line_id, 'get returned', (rec['data'] or [])[:12], 'file holds', want[:12]))
                img_prev, nrec_prev = img, max(rec['nrec'], 0)
    return dict(n_api=n_api, n_img=n_img, prop_fail=prop_fail, tie_diffs=tie_diffs, dist=dist, distinct=distinct,
                script=script, crashed=crashed)


# ------------------------------------------------------------------------------------------
# intra-node aggregation stream (ncmpio_intra_node.c : flatten_req / flatten_subarray, aggregator merge)
# ------------------------------------------------------------------------------------------
INTRA_A = '/* construct array of buffer addresses */'
INTRA_B = 'if (npairs == 1) {'


def build_intra_harness(tree, wd):
    """copy the aggregator's sort/merge/pack/coalesce statements of intra_node_aggregation() verbatim
    (between two source comments) and compile harness/c15_intra.c around them; fail closed"""
    src = open(os.path.join(tree, 'src/drivers/ncmpio/ncmpio_intra_node.c')).read()
    if src.count(INTRA_A) != 1 or src.count(INTRA_B) != 1 or src.index(INTRA_A) > src.index(INTRA_B):
        raise BuildFailed('ncmpio_intra_node.c: the aggregator merge code was not found between its two markers '
                          '(%r ... %r)' % (INTRA_A, INTRA_B))
    body = src[src.index(INTRA_A):src.index(INTRA_B)]
    code = re.sub(r'/\*.*?\*/', '', body, flags=re.S)
    if code.count('{') != code.count('}') or re.search(r'\bMPI_[A-Z][A-Za-z_]*\s*\(', code) or 'qsort_off_len_buf' not in code:
        raise BuildFailed('ncmpio_intra_node.c: the aggregator merge code is no longer a self-contained statement list:\n' + body[:800])
    with open(os.path.join(wd, 'c15_intra_merge.inc'), 'w') as f:
        f.write(body)
    exe = os.path.join(wd, 'c15i')
    cc(tree, [os.path.join(VERIF, 'harness/c15_intra.c')], exe,
       extra=['-DHAVE_CONFIG_H', '-I' + wd, '-I' + os.path.join(tree, 'src/drivers/ncmpio'), '-I' + os.path.join(tree, 'src/include'),
              '-I' + os.path.join(tree, 'src/drivers/include')])
    return exe


def fline(isrec, begin, xsz, recsize, shape, st, ct, sd, null_stride=False):
    v = lambda tag, x: tag + ' ' + ' '.join(str(y) for y in x)
    return 'F %d %d %d %d %d %s %s %s %s' % (isrec, begin, xsz, recsize, len(shape), ' '.join(str(x) for x in shape),
                                             v('S', st), v('C', ct), 'TN' if null_stride else v('T', sd))


def gen_flatten(rng, tier):
    lines = []
    sizes = [2, 3, 4, 5, 7]

    def mkvar(nd, isrec):
        shape = rng.shuffle(sizes)[:nd]          # non-square: all extents differ
        xsz = rng.choice([1, 2, 4, 8])
        begin = 4 * rng.range(0, 300)
        inner = xsz
        for n in shape[(1 if isrec else 0):]:
            inner *= n
        recsize = (inner + 3) // 4 * 4 + 4 * rng.range(0, 5) if isrec else 0
        if isrec and rng.chance(1, 4):
            recsize = inner                       # the only record variable: records packed
        return shape, xsz, begin, recsize

    def requests(shape, isrec, exhaustive):
        dims = []
        for i, n in enumerate(shape):
            ext = 6 if (isrec and i == 0) else n
            opts = [(s, c, k) for s in range(ext) for c in range(1, ext - s + 1) for k in range(1, ext + 1)
                    if s + (c - 1) * k < ext and (c > 1 or k == 1)]
            dims.append(opts)
        if exhaustive:
            return prod_ranges(dims)
        return [[rng.choice(o) for o in dims] for _ in range(exhaustive_n)]
    # 1-D and 2-D: every in-bounds (start,count,stride), fixed and record
    for nd in (1, 2):
        for isrec in (0, 1):
            for rep in range(2 if tier == 'thorough' else 1):
                shape, xsz, begin, recsize = mkvar(nd, isrec)
                shape = [min(n, 4) for n in shape] if nd == 2 else shape
                if nd == 2 and shape[0] == shape[1]:
                    shape[1] = shape[0] + 1 if shape[0] < 4 else 3
                for req in requests(shape, isrec, True):
                    st, ct, sd = [r[0] for r in req], [r[1] for r in req], [r[2] for r in req]
                    lines.append(fline(isrec, begin, xsz, recsize, shape, st, ct, sd))
                    if all(k == 1 for k in sd) and rng.chance(1, 3):
                        lines.append(fline(isrec, begin, xsz, recsize, shape, st, ct, sd, True))
    # 3-D and 4-D: seeded
    for nd in (3, 4, 3, 4):
        for isrec in (0, 1):
            for rep in range(12 if tier == 'thorough' else 4):
                shape, xsz, begin, recsize = mkvar(nd, isrec)
                exhaustive_n = 700 if tier == 'thorough' else 160
                for req in requests(shape, isrec, False):
                    st, ct, sd = [r[0] for r in req], [r[1] for r in req], [r[2] for r in req]
                    lines.append(fline(isrec, begin, xsz, recsize, shape, st, ct, sd))
                    if all(k == 1 for k in sd):
                        lines.append(fline(isrec, begin, xsz, recsize, shape, st, ct, sd, True))
    # scalars
    lines.append('F 0 64 8 0 0 S C T')
    return lines


def gen_pending(rng, tier):
    """Q lines: 1-4 pending put requests of one rank (fixed and record variables of 1-4 dims with pairwise
    different extents; a multi-record request appears as several non-lead requests of one lead)"""
    lines = []
    sizes = [2, 3, 4, 5, 7]
    for _ in range(12000 if tier == 'thorough' else 2500):
        nreq_lead = rng.range(1, 4)
        recsize = 4 * rng.range(30, 200)
        parts, lead = [], 0
        for _l in range(nreq_lead):
            nd = rng.range(1, 4)
            isrec = 1 if rng.chance(3, 5) else 0
            shape = rng.shuffle(sizes)[:nd]
            xsz = rng.choice([1, 2, 4, 8])
            begin = 4 * rng.range(10, 400)
            st, ct, sd = [], [], []
            for i, n in enumerate(shape):
                ext = 6 if (isrec and i == 0) else n
                s = rng.range(0, ext - 1)
                c = rng.range(1, min(ext - s, 3))
                k = rng.range(1, max(1, (ext - 1 - s) // (c - 1))) if c > 1 else 1
                st.append(s); ct.append(c); sd.append(k)
            null_stride = all(k == 1 for k in sd) and rng.chance(1, 2)
            recs = [st[0] + j * sd[0] for j in range(ct[0])] if isrec else [None]
            for r in recs:
                if len(parts) >= 14:
                    break
                s2, c2, k2 = list(st), list(ct), list(sd)
                if r is not None:
                    s2[0], c2[0] = r, 1          # the queue splits a multi-record request: one record per non-lead request
                v = lambda tag, x: tag + ' ' + ' '.join(str(y) for y in x)
                parts.append('%d %d %d %d %d %s %s %s %s' % (lead, isrec, begin, xsz, nd, ' '.join(str(x) for x in shape),
                                                           v('S', s2), v('C', c2), 'TN' if null_stride else v('T', k2)))
            lead += 1
        lines.append('Q %d %d %s' % (recsize, len(parts), ' '.join(parts)))
    return lines


def gen_merge(rng, tier):
    """-> (line, disjoint?) : inputs of 1-4 ranks, offsets/lengths in multiples of 4"""
    out = []
    for _ in range(6000 if tier == 'thorough' else 1500):
        nranks = rng.range(1, 4)
        k = rng.range(1, 14)
        ivs, pos = [], 4 * rng.range(0, 10)
        for _i in range(k):
            if rng.chance(1, 2):
                pos += 4 * rng.range(1, 6)          # gap; else file-adjacent to the previous interval
            ln = 4 * rng.range(1, 5)
            ivs.append((pos, ln)); pos += ln
        mode = rng.below(4)
        ranks = [[] for _ in range(nranks)]
        if mode == 0:                                # interleaved round robin (file-adjacent pairs on different ranks)
            for i, iv in enumerate(ivs):
                ranks[i % nranks].append(iv)
        elif mode == 1:                              # contiguous runs per rank (file- and memory-adjacent)
            per = (k + nranks - 1) // nranks
            for i, iv in enumerate(ivs):
                ranks[min(i // per, nranks - 1)].append(iv)
        else:                                        # random owner, runs of random length
            r = 0
            for iv in ivs:
                if rng.chance(1, 2):
                    r = rng.below(nranks)
                ranks[r].append(iv)
        if mode == 3:                                # several requests per rank posted out of file order
            ranks = [rng.shuffle(x) for x in ranks]
        if rng.chance(1, 5):
            ranks = rng.shuffle(ranks)
        ins = [iv for r in ranks for iv in r]
        out.append(('M %d %s' % (len(ins), ' '.join('%d:%d' % iv for iv in ins)), True))
    for _ in range(600 if tier == 'thorough' else 150):      # overlapping inputs, distinct offsets: tie only
        k = rng.range(2, 8)
        offs = rng.shuffle(list(range(0, 60)))[:k]
        ins = [(4 * o, 4 * rng.range(1, 8)) for o in offs]
        out.append(('M %d %s' % (len(ins), ' '.join('%d:%d' % iv for iv in ins)), False))
    return out


def run_intra(V, tree, wd, drv, rng, tier):
    """-> dict(prop_fail, tie_diffs, n, distinct, dist)"""
    prop_fail, tie_diffs, dist, distinct = [], [], {}, set()
    exe = build_intra_harness(tree, wd)
    flines = gen_flatten(rng, tier)
    mcases = gen_merge(rng, tier)
    qlines = gen_pending(rng, tier)
    lines = flines + qlines + [m[0] for m in mcases]
    # the Lean driver wants an explicit stride vector
    def lean_line(l):
        if l.startswith('Q '):
            tk, out, i = l.split(), [], 3
            out = tk[:3]
            for _r in range(int(tk[2])):
                nd = int(tk[i + 4])
                n = 5 + nd + 2 * (1 + nd)
                out += tk[i:i + n]
                if tk[i + n] == 'TN':
                    out += ['T'] + ['1'] * nd; i += n + 1
                else:
                    out += tk[i + n:i + n + 1 + nd]; i += n + 1 + nd
            return ' '.join(out)
        if l.endswith(' TN'):
            nd = int(l.split()[5])
            return l[:-3] + ' T' + ' 1' * nd
        return l
    inp = '\n'.join(lines) + '\n'
    pc = subprocess.run([exe], input=inp, stdout=subprocess.PIPE, stderr=subprocess.PIPE, text=True)
    pl = subprocess.run([drv], input='\n'.join(lean_line(l) for l in lines) + '\n', stdout=subprocess.PIPE, stderr=subprocess.PIPE, text=True)
    co, lo = pc.stdout.split('\n'), pl.stdout.split('\n')
    if pc.returncode != 0 or len(co) < len(lines) or len(lo) < len(lines):
        tie_diffs.append(('intra harness/driver crashed', 'C rc=%s (%d/%d lines) Lean rc=%s (%d lines) %s' %
                          (pc.returncode, len(co), len(lines), pl.returncode, len(lo), (pc.stderr + pl.stderr)[-300:])))
        return dict(prop_fail=prop_fail, tie_diffs=tie_diffs, n=0, distinct=distinct, dist=dist)
    seen = set()
    for i, line in enumerate(lines):
        if line in seen:
            continue
        seen.add(line)
        if line.startswith('Q '):
            ct_ = co[i].split()
            m = re.match(r'p=(\S+) e=(\S+)$', lo[i])
            if len(ct_) != 3 or not m:
                tie_diffs.append((line, co[i][:200], lo[i][:200])); continue
            cpairs = [] if ct_[2] == '-' else [tuple(map(int, x.split(':'))) for x in ct_[2].split(',')]
            mpairs = [] if m.group(1) == '-' else [tuple(map(int, x.split(':'))) for x in m.group(1).split(',')]
            spec = [] if m.group(2) == '-' else list(map(int, m.group(2).split(',')))
            # element size per pair: follow the model's pair list request by request (same count when correct);
            # compare byte ranges instead: bytes covered by the C pairs in order vs bytes of the specified elements
            tk, i2, xs_of = line.split(), 3, []
            for _r in range(int(tk[2])):
                nd_ = int(tk[i2 + 4]); xs_ = int(tk[i2 + 3])
                n_ = 5 + nd_ + 2 * (1 + nd_)
                cnt = 1
                for c_ in tk[i2 + 5 + nd_ + 1 + nd_ + 1:i2 + 5 + nd_ + 1 + nd_ + 1 + nd_]:
                    cnt *= int(c_)
                xs_of += [xs_] * cnt
                i2 += n_ + (1 if tk[i2 + n_] == 'TN' else 1 + nd_)
            want_bytes = [b for o, x in zip(spec, xs_of) for b in range(o, o + x)]
            got_bytes = [b for o, l in cpairs for b in range(o, o + l)]
            nrec = sum(1 for r_ in range(int(tk[2])))
            tag = 'intra:flatten_reqs:%dreq' % int(tk[2])
            dist[tag] = dist.get(tag, 0) + 1
            distinct.add(line)
            if int(ct_[0]) != 0 or got_bytes != want_bytes or int(ct_[1]) != len(cpairs):
                prop_fail.append(('C15:intra:flatten_reqs:pending-requests',
                                  'flatten_reqs (nonblocking intra-node aggregation) emits offset-length pairs that do not cover exactly the elements of the pending requests in queue order: '
                                  'bytes %s..., specified %s...' % (got_bytes[:12], want_bytes[:12]),
                                  dict(stream='intra-flatten_reqs', line=line, c_pairs=cpairs[:60], spec_offsets=spec[:100], model_pairs=mpairs[:60])))
            elif cpairs != mpairs:
                tie_diffs.append((line, 'pairs', cpairs[:20], mpairs[:20]))
        elif line.startswith('F '):
            t = line.split()
            isrec, xsz, nd = int(t[1]), int(t[3]), int(t[5])
            ct_ = co[i].split()
            m = re.match(r'p=(\S+) e=(\S+)$', lo[i])
            if len(ct_) != 3 or not m:
                tie_diffs.append((line, co[i][:200], lo[i][:200])); continue
            cpairs = [] if ct_[2] == '-' else [tuple(map(int, x.split(':'))) for x in ct_[2].split(',')]
            mpairs = [] if m.group(1) == '-' else [tuple(map(int, x.split(':'))) for x in m.group(1).split(',')]
            spec = [] if m.group(2) == '-' else list(map(int, m.group(2).split(',')))
            got = [o + j * xsz for o, l in cpairs for j in range(l // xsz)]
            tag = 'intra:flatten:%s:%dD' % ('rec' if isrec else 'fix', nd)
            dist[tag] = dist.get(tag, 0) + 1
            distinct.add(line)
            if int(ct_[0]) != 0 or got != spec or any(l % xsz for o, l in cpairs):
                prop_fail.append(('C15:intra:flatten_req:%s:%dD' % ('record' if isrec else 'fixed', nd),
                                  'flatten_req (intra-node aggregation) emits offset-length pairs that do not cover exactly the elements of the request: '
                                  'elements %s..., specified %s...' % (got[:12], spec[:12]),
                                  dict(stream='intra-flatten', line=line, c_pairs=cpairs[:40], spec_offsets=spec[:80], model_pairs=mpairs[:40])))
            elif cpairs != mpairs:
                tie_diffs.append((line, 'pairs', cpairs[:20], mpairs[:20]))
        else:
            disjoint = dict(mcases)[line]
            mc = re.match(r's=(\S+) f=(\S+) w=(\S+) n=(-?\d+)$', co[i])
            ml = re.match(r's=(\S+) a=(\S+) f=(\S+)$', lo[i])
            if not mc or not ml:
                tie_diffs.append((line, co[i][:200], lo[i][:200])); continue
            ins = [tuple(map(int, x.split(':'))) for x in line.split()[2:]]
            cf = [tuple(map(int, x.split(':'))) for x in mc.group(2).split(',')]
            cw = [] if mc.group(3) == '-' else list(map(int, mc.group(3).split(',')))
            cs = [tuple(map(int, x.split(':'))) for x in mc.group(1).split(',')]
            ms = [tuple(map(int, x.split(':'))) for x in ml.group(1).split(',')]
            ma = [tuple(map(int, x.split(':'))) for x in ml.group(2).split(',')]
            mf = [tuple(map(int, x.split(':'))) for x in ml.group(3).split(',')]
            mw = [(b + 4 * j) // 4 for o, l, b in ma for j in range(l // 4)]
            tag = 'intra:merge:%s:%d' % ('disjoint' if disjoint else 'overlap', min(len(ins), 9))
            dist[tag] = dist.get(tag, 0) + 1
            distinct.add(line)
            fwords = [o + 4 * j for o, l in cf for j in range(l // 4)]
            cmap = sorted(zip(fwords, cw))
            if disjoint:
                want, pos_ = [], 0
                for o, l in ins:
                    for j in range(l // 4):
                        want.append((o + 4 * j, pos_)); pos_ += 1
                sorted_ok = all(cs[j][0] <= cs[j + 1][0] for j in range(len(cs) - 1)) and sorted(cs) == sorted((o, l, b) for (o, l), b in zip(ins, _prefix(ins)))
                if cmap != sorted(want) or len(fwords) != len(cw) or int(mc.group(4)) != 4 * len(want) or not sorted_ok:
                    prop_fail.append(('C15:intra:aggregator-merge:byte-map',
                                      'the aggregator (sort/merge/pack/coalesce of intra_node_aggregation) does not move exactly the bytes of the file-disjoint inputs: '
                                      '(file word, source word) %s..., specified %s...' % (cmap[:10], sorted(want)[:10]),
                                      dict(stream='intra-merge', line=line, c_file_pairs=cf, c_wr_buf_ids=cw[:80], c_sorted=cs, model_merged=ma, model_file_pairs=mf)))
                    continue
            if cs != ms or cf != mf or cw != mw:
                tie_diffs.append((line, 'sorted/file pairs/wr_buf', (cs, cf, cw[:30]), (ms, mf, mw[:30])))
    return dict(prop_fail=prop_fail, tie_diffs=tie_diffs, n=len(seen), distinct=distinct, dist=dist,
                samples=[flines[len(flines) // 2], qlines[0], mcases[0][0]])


def _prefix(ins):
    out, a = [], 0
    for o, l in ins:
        out.append(a); a += l
    return out


# ------------------------------------------------------------------------------------------
def run_check(tier, seed):
    V = Verdict(PROP, tier, seed)
    local_findings(V)
    rng = SplitMix64(seed * 104729 + 15)
    V.assumptions = [
        'Model/Scs.lean is a hand transcription of check_EINVALCOORDS / check_EEDGE / check_start_count_stride (src/dispatchers/var_getput.m4); it is tied to the source by running the real static functions on the same tuples on every run',
        'the byte-level theorems speak about the row-major element addressing of Model/Scs.lean (elemOffset/footprint); that it is the addressing the library performs (ncmpio_filetype.c, MPI-IO file views) is established only by the API stream: whole-file images after every request',
        'signed overflow in C is undefined behaviour; the 64-bit model (Scs.c64) assumes two\'s-complement wrap-around, which is what gcc -O1 emits here; outside the F15 witnesses every generated value is below 2^33 in magnitude',
        'guards of the theorems: ndims > 0 (checked by every caller), extents >= 0, a stride vector exists only in the vars/varm forms',
        'single process (the multi-rank behaviour of rejected collective requests belongs to C08, defect F2)',
    ]
    V.cov['trusted_base'] = TRUSTED_BASE_COMMON + ['harness/c15_scs.c, harness/c15_intra.c (+ the statements of intra_node_aggregation() copied between source markers), checks/c15.py generators and image oracle (differential testing)']
    tree = build_impl('plain')
    wd = workdir('c15')
    try:
        # ---- S3
        ok, out = lake_build(['PnVerif.Props.C15', 'c15drv'])
        obl = obligations_of('PnVerif/Props/C15.lean')
        failed_thms = set()
        if not ok:
            for f, ln, msg in lake_errors(out):
                t = theorem_at(f, ln)
                if t:
                    failed_thms.add(t)
            log('[S3] lake build FAILED:', sorted(failed_thms)[:10])
        discharged, bad = axiom_audit('PnVerif.Props.C15', obl, 'PnVerif.Props.C15') if ok else ([], [])
        forb = grep_forbidden([os.path.join(LEAN, f) for f in LEAN_FILES])
        if tier == 'thorough' and ok:
            lc = leanchecker(['PnVerif.Props.C15'])
            V.cov['leanchecker'] = 'ok' if not lc else str(lc)
            if lc:
                bad.append(('leanchecker', lc))
        V.cov['obligations'] = len(obl)
        V.cov['discharged'] = len(discharged)
        V.cov['checker_cmd'] = 'cd lean && lake build PnVerif.Props.C15 c15drv && lake env lean <#print axioms of every obligation>'
        proof_broken = (not ok) or bool(bad) or bool(forb) or len(obl) == 0
        drv = os.path.join(LEAN, '.lake/build/bin/c15drv')
        if not os.path.exists(drv):
            V.broken_tie('Lean driver c15drv does not build', out[-1500:])
            return V.finish()
        # ---- S4 harness
        hexe = os.path.join(wd, 'c15h')
        try:
            cc(tree, [os.path.join(VERIF, 'harness/c15_scs.c')], hexe,
               extra=['-DHAVE_CONFIG_H', '-I' + os.path.join(tree, 'src/dispatchers'), '-I' + os.path.join(tree, 'src/include'),
                      '-I' + os.path.join(tree, 'src/drivers/include')])
        except BuildFailed as ex:
            V.broken_tie('harness c15_scs.c does not compile against the tree (checker renamed or restructured)', str(ex)[-1500:])
            return V.finish()
        prop_fail, tie_diffs, dist = [], [], {}
        distinct = set()
        # ---------------- unit stream
        t1 = Timer()
        klines = []
        corpus = os.path.join(VERIF, 'corpus', 'C15', 'unit.txt')
        if os.path.exists(corpus):
            klines += [l.strip() for l in open(corpus) if l.startswith('K ')]
        klines += gen_unit(rng, tier)
        inp = '\n'.join(klines) + '\n'
        pc = subprocess.run([hexe, 'unit'], input=inp, stdout=subprocess.PIPE, stderr=subprocess.PIPE, text=True)
        pl = subprocess.run([drv], input=inp, stdout=subprocess.PIPE, stderr=subprocess.PIPE, text=True)
        co, lo = pc.stdout.split('\n'), pl.stdout.split('\n')
        if pc.returncode != 0 or len(co) < len(klines) or len(lo) < len(klines):
            V.broken_tie('unit harness/driver crashed', 'C rc=%s (%d lines) Lean rc=%s (%d lines) %s' %
                         (pc.returncode, len(co), pl.returncode, len(lo), (pc.stderr + pl.stderr)[-400:]))
            return V.finish()
        unit_seen = set()
        # which check_EEDGE does this tree have?  decided by the replay of the F15 witness (first line of the
        # generated stream): the original code accepts it (64-bit wrap-around, model Scs.c64), the repaired
        # division form rejects it with NC_EEDGE (model Scs.divForm).  Both variants have their theorems
        # (checkSCS_iff_counterexample / _partial  resp.  checkSCS_iff_repaired).
        wit0 = kline(0, 0, 0, 0, 3, [10], [0], [3], [2**62])
        variant = 'c64'
        try:
            if int(co[klines.index(wit0)]) == EEDGE:
                variant = 'divForm'
        except (ValueError, IndexError):
            pass
        V.cov['check_EEDGE_variant'] = variant
        log('[S4] check_EEDGE variant of this tree: %s' % variant)
        for i, line in enumerate(klines):
            if line in unit_seen:
                continue
            unit_seen.add(line)
            try:
                real = int(co[i]); m64, mex, inb, mdiv = map(int, lo[i].split())
            except ValueError:
                tie_diffs.append((line, co[i], lo[i])); continue
            mvar = mdiv if variant == 'divForm' else m64
            key = {0: 'accepted', EINVALCOORDS: 'EINVALCOORDS', EEDGE: 'EEDGE', ESTRIDE: 'ESTRIDE', ENEGATIVECNT: 'ENEGATIVECNT'}.get(real, 'other%d' % real)
            dist['unit:' + key] = dist.get('unit:' + key, 0) + 1
            k = None
            if real != 0:
                distinct.add(line)
            else:
                k = parse_k(line)
                if on_boundary(k):
                    distinct.add(line)
            # property oracle on the real code: accepted <-> InBounds, rejected -> documented code with precedence
            if (real == 0) != (inb == 1) or (real != 0 and real != mex):
                k = k or parse_k(line)
                sig = SIG_F15 if (real == 0 and inb == 0 and overflow_class(k) and mex == EEDGE) else \
                    'C15:checker:real=%d:spec=%s' % (real, 'InBounds' if inb else mex)
                prop_fail.append((sig, 'check_start_count_stride returns %d, specification: %s' %
                                  (real, 'request is in bounds' if inb else 'not in bounds, documented error %d' % mex),
                                  dict(stream='unit', line=line, real=real, model64=m64, model_exact=mex, model_repaired=mdiv, inbounds=inb)))
                if sig == SIG_F15:
                    dist['unit:F15-witness'] = dist.get('unit:F15-witness', 0) + 1
            if real != mvar:
                tie_diffs.append((line, co[i], lo[i], 'variant ' + variant))
        n_unit = len(unit_seen)
        log('[S4] unit: %d distinct tuples through the real checker and the Lean model in %.1fs' % (n_unit, t1.s()))
        # ---------------- api stream
        t2 = Timer()
        scen = gen_api(rng, tier)
        A = run_api(hexe, drv, wd, scen, 'main')
        if A['crashed']:
            V.broken_tie('api stream', A['crashed'])
        W = run_api(hexe, drv, wd, witness_scenarios(), 'wit')     # separate process: known-defect replays may corrupt the heap
        if W['crashed']:
            W['prop_fail'].append((SIG_VARN, 'harness crashed while replaying the varn multi-record witnesses: ' + W['crashed'][:200], dict(stream='api-witness')))
        for R in (A, W):
            prop_fail += R['prop_fail']; tie_diffs += R['tie_diffs']; distinct |= R['distinct']
            for k_, v_ in R['dist'].items():
                dist[k_] = dist.get(k_, 0) + v_
        n_api, n_img, script = A['n_api'] + W['n_api'], A['n_img'] + W['n_img'], A['script']
        log('[S4] api: %d requests (%d whole-file image comparisons) in %.1fs' % (n_api, n_img, t2.s()))
        # ---------------- intra-node aggregation stream (flatten_req / aggregator merge of ncmpio_intra_node.c)
        t3 = Timer()
        try:
            I = run_intra(V, tree, wd, drv, SplitMix64(seed * 104729 + 19), tier)
        except BuildFailed as ex:
            I = dict(prop_fail=[], tie_diffs=[('harness c15_intra.c cannot be built around ncmpio_intra_node.c (functions renamed or the aggregator code restructured)', str(ex)[-1200:])],
                     n=0, distinct=set(), dist={}, samples=[])
        prop_fail += I['prop_fail']; tie_diffs += I['tie_diffs']; distinct |= I['distinct']
        for k_, v_ in I['dist'].items():
            dist[k_] = dist.get(k_, 0) + v_
        n_intra = I['n']
        log('[S4] intra: %d flatten_req / aggregator-merge cases through the real code and the Lean model in %.1fs' % (n_intra, t3.s()))
        V.cov['evaluations'] = n_unit + n_api + n_intra
        V.cov['distinct_nontrivial'] = len(distinct)
        V.cov['traces_validated_against_impl'] = n_unit + n_api + n_intra - len(tie_diffs)
        V.cov['unit_tuples'] = n_unit
        V.cov['api_requests'] = n_api
        V.cov['api_image_comparisons'] = n_img
        V.cov['intra_node_cases'] = n_intra
        V.cov['rule'] = ('unit: every (start,count,stride) in [-1,n+1]^3 per dimension, 1-D n<=3 and 2-D n<=2 (thorough 4 / 3), var1/vara/vars/varm forms, NULL start/count/stride, '
                         'fixed/record x read/write x strict/relaxed x classic/CDF-5, plus seeded random 3-D tuples and large shapes (boundary-biased), run through the real static '
                         'checker; api: seeded mostly-valid requests (25% with one or two injected errors, 10% zero-length) through var1/vara/vars/varm(imap)/varn/iput/bput/flexible, '
                         'whole file dumped after every request. non-trivial = rejected by the real code, or accepted with a dimension on a boundary (count 0, start = extent, last index = extent-1, full extent); '
                         'api requests count when rejected, empty, or moving at least one element; distinct = distinct request lines; '
                         'intra: flatten_req on fixed and record variables of 1-4 dimensions with pairwise different extents, every in-bounds (start,count,stride) for 1-D/2-D, seeded for 3-D/4-D, '
                         'NULL stride; flatten_reqs on 1-4 pending requests (1-14 non-lead requests, multi-record requests split per record) of fixed and record variables of 1-4 dims; aggregator merge on file-disjoint inputs of 1-4 ranks (interleaved / contiguous / random ownership, file- and memory-adjacent runs, out-of-order requests) and overlapping inputs')
        V.cov['distribution'] = dist
        V.cov['samples'] = [klines[0], klines[len(klines) // 3], klines[len(klines) // 2], klines[-1]] + \
                           ([script[3], script[len(script) // 2]] if len(script) > 4 else []) + I.get('samples', []) + \
                           ['theorem checkSCS_iff_partial (c r) (hne : r.dims ≠ []) (hs : ∀ d ∈ r.dims, 0 ≤ d.shape) (hstr : r.hasStride → c.needCount) (henv : NoOvf r) : checkSCS c64 c r = NC_NOERR ↔ InBounds c r']
        # ---- S4m API-level "mix" programs (checks/apigen.gen_mix_program): several interleaving strided nonblocking requests per
        #      rank completed by one wait, varn calls with many permuted segments, 1-3 ranks, against the abstract dataset
        #      specification (lean/Driver/Api.lean) -- reaches vars_flatten / mgetput coalescing / merge of interleaved lists
        import apigen, apicmp
        mix_fail = 0
        if os.path.exists(apicmp.APIDRV):
            aexe = apicmp.build_apirun(tree, wd)
            nmix = 100 if tier == 'thorough' else 30
            mrng = SplitMix64(seed * 104729 + 17)
            ml_, mt_, mix_fail, mn_ = apicmp.run_programs(
                V, aexe, wd, ((apigen.gen_mix_program(mrng, 'c15_m%d.nc' % k_, n_, focus=[None, None, 'burst', 'recvarn'][k_ % 4]), n_) for k_ in range(nmix) for n_ in [mrng.choice([1, 1, 2, 3])]),
                tier, 'C15:api-mix', 'accepted multi-request program touched elements it did not address or missed addressed ones', tagprefix='mix')
            V.cov['evaluations'] += ml_
            V.cov['distribution'] = dict(V.cov['distribution'], mix_programs=mn_, mix_result_lines=ml_, mix_tags=mt_)
            V.cov['distinct_nontrivial'] += len(mt_)
        # ---- S5
        new_fail, seen_sig = 0, set()
        for sig, what, rep in prop_fail:
            if V.failing_input(sig, what, dict(rep, harness='harness/c15_scs.c + lean/Driver/C15.lean'), tag='in%d' % new_fail):
                new_fail += 1
                if new_fail >= 5:
                    break
        if new_fail == 0 and mix_fail == 0:
            if tie_diffs:
                V.broken_tie('correspondence streams unit/api: model and implementation differ', tie_diffs[:10])
            if proof_broken:
                V.broken_tie('proof obligations no longer check',
                             dict(failed_theorems=sorted(failed_thms), axiom_audit=bad[:10], forbidden=forb[:10],
                                  lake_tail=out[-1500:] if not ok else ''))
        return V.finish()
    finally:
        cleanup(wd)


def script_line(r):
    return '%s %s v%d %s x%d' % (r['kind'], 'p' if r['isput'] else 'g', r['var'],
                                 ' '.join('%s %s %s' % (lst(a), lst(b), lst(c)) for a, b, c in r['subs']), r['extra'])


if __name__ == '__main__':
    tier, seed, replay = args(sys.argv[1:])
    sys.exit(run_check(tier, seed))
