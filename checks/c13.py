#!/usr/bin/env python3
"""C13 — caller buffers are respected; attached-buffer accounting is exact (DESIGN.md §4 C13).

S3  Lean: Model/Abuf.lean (ncmpii_in_swapn, in-place-swap decision and the three swap-back exits,
    ncmpio_abuf_malloc/dealloc, abuf_coalesce, NC_EINSUFFBUF test, attach/detach/inq), theorems in
    Props/C13.lean.
S4  harness/c13_buf.c against the real library: random histories of attach / detach / bput / iput /
    iget / blocking put+get / wait / cancel with request sizes on both sides of the 4096-byte
    in-place-swap threshold, the three nc_in_place_swap settings, swapping and converting types,
    derived buffer types with gaps, imap; ncmpi_put_vard / get_vard (independent and _all; filetype = subarray, nested
    hvector or contiguous run; fixed and record variables; all buffer layouts; the exits without I/O: NC_EIOMISMATCH,
    NC_ETYPE_MISMATCH, zero-length forms; a filetype of size 0 is probed in a process of its own); after every op the attached-buffer table of `struct NC`,
    inq_buffer_usage/size, the buffer handed to MPI-IO (PMPI interception / NC_lead_req) and the swap
    flag are diffed with the model; the property oracle checks guard zones, bit-identical user
    buffers after put / wait / cancel, reads touching only selected bytes, bput data = posting-time
    data, usage = bytes of pending bputs, refusal iff remaining space too small.
"""
import os, sys, json, subprocess
sys.path.insert(0, os.path.dirname(os.path.abspath(__file__)))
from common import *

PROP = 'C13'
XSZ = [1, 2, 4, 4, 8, 8, 4]
VLEN = [16000, 8192, 8192, 4096, 4096, 4096, 64]      # vb keeps its last 384 bytes for the sentinel read
NATIVE = [5, 3, 1, 4, 2, 6, 1]
MSZ = {1: 4, 2: 8, 3: 2, 4: 4, 5: 1, 6: 8}
VXSZ = XSZ + [8, 4]                                   # … plus the record variables rd (double) and ri (int)
VNATIVE = NATIVE + [2, 1]
EM5_OK = True          # set by the probe: may the stream use vard calls whose filetype has size 0?

# ncmpi_get_vard_all / get_vard / put_vard_all with a committed filetype of size 0 (MPI_Type_contiguous(0, …)): a zero-length
# request.  Run in a process of its own because getput_vard reads `filetype_size` before assigning it on this exit.
PROBE_EM5 = ['CASE 0 0',
             'R 0 5 0 1 0 0 64 4 d 0 5 1 31 8 1 1 5 0 0 0 1 0 8 1 8',
             'R 1 5 0 1 1 0 64 2 d 0 0 1 8 16 0 0 5 0 0 0 1 0 16 1 4',
             'P 2 5 0 1 1 0 64 2 d 0 0 1 40 16 0 1 5 0 0 0 1 0 16 1 4',
             'R 3 5 0 1 1 0 8192 4 d 0 4 1 0 1024 1 1 5 0 0 0 1 0 256 4 8',
             'END']


class CaseGen:
    def __init__(self, rng, idx, lifo):
        self.rng, self.idx, self.lifo = rng, idx, lifo
        self.hint = rng.below(3)
        self.lines = ['CASE %d %d' % (idx, self.hint)]
        self.meta = [dict(op='CASE')]
        self.next = [0] * 7                 # next free element per 1-D variable / next free row of v2
        self.nextrec = {7: 0, 8: 0}         # next free record of the record variables (vard puts)
        self.attached = None                # spec: size of the attached buffer
        self.pend = {}                      # h -> dict(op, nbytes)  (spec's pending set, posting order)
        self.order = []
        self.nexth = 0
        self.nonlifo = False

    def region(self, var, count):
        if var == 6:
            rows = count
            if self.next[6] + rows > 64:
                return None
            s = self.next[6]; self.next[6] += rows
            return s
        if self.next[var] + count > VLEN[var]:
            return None
        s = self.next[var]; self.next[var] += count
        return s

    def data_op(self, op):
        rng = self.rng
        var = rng.choice([0, 1, 2, 2, 3, 4, 5, 6])
        xsz = XSZ[var]
        mt = 0 if rng.chance(2, 3) else rng.choice([1, 2, 3, 4, 6])
        eff = mt if mt else NATIVE[var]
        need_convert = 1 if eff != NATIVE[var] else 0
        need_swap = 0 if (var == 0 and eff == 5) else 1
        # buffer layout: 0 predefined type, 1 MPI_DATATYPE_NULL, 2 vector with gaps, 4 contiguous(4) with bufcount = n/4,
        # 5 resized element type (gaps), 6 vector of contiguous(2) (nested, gaps), 7 vector(4,1,2) with bufcount = n/4 > 1,
        # 8 contiguous(2, contiguous(2)) with bufcount = n/4  (see harness/c13_buf.c laypos)
        bl = rng.choice([0, 0, 1, 2, 4, 4, 5, 6, 7, 8])
        if bl == 1 and mt != 0:
            bl = 0
        api = 'a'
        nsub = 1
        subs = []
        if var == 6:
            api = 'm' if rng.chance(1, 2) else 'a'
            rows = rng.choice([1, 2, 4, 16, 17, 33])
            cols = 64 if rows >= 16 else rng.choice([4, 16, 64])
            s = self.region(6, rows)
            if s is None:
                return False
            subs = [([s, 0], [rows, cols])]
            nelems = rows * cols
        else:
            target = rng.choice([8, 24, 64, 1024, 4088, 4096, 4104, 8192])
            cnt = max(1, target // xsz)
            if bl in (4, 6, 7, 8):
                cnt = max(4, (cnt + 3) // 4 * 4)        # whole instances of the derived type
            if op in 'IBG' and rng.chance(1, 5) and bl in (0, 1, 2, 5):
                api = 'n'; nsub = 2
                c1 = max(1, cnt // 2); c2 = max(1, cnt - c1)
                s1 = self.region(var, c1); s2 = self.region(var, c2) if s1 is not None else None
                if s1 is None or s2 is None:
                    return False
                subs = [([s1], [c1]), ([s2], [c2])]
                nelems = c1 + c2
            else:
                s = self.region(var, cnt)
                if s is None:
                    return False
                subs = [([s], [cnt])]
                nelems = cnt
        imap = 1 if api == 'm' else 0
        contig = 1 if bl in (0, 1, 4, 8) else 0
        nbytes = nelems * xsz
        kind = {'P': 0, 'R': 5, 'G': 5}.get(op)
        if op == 'I':
            kind = 2 if api == 'n' else 1
        if op == 'B':
            kind = 4 if api == 'n' else 3
        h = self.nexth
        if h >= 250:
            return False
        self.nexth += 1
        toks = [op, h, kind, need_convert, need_swap, contig, imap, nbytes, var, api, mt, bl, nsub]
        for s, c in subs:
            toks += list(s) + list(c)
        self.lines.append(' '.join(str(t) for t in toks))
        m = dict(op=op, h=h, nbytes=nbytes, need_swap=need_swap, need_convert=need_convert, contig=contig, imap=imap,
                 spec_err=0, spec_usage=None)
        if op == 'B':
            if self.attached is None:
                m['spec_err'] = -217
            elif self.attached - sum(p['nbytes'] for p in self.pend.values() if p['op'] == 'B') < nbytes:
                m['spec_err'] = -219
            else:
                self.pend[h] = dict(op='B', nbytes=nbytes); self.order.append(h)
        elif op in 'IG':
            self.pend[h] = dict(op=op, nbytes=nbytes); self.order.append(h)
        m['spec_usage'] = self.usage()
        m['nonlifo'] = self.nonlifo
        self.meta.append(m)
        return True

    def vard_op(self, op):
        """ncmpi_put_vard / get_vard (independent and _all): filetype = subarray / nested hvector / contiguous run built
        on the variable's element type, fixed and record variables, every buffer layout, sizes around 4096 bytes,
        and the exits without I/O (NC_EIOMISMATCH, NC_ETYPE_MISMATCH, three zero-length forms)"""
        rng = self.rng
        var = rng.choice([0, 1, 2, 2, 3, 4, 5, 6, 7, 7, 8, 8])
        xsz = VXSZ[var]
        mt = 0 if rng.chance(3, 4) else rng.choice([1, 2, 3, 4, 6])
        eff = mt if mt else VNATIVE[var]
        need_convert = 1 if eff != VNATIVE[var] else 0
        need_swap = 0 if (var == 0 and eff == 5) else 1
        bl = rng.choice([0, 0, 1, 4, 4, 4, 5, 2, 6, 7, 8, 8])
        if bl == 1 and mt != 0:
            bl = 0
        em = 0 if rng.chance(5, 6) else rng.choice([1, 1, 2, 2, 3, 4, 5])
        if bl == 1 and em in (1, 4):
            em = 2
        if em == 5 and not EM5_OK:
            em = 3          # a filetype of size 0 is exercised by the probe only (finding vard-zero-size-filetype-uninitialized)
        coll = rng.below(2)
        contiguous_sel = False
        if var <= 5:
            target = rng.choice([8, 24, 64, 1024, 4088, 4096, 4104, 8192])
            cnt = max(4, (max(1, target // xsz) + 3) // 4 * 4)
            if em == 0 and op == 'P':
                s = self.region(var, cnt)
                if s is None:
                    return False
            else:
                s = rng.below(VLEN[var] - cnt + 1) if em == 0 else rng.below(64)
            sub = ([s], [cnt]); nelems = cnt; contiguous_sel = True
        elif var == 6:
            rows = rng.choice([1, 2, 4, 16, 17, 33])
            cols = 64 if rng.chance(1, 2) else rng.choice([4, 16, 32])
            if em == 0 and op == 'P':
                s = self.region(6, rows)
                if s is None:
                    return False
            else:
                s = rng.below(64 - rows + 1)
            c0 = 0 if cols == 64 else rng.below(64 - cols + 1)
            sub = ([s, c0], [rows, cols]); nelems = rows * cols; contiguous_sel = (cols == 64 or rows == 1)
        else:
            # record variables: rd DOUBLE[t][8], ri INT[t][6][8]
            per = 8 if var == 7 else 48
            nrec = rng.choice([1, 1, 2, 3, 3] + ([63, 64, 65] if var == 7 else [21, 22]))
            if op == 'R' or em != 0:
                nrec = min(nrec, 3); s = rng.below(3 - nrec + 1)          # the three background records
            else:
                s = self.nextrec[var]
                if s + nrec > 150:
                    return False
                self.nextrec[var] += nrec
            if var == 7:
                cols = 8 if rng.chance(1, 2) else 4
                c0 = 0 if cols == 8 else rng.below(5)
                sub = ([s, c0], [nrec, cols]); nelems = nrec * cols
                contiguous_sel = (nrec == 1)
            else:
                full = rng.chance(1, 2)
                ys, yc, xs, xc = (0, 6, 0, 8) if full else (rng.below(3), rng.choice([1, 2, 4]), rng.below(5), 4)
                sub = ([s, ys, xs], [nrec, yc, xc]); nelems = nrec * yc * xc
                contiguous_sel = (nrec == 1 and (full or yc == 1))
        ft = rng.choice([0, 0, 1, 1, 2]) if contiguous_sel else rng.choice([0, 1])
        contig = 1 if bl in (0, 1, 4, 8) else 0
        nbytes = nelems * xsz
        pertype = {0: 1, 1: 1, 2: nelems, 4: 4, 5: 1, 6: nelems, 7: 4, 8: 4}[bl]
        bufcount = {0: nelems, 1: 0, 2: 1, 4: nelems // 4, 5: nelems, 6: 1, 7: nelems // 4, 8: nelems // 4}[bl]
        if em == 1:
            bufcount += 1
        if em == 4:
            bufcount = 0
        h = self.nexth
        if h >= 250:
            return False
        self.nexth += 1
        toks = [op, h, 5, need_convert, need_swap, contig, 0, nbytes, var, 'd', mt, bl, 1] + list(sub[0]) + list(sub[1])
        toks += [ft, coll, em,
                 1 if em == 3 else 0, 0 if em in (3, 5) else nbytes, 0 if em in (3, 5) else nelems, 0 if em == 2 else 1,
                 1 if bl == 1 else 0, bufcount, pertype, xsz]
        self.lines.append(' '.join(str(t) for t in toks))
        self.meta.append(dict(op=op, h=h, nbytes=nbytes, need_swap=need_swap, need_convert=need_convert, contig=contig, imap=0,
                              vard=True, spec_err={1: -209, 2: -230}.get(em, 0), spec_usage=self.usage(), nonlifo=self.nonlifo))
        return True

    def usage(self):
        if self.attached is None:
            return None
        return sum(p['nbytes'] for p in self.pend.values() if p['op'] == 'B')

    def admin(self):
        rng = self.rng
        r = rng.below(10)
        if r < 5:
            if self.attached is None or rng.chance(1, 6):
                n = rng.choice([0, -5, 16, 64, 4096, 8192, 10000, 20000, 40000]) if rng.chance(1, 5) else rng.choice([4096, 8192, 12288, 20000, 40000])
                err = -215 if n <= 0 else (-216 if self.attached is not None else 0)
                self.lines.append('A %d' % n)
                if err == 0:
                    self.attached = n
                self.meta.append(dict(op='A', spec_err=err, spec_usage=self.usage(), nonlifo=self.nonlifo))
                return
        if r < 7:
            err = -217 if self.attached is None else (-218 if any(p['op'] == 'B' for p in self.pend.values()) else 0)
            self.lines.append('D')
            if err == 0:
                self.attached = None
            self.meta.append(dict(op='D', spec_err=err, spec_usage=self.usage(), nonlifo=self.nonlifo))
            return
        self.lines.append('U')
        self.meta.append(dict(op='U', spec_err=0, spec_usage=self.usage(), nonlifo=self.nonlifo))

    def finish_some(self):
        rng = self.rng
        pend = [h for h in self.order if h in self.pend]
        if not pend:
            return
        cancel = rng.chance(1, 5)
        form = rng.below(10)
        writes = [h for h in pend if self.pend[h]['op'] != 'G']
        bputs = [h for h in pend if self.pend[h]['op'] == 'B']
        if form == 0:
            sel, line = pend, '-1'
        elif form == 1 and not cancel:
            sel, line = writes, '-3'
        elif form == 1:
            sel, line = writes, '-3'
        elif form == 2:
            sel = [h for h in pend if self.pend[h]['op'] == 'G']; line = '-2'
        else:
            if self.lifo:
                k = rng.range(1, len(pend))
                sel = pend[-k:]                     # the most recently posted requests: reverse posting order
            else:
                sel = [h for h in pend if rng.chance(1, 2)]
            sel = rng.shuffle(sel)
            line = '%d %s' % (len(sel), ' '.join(str(h) for h in sel))
        # is this completion non-LIFO for the attached buffer? (a bput stays pending behind a completed one)
        selb = set(h for h in sel if self.pend[h]['op'] == 'B')
        remaining = [h for h in bputs if h not in selb]
        if selb and remaining and max(remaining) > min(selb):
            self.nonlifo = True
        self.lines.append(('X ' if cancel else 'W ') + line)
        for h in sel:
            self.pend.pop(h, None)
        self.meta.append(dict(op='X' if cancel else 'W', spec_err=0, n=len(sel), spec_usage=self.usage(), nonlifo=self.nonlifo))

    def build(self, nops):
        rng = self.rng
        for _ in range(nops):
            r = rng.below(20)
            if r < 3:
                self.admin()
            elif r < 6:
                self.data_op('B')
            elif r < 9:
                self.data_op(rng.choice(['I', 'I', 'G']))
            elif r < 11:
                self.data_op(rng.choice(['P', 'P', 'R']))
            elif r < 12:
                self.vard_op(rng.choice(['P', 'P', 'R']))
            elif r < 14 and self.attached is not None:
                self.data_op('B')
            else:
                self.finish_some()
        self.lines.append('W -1'); self.meta.append(dict(op='W', spec_err=0, n=None, spec_usage=0 if self.attached is not None else None, nonlifo=self.nonlifo))
        self.pend = {}
        self.lines.append('U'); self.meta.append(dict(op='U', spec_err=0, spec_usage=self.usage(), nonlifo=self.nonlifo))
        self.lines.append('END'); self.meta.append(dict(op='END'))
        return self.lines, self.meta


def fixed_cases(first):
    cases = []
    # F5: attach 32, bput A 16, bput B 16, wait(A): usage stays 32, a third 16-byte bput is refused
    L = ['CASE %d 0' % first, 'A 32', 'B 0 3 0 0 1 0 16 0 a 0 0 1 0 16', 'B 1 3 0 0 1 0 16 0 a 0 0 1 16 16', 'W 1 0',
         'B 2 3 0 0 1 0 16 0 a 0 0 1 32 16', 'W -1', 'U', 'END']
    M = [dict(op='CASE'), dict(op='A', spec_err=0, spec_usage=0, nonlifo=False),
         dict(op='B', h=0, nbytes=16, spec_err=0, spec_usage=16, nonlifo=False), dict(op='B', h=1, nbytes=16, spec_err=0, spec_usage=32, nonlifo=False),
         dict(op='W', spec_err=0, n=1, spec_usage=16, nonlifo=True),
         dict(op='B', h=2, nbytes=16, spec_err=0, spec_usage=32, nonlifo=True),
         dict(op='W', spec_err=0, n=None, spec_usage=0, nonlifo=True), dict(op='U', spec_err=0, spec_usage=0, nonlifo=True), dict(op='END')]
    cases.append((L, M, {}))
    # regression case for F20 (iget_varn with one sub-request spanning two records overran the caller's buffer;
    # found by this check's guard zones, fixed in /repo by commit e413b55d)
    L = ['CASE %d 0' % (first + 1), 'G 0 5 0 1 1 0 128 7 n 0 0 1 0 0 2 8', 'W 1 0', 'END']
    M = [dict(op='CASE'), dict(op='G', h=0, nbytes=128, spec_err=0, spec_usage=None, nonlifo=False),
         dict(op='W', spec_err=0, n=1, spec_usage=None, nonlifo=False), dict(op='END')]
    cases.append((L, M, {}))
    # the swap-back exits with > 4096 bytes in place (auto hint): blocking put, iput + wait, iput + cancel, each with a
    # predefined buffer type and with a CONTIGUOUS DERIVED buffer type (bufcount = nelems/4 != nelems; seeded change C13-2)
    def mm(op, h):
        return dict(op=op, h=h, nbytes=8192, spec_err=0, spec_usage=None, nonlifo=False)
    L = ['CASE %d 0' % (first + 2), 'P 0 0 0 1 1 0 8192 2 a 0 0 1 0 2048', 'P 3 0 0 1 1 0 8192 2 a 0 4 1 4096 2048',
         'P 5 0 0 1 1 0 8192 4 a 0 8 1 1024 1024',
         'I 1 1 0 1 1 0 8192 2 a 0 0 1 2048 2048', 'I 4 1 0 1 1 0 8192 2 a 0 8 1 6144 2048',
         'I 2 1 0 1 1 0 8192 4 a 0 0 1 0 1024', 'I 6 1 0 1 1 0 8192 4 a 0 4 1 2048 1024', 'W 2 1 4', 'X 2 2 6', 'END']
    M = [dict(op='CASE'), mm('P', 0), mm('P', 3), mm('P', 5), mm('I', 1), mm('I', 4), mm('I', 2), mm('I', 6),
         dict(op='W', spec_err=0, n=2, spec_usage=None, nonlifo=False), dict(op='X', spec_err=0, n=2, spec_usage=None, nonlifo=False), dict(op='END')]
    # the same with hint nc_in_place_swap=enable and a small request (64 bytes)
    L2 = ['CASE %d 1' % (first + 3), 'P 0 0 0 1 1 0 64 2 a 0 4 1 0 16', 'P 1 0 0 1 1 0 64 1 a 0 8 1 0 32',
          'I 2 1 0 1 1 0 64 4 a 0 4 1 0 8', 'W 1 2', 'END']
    M2 = [dict(op='CASE'), dict(op='P', h=0, nbytes=64, spec_err=0, spec_usage=None, nonlifo=False),
          dict(op='P', h=1, nbytes=64, spec_err=0, spec_usage=None, nonlifo=False), dict(op='I', h=2, nbytes=64, spec_err=0, spec_usage=None, nonlifo=False),
          dict(op='W', spec_err=0, n=1, spec_usage=None, nonlifo=False), dict(op='END')]
    cases.append((L2, M2, {}))
    # a buffered put larger than 4096 bytes (auto hint), completed by wait and by cancel: the caller's buffer, overwritten
    # by the caller right after posting, must never be touched again (seeded change C13-1: bput flagged "swapped in place")
    L3 = ['CASE %d 0' % (first + 4), 'A 40000', 'B 0 3 0 1 1 0 8192 2 a 0 0 1 0 2048', 'B 1 3 0 1 1 0 8192 2 a 0 4 1 2048 2048',
          'B 2 3 0 1 1 0 8192 4 a 0 0 1 0 1024', 'W 2 1 0', 'X 1 2', 'END']
    M3 = [dict(op='CASE'), dict(op='A', spec_err=0, spec_usage=0, nonlifo=False),
          dict(op='B', h=0, nbytes=8192, spec_err=0, spec_usage=8192, nonlifo=False), dict(op='B', h=1, nbytes=8192, spec_err=0, spec_usage=16384, nonlifo=False),
          dict(op='B', h=2, nbytes=8192, spec_err=0, spec_usage=24576, nonlifo=False),
          dict(op='W', spec_err=0, n=2, spec_usage=8192, nonlifo=True), dict(op='X', spec_err=0, n=1, spec_usage=0, nonlifo=True), dict(op='END')]
    cases.append((L3, M3, {}))
    cases.append((L, M, {}))
    # put_vard / get_vard (seeded change C13-4: swap-back counted instances of buftype instead of elements): in-place
    # swapped buffers described by contiguous derived types, independent and collective, fixed and record variables,
    # every filetype construction, then the exits without I/O
    def vline(op, h, var, bl, st, ct, ft, coll, em):
        nel = 1
        for c in ct:
            nel *= c
        xsz = VXSZ[var]
        pertype = {0: 1, 1: 1, 2: nel, 4: 4, 5: 1, 6: nel, 7: 4, 8: 4}[bl]
        bc = {0: nel, 1: 0, 2: 1, 4: nel // 4, 5: nel, 6: 1, 7: nel // 4, 8: nel // 4}[bl]
        bc = bc + 1 if em == 1 else (0 if em == 4 else bc)
        ns = 0 if var == 0 else 1
        toks = [op, h, 5, 0, ns, 1 if bl in (0, 1, 4, 8) else 0, 0, nel * xsz, var, 'd', 0, bl, 1] + st + ct + [
            ft, coll, em, 1 if em == 3 else 0, 0 if em in (3, 5) else nel * xsz, 0 if em in (3, 5) else nel, 0 if em == 2 else 1,
            1 if bl == 1 else 0, bc, pertype, xsz]
        return (' '.join(str(t) for t in toks),
                dict(op=op, h=h, nbytes=nel * xsz, vard=True, spec_err={1: -209, 2: -230}.get(em, 0), spec_usage=None, nonlifo=False))
    for k, hint in ((5, 0), (6, 1)):
        big = (hint == 0)
        n4, n8 = (2048, 1024) if big else (16, 8)
        ops = [vline('P', 0, 2, 4, [0], [n4], 0, 1, 0), vline('P', 1, 4, 8, [0], [n8], 1, 0, 0),
               vline('P', 2, 2, 0, [n4], [n4], 2, 1, 0), vline('P', 3, 7, 4, [3, 0], [65 if big else 1, 8], 0, 1, 0),
               vline('P', 4, 8, 8, [3, 0, 0], [22 if big else 1, 6, 8], 1, 0, 0), vline('P', 5, 6, 4, [0, 0], [33 if big else 1, 64], 0, 0, 0),
               vline('P', 6, 3, 1, [0], [n4], 2, 0, 0), vline('P', 7, 2, 5, [2 * n4], [n4], 1, 1, 0),
               vline('P', 8, 2, 4, [0], [n4], 0, 1, 1), vline('P', 9, 2, 4, [0], [n4], 0, 0, 2), vline('P', 10, 2, 4, [0], [n4], 1, 1, 3),
               vline('P', 11, 2, 4, [0], [n4], 0, 1, 4), vline('P', 12, 4, 8, [0], [n8], 1, 0, 1),
               vline('R', 13, 2, 4, [0], [n4], 0, 1, 0), vline('R', 14, 4, 8, [0], [n8], 1, 0, 0), vline('R', 15, 7, 4, [0, 0], [3, 8], 1, 1, 0),
               vline('R', 16, 2, 4, [0], [n4], 0, 0, 1), vline('R', 17, 2, 0, [0], [n4], 0, 1, 2), vline('R', 18, 2, 4, [0], [n4], 0, 0, 3)]
        cases.append((['CASE %d %d' % (first + k, hint)] + [o[0] for o in ops] + ['END'],
                      [dict(op='CASE')] + [o[1] for o in ops] + [dict(op='END')], {}))
    return cases


def field(line, key):
    for t in line.split():
        if t.startswith(key + '='):
            return t[len(key) + 1:]
    return None


def judge_case(out, metas):
    """first property deviation of one case: (signature, description) or None"""
    i = 0
    flags = metas[0]
    for m in metas:
        if i >= len(out):
            return ('harness-output-truncated', m['op'])
        # D lines belong to the preceding op
        if m['op'] == 'END':
            ds = []
            while i < len(out) and out[i].startswith('DE '):
                ds.append(out[i]); i += 1
            if i < len(out) and out[i] == 'END':
                i += 1
            for d in ds:
                if flags.get('varn_multirec') and 'guard-overwritten' in d:
                    return ('varn-multirecord-buffer-overflow', d)
                return ('end-of-case:' + d.split()[1], d)
            continue
        line = out[i]; i += 1
        ds = []
        while i < len(out) and out[i].startswith('D '):
            ds.append(out[i]); i += 1
        if m['op'] == 'CASE':
            if ds:
                return ('harness-setup', ds[0])
            continue
        err = int(field(line, 'err') or 0)
        usage = field(line, 'usage')
        for d in ds:
            if flags.get('varn_multirec') and ('guard-overwritten' in d or 'read-buffer-wrong' in d):
                return ('varn-multirecord-buffer-overflow', d)
            return (d.split()[1], d)
        if m['op'] in ('A', 'D') and err != m['spec_err']:
            return ('attach-detach-error-code', '%s expected err=%d' % (line.split(' | ')[0], m['spec_err']))
        if m['op'] == 'B' and err != m['spec_err']:
            if err == -219 and m['spec_err'] == 0 and m['nonlifo']:
                return ('einsuffbuf-with-free-space', '%s: the pending buffered puts leave room for %d bytes (spec usage %s)'
                        % (line.split(' | ')[0], m['nbytes'], m['spec_usage'] - m['nbytes'] if m['spec_usage'] is not None else None))
            return ('bput-error-code', '%s expected err=%d' % (line.split(' | ')[0], m['spec_err']))
        if m.get('vard'):
            if err != m['spec_err']:
                return ('vard-error-code', '%s expected err=%d' % (line.split(' | ')[0], m['spec_err']))
        elif m['op'] in 'PRIG' and len(m['op']) == 1 and err != 0:
            return ('data-op-error', line.split(' | ')[0])
        su = m.get('spec_usage')
        want = ('E-217' if su is None else str(su))
        if usage != want:
            if su is not None and usage is not None and not usage.startswith('E') and int(usage) > su and m['nonlifo']:
                return ('abuf-space-not-reclaimed-non-lifo', '%s | usage=%s, pending buffered puts hold %d bytes' % (line.split(' | ')[0], usage, su))
            return ('usage-mismatch', '%s | usage=%s expected %s' % (line.split(' | ')[0], usage, want))
    return None


def split_cases(lines):
    cases, cur = [], None
    for l in lines:
        if l.startswith('CASE '):
            cur = []
            cases.append(cur)
        if cur is not None:
            cur.append(l)
    return cases


LEAN_FILES = ['PnVerif/Model/Abuf.lean', 'PnVerif/Lemmas/AbufLemmas.lean', 'PnVerif/Props/C13.lean', 'Driver/C13.lean']


def run_check(tier, seed):
    V = Verdict(PROP, tier, seed)
    rng = SplitMix64(seed * 7777 + 13)
    V.assumptions = [
        'MPI_Pack/MPI_Unpack with the buffer datatype / imap datatype gather and scatter exactly the type map (not modelled; the harness checks the resulting bytes)',
        'the model covers the buffer-selection decision, the swap flag, ncmpii_in_swapn and the attached-buffer allocator; type conversion itself is property C09',
        'the occupy table is modelled by its live prefix occupy_table[0..tail-1]; table growth by NC_ABUF_DEFAULT_TABLE_SIZE (realloc) is memory management and not modelled',
        'a pending iget that is never named is kept in every case so that the extract_reqs shortcuts (C02 finding F4) cannot complete requests the script did not name',
    ]
    V.cov['trusted_base'] = TRUSTED_BASE_COMMON + ['harness/c13_buf.c (incl. its PMPI wrappers of MPI_File_write* / MPI_File_read*) and the generator in checks/c13.py (differential, not proof)',
                                                   'Lean driver lean/Driver/C13.lean (parsing/printing only)']
    tree = build_impl('plain')
    wd = workdir('c13')
    try:
        ok, out = lake_build(['PnVerif.Props.C13', 'c13drv'])
        failed_thms = set()
        if not ok:
            for f, ln, msg in lake_errors(out):
                t = theorem_at(f, ln)
                if t:
                    failed_thms.add(t)
            log('[S3] lake build FAILED; theorems that no longer check:', sorted(failed_thms)[:20])
        obl = obligations_of('PnVerif/Props/C13.lean')
        discharged, bad = axiom_audit('PnVerif.Props.C13', obl, 'PnVerif.Props.C13') if ok else ([], [])
        forb = grep_forbidden([os.path.join(LEAN, f) for f in LEAN_FILES])
        V.cov['obligations'] = len(obl)
        V.cov['discharged'] = len(discharged)
        V.cov['checker_cmd'] = 'cd lean && lake build PnVerif.Props.C13 c13drv && lake env lean <#print axioms of every name in Props.C13.obligations>'
        if tier == 'thorough' and ok:
            lc = leanchecker(['PnVerif.Props.C13'])
            V.cov['leanchecker'] = 'ok' if not lc else str(lc)
            if lc:
                bad.append(('leanchecker', lc))
        proof_broken = (not ok) or bad or forb or not obl
        drv = os.path.join(LEAN, '.lake/build/bin/c13drv')
        inc = ['-DHAVE_CONFIG_H', '-I' + os.path.join(tree, 'src/drivers/ncmpio'), '-I' + os.path.join(tree, 'src/drivers/include'),
               '-I' + os.path.join(tree, 'src/include')]
        try:
            exe = cc(tree, [os.path.join(VERIF, 'harness/c13_buf.c')], os.path.join(wd, 'c13_buf'), extra=inc)
        except BuildFailed as ex:
            V.broken_tie('harness c13_buf.c no longer compiles against the tree', str(ex)[-1500:])
            return V.finish()
        ncases = 400 if tier == "quick" else 8000
        lines, metas = [], []
        # probe: vard with a filetype of size 0, in its own process
        global EM5_OK
        pscript = os.path.join(wd, 'probe.txt'); pout = os.path.join(wd, 'probe.out')
        open(pscript, 'w').write('\n'.join(PROBE_EM5) + '\n')
        prc, pso, pse = mpirun(1, [exe, pscript, pout, wd], timeout=120)
        plines = [l for l in open(pout).read().split('\n') if l] if os.path.exists(pout) else []
        pmod = subprocess.run([drv], input='\n'.join(PROBE_EM5) + '\n', stdout=subprocess.PIPE, stderr=subprocess.PIPE, text=True).stdout.split('\n') if os.path.exists(drv) else []
        pmod = [l for l in pmod if l]
        EM5_OK = (prc == 0 and plines == pmod)
        probe_fail = None
        if not EM5_OK:
            done = len([l for l in plines if l[:2] in ('R ', 'P ')])
            probe_fail = ('vard-zero-size-filetype-uninitialized',
                          'vard call with a committed filetype of size 0 (zero-length request): %s; first differing / missing answer is op %d of the probe: %s'
                          % ('harness rc=%s %s' % (prc, ' '.join((pse or pso or '').split())[-200:]) if prc != 0 else 'answers differ from the model',
                             done, PROBE_EM5[min(done + 1, len(PROBE_EM5) - 1)]),
                          dict(script=PROBE_EM5, rc=prc, answers=plines, model=pmod))
        log('[S4] probe (vard, filetype of size 0): %s' % ('ok' if EM5_OK else 'FAILS'))
        # unit: ncmpii_in_swapn on random byte strings
        nsw = 200 if tier == 'quick' else 3000
        for k in range(nsw):
            es = rng.choice([0, 1, 2, 2, 3, 4, 4, 5, 7, 8, 8, 16])
            ne = rng.range(0, 9) if rng.chance(9, 10) else -1
            nb = max(es, 1) * max(ne, 0) + rng.choice([0, 0, 3])
            hx = ''.join('%02x' % rng.below(256) for _ in range(nb)) or '00'
            lines.append('S %d %d %s' % (es, ne, hx))
        caseno = 0
        for L, M, fl in sorted(fixed_cases(0), key=lambda c: int(c[0][0].split()[1])):
            lines += L; metas.append(M); caseno += 1
        for c in range(ncases):
            g = CaseGen(rng, caseno, lifo=rng.chance(1, 2)); caseno += 1
            L, M = g.build(rng.range(4, 24))
            lines += L; metas.append(M)
        script = os.path.join(wd, 'c13.txt')
        open(script, 'w').write('\n'.join(lines) + '\n')
        outp = os.path.join(wd, 'c13.out')
        rc, so, se = mpirun(1, [exe, script, outp, wd], timeout=900)
        tie_diffs, fails, dist, nontrivial = [], [], {}, set()
        co = [l for l in open(outp).read().split('\n') if l] if os.path.exists(outp) else []
        if rc != 0:
            lastcase = max([int(l.split()[1]) for l in co if l.startswith('CASE ')] + [-1])
            fails.append(('library-crash', 'harness c13_buf ended with rc=%s in case %d: %s' % (rc, lastcase, (se or so)[-300:]),
                          dict(rc=rc, case=lastcase, script=[l for l in _case_lines(lines, lastcase)])))
        pm = subprocess.run([drv], input='\n'.join(lines) + '\n', stdout=subprocess.PIPE, stderr=subprocess.PIPE, text=True) if os.path.exists(drv) else None
        mo = [l for l in pm.stdout.split('\n') if l] if pm else []
        cnd = [l for l in co if not l.startswith('D ') and not l.startswith('DE ')]
        if rc == 0 and len(cnd) != len(mo):
            tie_diffs.append(('implementation lines %d, model lines %d' % (len(cnd), len(mo)),))
        for a, b in zip(cnd, mo):
            if a != b:
                tie_diffs.append((a, b))
        for a in cnd:
            tg = a.split()[0]
            dist[tg] = dist.get(tg, 0) + 1
            if 'xbuf=user' in a and 'swapped=1' in a:
                dist['in-place-swap'] = dist.get('in-place-swap', 0) + 1; nontrivial.add(a)
            if ' cnt=' in a:
                dist['vard-put'] = dist.get('vard-put', 0) + 1
                if 'xbuf=user' in a and 'swapped=1' in a:
                    dist['vard-put-in-place-swap'] = dist.get('vard-put-in-place-swap', 0) + 1
                    c = field(a, 'cnt')
                    if c not in (None, '-'):
                        nontrivial.add(a)
                if 'err=0' not in a:
                    dist['vard-put-refused'] = dist.get('vard-put-refused', 0) + 1; nontrivial.add(a)
            if a.startswith('R ') and ' xbuf=' in a:
                dist['vard-get'] = dist.get('vard-get', 0) + 1
                if 'err=0' not in a:
                    dist['vard-get-refused'] = dist.get('vard-get-refused', 0) + 1; nontrivial.add(a)
            if a.startswith('B ') and 'err=-219' in a:
                dist['bput-refused'] = dist.get('bput-refused', 0) + 1; nontrivial.add(a)
            if ('[0.' in a or ' 0.' in a.split('abuf=')[-1].split(']')[0]) and 'abuf=none' not in a:
                dist['hole-in-table'] = dist.get('hole-in-table', 0) + 1; nontrivial.add(a)
            if a.startswith('S ') and len(a) > 6:
                nontrivial.add(a)
        if rc == 0:
            ccases = split_cases(co)
            if len(ccases) != len(metas):
                tie_diffs.append(('%d cases in output, %d generated' % (len(ccases), len(metas)),))
            else:
                for ci, (cl_out, cm) in enumerate(zip(ccases, metas)):
                    v = judge_case(cl_out, cm)
                    if v:
                        fails.append((v[0], v[1], dict(case=ci, script=_case_lines(lines, ci))))
                        dist['deviation:' + v[0]] = dist.get('deviation:' + v[0], 0) + 1
        log('[S4] %d cases, %d result lines, %d tie differences, %d property deviations' % (caseno, len(cnd), len(tie_diffs), len(fails)))
        V.cov['evaluations'] = len(cnd)
        V.cov['distinct_nontrivial'] = len(nontrivial)
        V.cov['traces_validated_against_impl'] = len(cnd) - len(tie_diffs)
        V.cov['rule'] = ('random histories of attach/detach/inq/bput/iput/iget/blocking put+get/wait_all/cancel (explicit shuffled lists, NC_REQ_ALL/GET/PUT) over 7 variables of 6 external types; '
                         'request sizes 8..8192 bytes around NC_BYTE_SWAP_BUFFER_SIZE=4096, hints nc_in_place_swap=auto/enable/disable, native / converting memory types, contiguous / MPI_Type_vector buffers with gaps, imap (transposed), varn; '
                         'ncmpi_put_vard/get_vard and _all with filetypes (subarray / nested hvector / contiguous run on the element type) on fixed and record variables, all buffer layouts, sizes around 4096 bytes, and the exits NC_EIOMISMATCH / NC_ETYPE_MISMATCH / zero-length (error code, buffer handed to MPI-IO, the count MPI_File_write_at receives, user buffer byte for byte, file unchanged by refused puts, reads fill exactly the selection); '
                         'half of the cases complete requests in reverse posting order (the histories of usage_eq_pending_partial), the others in arbitrary order; plus ncmpii_in_swapn on random byte strings for element sizes 0..16. '
                         'non-trivial = a result line with an in-place swapped user buffer, a refused bput, a hole (freed but unreclaimed entry) in the occupy table, or a swapn string; distinct = distinct result lines')
        V.cov['distribution'] = dist
        V.cov['samples'] = [lines[0], lines[1]] + _case_lines(lines, 0)[:9] + _case_lines(lines, 5)[:8]
        new_fail = 0
        if probe_fail:
            fails.insert(0, probe_fail)
            dist['deviation:' + probe_fail[0]] = 1
        for sig, desc, rep in fails:
            if V.failing_input(sig, desc, rep, tag='buf%d' % new_fail):
                new_fail += 1
                if new_fail >= 5:
                    break
        if new_fail == 0:
            if tie_diffs:
                V.broken_tie('correspondence stream buf: model and implementation differ', [list(map(str, t)) for t in tie_diffs[:10]])
            if proof_broken:
                V.broken_tie('proof obligations no longer check',
                             dict(failed_theorems=sorted(failed_thms), axiom_audit=[(a, str(b)) for a, b in bad[:10]], forbidden=forb[:10],
                                  lake_tail=out[-1500:] if not ok else ''))
        return V.finish()
    finally:
        cleanup(wd)


def _case_lines(lines, ci):
    k = -1
    res = []
    for l in lines:
        if l.startswith('CASE '):
            k += 1
        if k == ci and not l.startswith('S '):
            res.append(l)
    return res


if __name__ == '__main__':
    tier, seed, replay = args(sys.argv[1:])
    sys.exit(run_check(tier, seed))
