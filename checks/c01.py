#!/usr/bin/env python3
"""C01 — blocking put/get round-trip fidelity for every access pattern (DESIGN.md §4 C01)."""
import os, sys, json, subprocess, itertools
sys.path.insert(0, os.path.dirname(os.path.abspath(__file__)))
from common import *
import apigen, apicmp

PROP = 'C01'


def sf_lines(rng, tier):
    """inputs of stride_flatten: exhaustive for small shapes (reachable calls only: 'true vars' requests,
    i.e. some dimension with count > 1 and stride > 1), plus seeded random larger ones"""
    lines = []
    maxn = 4 if tier == 'thorough' else 3
    for nd in (1, 2, 3):
        dims_range = range(1, maxn + 1)
        shapes = list(itertools.product(dims_range, repeat=nd))
        if nd == 3 and tier != 'thorough':
            shapes = [s for s in shapes if max(s) <= 3][::2]
        for shape in shapes:
            for isrec in (0, 1):
                xsz = rng.choice([1, 2, 4, 8])
                inner = 1
                for n in shape[1:]:
                    inner *= n
                recsize = inner * xsz + (rng.choice([0, 4, 12]) if isrec else 0)
                per_dim = []
                for d, n in enumerate(shape):
                    opts = []
                    nn = n if not (isrec and d == 0) else maxn
                    for s in range(nn):
                        for k in range(1, nn + 1):
                            for c in range(1, nn + 1):
                                if s + (c - 1) * k < nn:
                                    opts.append((s, c, k))
                    per_dim.append(opts)
                combos = list(itertools.product(*per_dim))
                if len(combos) > 60:
                    combos = [combos[rng.below(len(combos))] for _ in range(60)]
                for combo in combos:
                    if not any(c > 1 and k > 1 for (s, c, k) in combo):
                        continue
                    st = [x[0] for x in combo]; ct = [x[1] for x in combo]; sd = [x[2] for x in combo]
                    lines.append('SF %d %d %d %d %s %s %s %s' % (isrec, xsz, recsize, nd, ' '.join(map(str, shape)),
                                                               ' '.join(map(str, st)), ' '.join(map(str, ct)), ' '.join(map(str, sd))))
    # larger random shapes (offsets beyond 2^31 / 2^32 too: C18's large_offsets_correct is this theorem unbounded)
    for _ in range(400 if tier == 'thorough' else 80):
        nd = rng.range(1, 5)
        shape = [rng.choice([2, 3, 7, 100, 70000]) for _ in range(nd)]
        isrec = rng.below(2)
        xsz = rng.choice([1, 2, 4, 8])
        inner = 1
        for n in shape[1:]:
            inner *= n
        if inner * xsz * max(shape[0], 1000) >= (1 << 62):
            continue        # not a legal variable: its size would not fit 63 bits (C18 rejects it at enddef)
        recsize = inner * xsz + (rng.choice([0, 4, 1 << 33]) if isrec else 0)
        st, ct, sd = [], [], []
        for d, n in enumerate(shape):
            nn = n if not (isrec and d == 0) else 1000
            k = rng.range(1, 3)
            c = rng.range(1, min(3, (nn + k - 1) // k))
            s = rng.range(0, nn - 1 - (c - 1) * k)
            st.append(s); ct.append(c); sd.append(k)
        if not any(c > 1 and k > 1 for c, k in zip(ct, sd)):
            d = rng.below(nd)
            nn = shape[d] if not (isrec and d == 0) else 1000
            if nn >= 3:
                st[d], ct[d], sd[d] = 0, 2, 2
            else:
                continue
        lines.append('SF %d %d %d %d %s %s %s %s' % (isrec, xsz, recsize, nd, ' '.join(map(str, shape)),
                                                   ' '.join(map(str, st)), ' '.join(map(str, ct)), ' '.join(map(str, sd))))
    # is_request_contiguous: every (start, count) inside every shape up to 3 dims x 3 (thorough 4), fixed and record
    # variables, one or several record variables, plus zero-length requests
    for nd in (1, 2, 3):
        for shape in itertools.product(range(1, maxn + 1), repeat=nd):
            if nd == 3 and tier != 'thorough' and max(shape) > 3:
                continue
            per = []
            for n in shape:
                per.append([(s0, c0) for s0 in range(n) for c0 in range(0, n - s0 + 1)])
            combos = list(itertools.product(*per))
            if len(combos) > 40:
                combos = [combos[rng.below(len(combos))] for _ in range(40)]
            for combo in combos:
                for isrec, nrv in ((0, 0), (1, 1), (1, 2)):
                    lines.append('RC %d %d %d %s %s %s' % (isrec, nrv, nd, ' '.join(map(str, shape)), ' '.join(str(x[0]) for x in combo),
                                                          ' '.join(str(x[1]) for x in combo)))
    for _ in range(600 if tier == 'thorough' else 150):
        nd = rng.range(1, 5)
        shape = [rng.choice([1, 2, 3, 7, 100, 70000]) for _ in range(nd)]
        isrec = rng.below(2)
        xsz = rng.choice([1, 2, 4, 8])
        # keep the variable (and a record index times any record size used below) inside the signed 64-bit range of MPI_Offset:
        # larger offsets are not representable in the C function under test (C18 is about what enddef accepts there)
        tot = xsz
        for n in shape:
            tot *= n
        if tot >= 2 ** 40:
            shape = [min(n, 100) for n in shape]
        st = [rng.range(0, n - 1) for n in shape]
        lines.append('FO %d %d %d %d %d %s %s' % (isrec, xsz, rng.choice([64, 1 << 20, 1 << 34]), rng.choice([0, 512, 1 << 32]), nd,
                                               ' '.join(map(str, shape)), ' '.join(map(str, st))))
    return lines


def run_check(tier, seed):
    V = Verdict(PROP, tier, seed)
    rng = SplitMix64(seed * 104729 + 1)
    V.assumptions = [
        'MPI semantics assumed, not proved: MPI_Type_create_subarray / hvector / hindexed typemaps, MPI_File_set_view + read/write_at(_all) scatter/gather along the view (OpenMPI + ROMIO run by the harness)',
        'hand-written models (Model/Access.lean: strideFlatten, firstOffset) tied to ncmpio_filetype.c / ncmpio_util.c by the unit correspondence stream; the blocking pipeline as a whole (put_varm/get_varm, pack/convert/swap, imap, buftype) is tied to the abstract dataset specification (Spec/Dataset.lean) by the API-level stream, not modelled line by line',
        'values in the API stream are integers exactly representable in every type involved (conversion is C09)',
    ]
    V.cov['trusted_base'] = TRUSTED_BASE_COMMON + ['harness/apirun.c, harness/c01_unit.c, checks/apigen.py (generators)', 'lean/Driver/Api.lean + Spec/Dataset.lean (the specification the implementation is compared with)']
    tree = build_impl('plain')
    wd = workdir('c01')
    try:
        ok, out = lake_build(['PnVerif.Props.C01', 'c01drv', 'apidrv'])
        obl = obligations_of('PnVerif/Props/C01.lean')
        discharged, bad = ([], [])
        failed_thms = set()
        if ok:
            discharged, bad = axiom_audit('PnVerif.Props.C01', obl, 'PnVerif.Props.C01')
        else:
            for f, ln, msg in lake_errors(out):
                t = theorem_at(f, ln)
                if t:
                    failed_thms.add(t)
        forb = grep_forbidden([os.path.join(LEAN, p) for p in ('PnVerif/Model/Access.lean', 'PnVerif/Lemmas/Access.lean', 'PnVerif/Lemmas/AccessInj.lean',
                                                               'PnVerif/Base/File.lean', 'PnVerif/Props/C01.lean', 'PnVerif/Spec/Dataset.lean', 'Driver/Api.lean', 'Driver/C01.lean')])
        V.cov['obligations'] = len(obl)
        V.cov['discharged'] = len(discharged)
        V.cov['checker_cmd'] = 'cd lean && lake build PnVerif.Props.C01 c01drv apidrv && lake env lean <#print axioms of every obligation>'
        if tier == 'thorough' and ok:
            lc = leanchecker(['PnVerif.Props.C01'])
            V.cov['leanchecker'] = 'ok' if not lc else str(lc)
            if lc:
                bad.append(('leanchecker', lc))
        proof_broken = (not ok) or bad or forb
        drv = os.path.join(LEAN, '.lake/build/bin/c01drv')
        if not os.path.exists(drv) or not os.path.exists(apicmp.APIDRV):
            V.broken_tie('Lean drivers do not build', out[-1500:])
            return V.finish()
        # ---- S4a unit correspondence: stride_flatten / first_offset
        uexe = os.path.join(wd, 'c01u')
        cc(tree, [os.path.join(VERIF, 'harness/c01_unit.c')], uexe,
           extra=['-DHAVE_CONFIG_H', '-I' + os.path.join(tree, 'src/drivers/ncmpio'), '-I' + os.path.join(tree, 'src/drivers/include'),
                  '-I' + os.path.join(tree, 'src/include')])
        lines = sf_lines(rng, tier)
        inp = '\n'.join(lines) + '\n'
        pc = subprocess.run([uexe], input=inp, stdout=subprocess.PIPE, stderr=subprocess.PIPE, text=True)
        pl = subprocess.run([drv], input=inp, stdout=subprocess.PIPE, stderr=subprocess.PIPE, text=True)
        co, lo = pc.stdout.split('\n'), pl.stdout.split('\n')
        tie_diffs, nfail, distinct = [], 0, set()
        if pc.returncode != 0 or len(co) < len(lines) or len(lo) < len(lines):
            V.broken_tie('unit harness/driver crashed', 'C rc=%s Lean rc=%s %s' % (pc.returncode, pl.returncode, (pc.stderr + pl.stderr)[-500:]))
            return V.finish()
        for i, line in enumerate(lines):
            if line.startswith('SF'):
                parts = lo[i].split(' | ')
                model, spec = parts[0].strip(), parts[1].strip() if len(parts) > 1 else ''
                impl = co[i].strip()
                # element offsets implied by the implementation's (seglen, disps)
                it = impl.split()
                xsz = int(line.split()[2])
                seg, disps = int(it[0]), [int(x) for x in it[2:]]
                impl_elems = ' '.join(str(d + j * xsz) for d in disps for j in range(seg // xsz))
                if impl_elems != spec:
                    if V.failing_input('C01:stride_flatten', 'stride_flatten addresses %s, the format specification says %s' % (impl_elems[:200], spec[:200]),
                                       dict(line=line, impl=impl, spec=spec, harness='harness/c01_unit.c'), tag='sf%d' % nfail):
                        nfail += 1
                elif impl != model:
                    tie_diffs.append((line, impl, model))
                distinct.add(line)
            elif line.startswith('RC'):
                m, really = lo[i].split()
                impl = co[i].strip()
                t = line.split()
                zero = any(x == '0' for x in t[4 + 2 * int(t[3]):])
                if impl == '1' and really == '0' and not zero:
                    if V.failing_input('C01:is_request_contiguous', 'is_request_contiguous answers "contiguous" for a request whose elements are not one run in the file',
                                       dict(line=line, impl=impl, model=m), tag='rc%d' % nfail):
                        nfail += 1
                elif impl != m:
                    tie_diffs.append((line, impl, m))
                distinct.add(line)
            else:
                m, s = lo[i].split()
                if co[i].strip() != s:
                    if V.failing_input('C01:first_offset', 'ncmpio_first_offset gives %s, specification %s' % (co[i].strip(), s),
                                       dict(line=line, impl=co[i].strip(), spec=s), tag='fo%d' % nfail):
                        nfail += 1
                elif co[i].strip() != m:
                    tie_diffs.append((line, co[i].strip(), m))
                distinct.add(line)
            if nfail >= 5:
                break
        n_unit = len(lines)
        # ---- S4b API-level stream against the abstract specification
        exe = apicmp.build_apirun(tree, wd)
        nprog = 150 if tier == 'thorough' else 36
        tags, api_lines, api_fail = {}, 0, 0
        samples = []
        for k in range(nprog):
            nprocs = rng.choice([1, 2, 2, 3, 4] if tier == 'thorough' else [1, 2, 2, 3])
            if nprocs >= 2 and k % 3 == 2:
                # every fourth multi-rank program goes through the intra-node aggregation write path (a second implementation of
                # request flattening / merging that only runs with this hint), with larger strided collective writes
                p = apigen.gen_rw_program(rng, 'c01_%d.nc' % k, nprocs, hints='nc_num_aggrs_per_node=%d' % rng.range(1, nprocs - 1), big=True)
                p.tags.add('intra-node-aggregation')
            elif k % 5 == 1:
                # the in-place byte-swap shortcut of the blocking put path (hint forces it for every request size): derived,
                # non-contiguous buffer types must not take it
                p = apigen.gen_rw_program(rng, 'c01_%d.nc' % k, nprocs, hints='nc_in_place_swap=enable')
                p.tags.add('in-place-swap-enabled')
            else:
                p = apigen.gen_rw_program(rng, 'c01_%d.nc' % k, nprocs)
            text = p.text()
            rc, impl, spec, err = apicmp.run_both(exe, text, nprocs, wd, tag='p%d' % k)
            mism = apicmp.compare(spec, impl)
            bv = apicmp.buffer_violations(impl)
            api_lines += len(impl)
            for t in p.tags:
                tags[t] = tags.get(t, 0) + 1
            if k < 2:
                samples.append(text.split('\n')[:14])
            if rc != 0 or mism or bv:
                def still(t, nprocs=nprocs):
                    rc2, i2, s2, _ = apicmp.run_both(exe, t, nprocs, wd, tag='shr')
                    return rc2 != 0 or bool(apicmp.compare(s2, i2)) or bool(apicmp.buffer_violations(i2))
                small = apicmp.shrink(exe, text, nprocs, wd, still, budget=40 if tier == 'quick' else 120)
                rc3, i3, s3, e3 = apicmp.run_both(exe, small, nprocs, wd, tag='shr')
                m3 = apicmp.compare(s3, i3)
                what = ('rc=%s ' % rc3) + ('; '.join('spec[%s] impl[%s]' % (a[1], a[2]) for a in m3[:3])) + (' buffer:%s' % apicmp.buffer_violations(i3)[:2])
                if V.failing_input('C01:api', 'blocking put/get program disagrees with the dataset specification: ' + what[:600],
                                   dict(script=small, nprocs=nprocs, mismatches=m3[:5], rc=rc3, stderr=e3[-400:],
                                        replay='mpiexec -n %d apirun <script> out ; lean/.lake/build/bin/apidrv <script> %d' % (nprocs, nprocs)),
                                   tag='api%d' % api_fail):
                    api_fail += 1
                if api_fail >= 3:
                    break
        # ---- S4c "mix" programs: varn calls with many permuted segments, several interleaving nonblocking requests per wait
        nmix = 120 if tier == 'thorough' else 40
        mlines, mtags, mfail, _ = apicmp.run_programs(
            V, exe, wd, ((apigen.gen_mix_program(rng, 'c01m_%d.nc' % k, n_, focus=[None, None, 'burst', 'recvarn'][k % 4]), n_) for k in range(nmix) for n_ in [rng.choice([1, 1, 2, 3])]),
            tier, 'C01:api-mix', 'multi-request program (varn segments / interleaving nonblocking requests) disagrees with the dataset specification',
            tagprefix='mix') if api_fail < 3 else (0, {}, 0, 0)
        api_lines += mlines
        api_fail += mfail
        for t, c in mtags.items():
            tags[t] = tags.get(t, 0) + c
        nprog += nmix
        V.cov['evaluations'] = n_unit + api_lines
        V.cov['distinct_nontrivial'] = len(distinct) + sum(1 for t in tags.values() if t)
        V.cov['traces_validated_against_impl'] = nprog
        V.cov['rule'] = ('unit: every reachable stride_flatten call for shapes up to 3 dims x %d (fixed and record variables, xsz 1/2/4/8, packed and unpacked records) '
                         'plus seeded random large shapes (offsets beyond 2^32), ncmpio_first_offset on random starts; API: seeded random programs (schema, phases of '
                         'collective/independent writes of every form var/var1/vara/vars/varm(imap)/varn typed and flexible with vector buffer types, split over 1-4 ranks incl. '
                         'zero-length participation, reads of every form, close/reopen) compared line by line with the abstract dataset specification. non-trivial = distinct '
                         'unit input lines + distinct branch tags reached by the API programs' % (4 if tier == 'thorough' else 3))
        V.cov['distribution'] = dict(unit_lines=n_unit, api_programs=nprog, api_result_lines=api_lines, api_tags=tags)
        V.cov['samples'] = [lines[0], lines[len(lines) // 2]] + samples + [
            'theorem strideFlatten_offsets: (expandBlocks v.xsz (strideFlatten v s c k).1 (strideFlatten v s c k).2).map (v.begin + ·) = (enumIdx s c k).map (elemOff v)']
        if nfail == 0 and api_fail == 0:
            if tie_diffs:
                V.broken_tie('correspondence stream unit(stride_flatten/first_offset): model and implementation differ', tie_diffs[:10])
            if proof_broken:
                V.broken_tie('proof obligations no longer check', dict(failed_theorems=sorted(failed_thms), axiom_audit=bad[:10], forbidden=forb[:10], lake_tail=out[-1500:] if not ok else ''))
        return V.finish()
    finally:
        cleanup(wd)


if __name__ == '__main__':
    tier, seed, replay = args(sys.argv[1:])
    sys.exit(run_check(tier, seed))
