#!/usr/bin/env python3
"""C11 — I/O failures are never silently dropped (DESIGN.md §4 C11).

S2  tools/gen_c11_iosites.py regenerates lean/PnVerif/Gen/{IoSites,ErrMap}.lean from the scratch tree
S3  lake build PnVerif.Props.C11 c11drv, axiom audit
S4  PMPI fault injection (harness/c11_fault.c) into small PnetCDF programs: baseline run counts the
    MPI-IO data-transfer calls, then one run per chosen (rank, call position, MPI error class); the
    run-time return addresses are mapped (addr2line) to rows of the generated tables; the Lean driver
    predicts the code the API call returns; the property oracle is "non-zero on the failing rank and
    every rank finishes".
"""
import os, sys, json, re, subprocess, collections
from concurrent.futures import ThreadPoolExecutor
sys.path.insert(0, os.path.dirname(os.path.abspath(__file__)))
from common import *

PROP = 'C11'
LEAN_FILES = ['PnVerif/Model/IoStatus.lean', 'PnVerif/Gen/IoSites.lean', 'PnVerif/Gen/ErrMap.lean',
              'PnVerif/Props/C11.lean', 'Driver/C11.lean']
# MPI-2 I/O error classes + the generic ones an MPI-IO layer can hand back
IO_CLASSES = ['MPI_ERR_IO', 'MPI_ERR_NO_SPACE', 'MPI_ERR_QUOTA', 'MPI_ERR_ACCESS', 'MPI_ERR_READ_ONLY', 'MPI_ERR_FILE',
              'MPI_ERR_BAD_FILE', 'MPI_ERR_NO_SUCH_FILE', 'MPI_ERR_FILE_EXISTS', 'MPI_ERR_FILE_IN_USE', 'MPI_ERR_AMODE',
              'MPI_ERR_NOT_SAME', 'MPI_ERR_UNSUPPORTED_DATAREP', 'MPI_ERR_UNSUPPORTED_OPERATION', 'MPI_ERR_CONVERSION',
              'MPI_ERR_DUP_DATAREP', 'MPI_ERR_OTHER', 'MPI_ERR_TRUNCATE', 'MPI_ERR_INTERN', 'MPI_ERR_ARG']
# (scenario, ranks)
SCENARIOS = [('create_enddef', 1), ('create_enddef', 2), ('create_close', 1), ('fill', 1), ('fill', 2),
             ('put_get_coll', 1), ('put_get_coll', 2), ('put_get_indep', 1), ('put_get_indep', 2),
             ('sync_close_indep', 1), ('sync_close_indep', 2), ('redef_indep', 1), ('redef_indep', 2),
             ('redef_move', 1), ('redef_move', 2), ('wait_mixed', 1), ('wait_mixed', 2), ('wait_puts', 2), ('wait_gets', 2),
             ('wait_indep', 1), ('wait_indep', 2), ('wait_mixed_ina', 2), ('data_mode_meta', 1), ('data_mode_meta', 2),
             ('open_read', 1), ('open_read', 2), ('open_bighdr', 1), ('zero_req', 2), ('hcoll_header', 2),
             # every way into ncmpio_read_write: packed / unpacked memory buffer, read / write, _at / _at_all
             ('flex_indep', 1), ('flex_indep', 2), ('flex_coll', 1), ('flex_coll', 2), ('flex_coll_ina', 2),
             ('multi_indep', 1), ('multi_indep', 2), ('multi_coll', 1), ('multi_coll', 2), ('multi_coll_ina', 2),
             # the remaining driver entry points: vard, varn, interleaved requests, ncmpi__enddef, copy_att, abort
             ('x_enddef2', 1), ('x_enddef2', 2), ('x_copy_att', 1), ('x_copy_att', 2), ('x_vard', 1), ('x_vard', 2),
             ('x_vard_indep', 1), ('x_vard_indep', 2), ('x_varn', 1), ('x_varn', 2), ('x_varn_indep', 2), ('x_varn_ina', 2),
             ('x_interleaved', 1), ('x_interleaved', 2), ('x_interleaved_indep', 1), ('x_abort', 1), ('x_abort', 2)]
# One defect, two table rows: req_commit's write phase is `err = wait_getput(WR)` or, under intra-node aggregation,
# `err = ncmpio_intra_node_aggregation_nreqs(...)` -- the same `err`, overwritten by the same read phase, repaired by
# the same patch.  Both rows report under the signature of the finding (F3).
SIG_ALIAS = {'drop@req_commit>ncmpio_intra_node_aggregation_nreqs:overwritable': 'drop@req_commit>wait_getput:overwritable'}
# extra classes injected at every position of these site functions also in the quick tier (witness of a known finding)
EXTRA_CLASSES = {'hdr_fetch': ['MPI_ERR_AMODE']}
LATER_LABELS = ('wait_all_mixed', 'wait_mixed')      # API calls whose request mix has a read phase after the write phase
# Rows of the header PARSER whose status is discarded (`if (err != NC_NOERR) break;` in the dimid loop of
# hdr_get_NC_var, then `err` is assigned again).  The table row says "dropped", and that is what the C does with
# the status; but hdr_get_uint32/64 return BEFORE consuming the field, so the parser continues one field behind and
# fails with a format error (NC_EBADTYPE / NC_ENOTNC) -- a state the status tables do not model ("every other
# operation succeeds" is false here).  For these rows a non-zero return is accepted and counted separately, NC_NOERR
# is a violation like everywhere else.
PARSER_DESYNC_ROWS = ('hdr_get_NC_var>hdr_get_uint32.2', 'hdr_get_NC_var>hdr_get_uint64.2')


def keeps(row):
    """mirror of PnVerif.IoStatus.Pattern.keeps: a non-zero incoming code stays non-zero"""
    p = row['pattern']
    if p in ('propagate', 'returnNow'):
        return True
    if p in ('mapEFILEthenPropagate', 'mapEFILEthenReturn', 'constant'):
        return row['code'] != 0
    return False


class Resolver:
    """return addresses -> (function, file, line) frames, innermost first (inlined frames expanded)"""

    def __init__(self, exe):
        self.exe, self.cache = exe, {}

    def resolve(self, addrs):
        need = sorted(set(a for a in addrs if a not in self.cache))
        if need:
            q = ['0x%x' % (int(a, 16) - 1) for a in need]
            p = subprocess.run(['addr2line', '-f', '-i', '-a', '-e', self.exe] + q, stdout=subprocess.PIPE, text=True)
            cur, fn = None, None
            idx = -1
            for ln in p.stdout.split('\n'):
                if re.match(r'^0x[0-9a-f]+$', ln):
                    idx += 1
                    cur = need[idx]
                    self.cache[cur] = []
                    fn = None
                elif cur is not None:
                    if fn is None:
                        fn = ln
                    else:
                        m = re.match(r'^(.*?):(\d+|\?)', ln)
                        f, l = (m.group(1), m.group(2)) if m else (ln, '?')
                        self.cache[cur].append((fn, os.path.basename(f), int(l) if l.isdigit() else 0))
                        fn = None
        out = []
        for a in addrs:
            out += self.cache.get(a, [])
        return out


def map_frames(frames, table):
    """-> (site row, [chain rows], problem or None)"""
    tracked = set(table['tracked'])
    fr = [f for f in frames if f[0] in tracked]
    if not fr:
        return None, [], 'no library frame'
    f0 = fr[0]
    cands = [s for s in table['sites'] if s['func'] == f0[0]]
    site = None
    for s in cands:
        if s['line_begin'] <= f0[2] <= s['line_end']:
            site = s
    if site is None and cands:
        best = min(cands, key=lambda s: min(abs(f0[2] - s['line_begin']), abs(f0[2] - s['line_end'])))
        if min(abs(f0[2] - best['line_begin']), abs(f0[2] - best['line_end'])) <= 2:
            site = best
    if site is None:
        return None, [], 'no site row for %s:%d' % (f0[0], f0[2])
    chain, prev = [], f0[0]
    for f in fr[1:]:
        cands = [c for c in table['chains'] if c['caller'] == f[0] and c['callee'] == prev]
        if not cands:
            return site, chain, 'no chain row %s -> %s (line %d)' % (f[0], prev, f[2])
        inside = [c for c in cands if c['line_begin'] <= f[2] <= c['line_end']]
        c = inside[0] if inside else min(cands, key=lambda c: min(abs(f[2] - c['line_begin']), abs(f[2] - c['line_end'])))
        if not inside and min(abs(f[2] - c['line_begin']), abs(f[2] - c['line_end'])) > 2:
            return site, chain, 'no chain row at %s:%d for callee %s' % (f[0], f[2], prev)
        chain.append(c)
        prev = f[0]
    return site, chain, None


def parse_log(path):
    calls, apis, inject, hang, done, crash, killed = [], [], None, None, False, None, False
    try:
        for ln in open(path):
            t = ln.split()
            if not t:
                continue
            if t[0] == 'CALL':
                calls.append(dict(idx=int(t[1]), fn=t[2], seq=int(t[3]), count=int(t[4]), zero=(t[5] == 'zero'), addrs=t[6:]))
            elif t[0] == 'API':
                apis.append(dict(seq=int(t[1]), label=t[2], rc=int(t[3]), st=[int(x) for x in t[4:]]))
            elif t[0] == 'INJECT':
                inject = int(t[1])
            elif t[0] == 'HANG':
                hang = (int(t[1]), t[2] if len(t) > 2 else '?')
            elif t[0] == 'CRASH':
                crash = (int(t[1]), int(t[2]), t[3] if len(t) > 3 else '?')
            elif t[0] == 'KILLED':
                killed = True
            elif t[0] == 'DONE':
                done = True
    except OSError:
        pass
    return dict(calls=calls, apis=apis, inject=inject, hang=hang, done=done, crash=crash, killed=killed)


def run_case(exe, wd, tag, scen, n, rank, k, cls, watchdog):
    pre = os.path.join(wd, 'log_%s' % tag)
    nc = os.path.join(wd, 'f_%s.nc' % tag)
    rc, out, err = mpirun(n, [exe, scen, nc, pre, str(rank), str(k), str(cls), str(watchdog)], timeout=watchdog + 40)
    logs = [parse_log('%s.%d' % (pre, r)) for r in range(n)]
    for r in range(n):
        try:
            os.unlink('%s.%d' % (pre, r))
        except OSError:
            pass
    for f in (nc, nc + '.b'):
        try:
            os.unlink(f)
        except OSError:
            pass
    return rc, logs, err[-300:]


def run_check(tier, seed):
    V = Verdict(PROP, tier, seed)
    rng = SplitMix64(seed * 104729 + 11)
    V.assumptions = [
        'single fault: exactly one MPI-IO data-transfer call of one rank reports a failure, every other call succeeds (the quantifier of the property)',
        'injection = the real transfer is performed, then the MPI error CLASS value is returned as the error code (MPI_Error_class maps a class value to itself); what a failed transfer leaves in the buffer is not modelled',
        'translator tools/gen_c11_iosites.py (clang-14 AST -> outcome tables by abstract interpretation of each enclosing function) is trusted to render the C faithfully; it fails closed, and every row the fault-injection programs reach is compared with the real library on every run',
        'translator: a constant error code stored or returned under a condition that the injected failure does not decide is another, independent failure (request too large, out of memory, bad argument) and is outside the quantifier; status variables are int locals not modified through aliases (an escaping &status fails closed)',
        'MPI_Bcast from rank 0 leaves the root\'s own value unchanged / gives the other ranks the root\'s fault-free value; MPI_Allreduce(MIN) of statuses keeps a negative code (errmap_negative is proved)',
        'the dispatcher layer (src/dispatchers) returns the driver entry point\'s status unchanged: not analysed, exercised by every harness run (the observed code is the public ncmpi_* return value)',
        'the property is judged on the return value of the API call (for nonblocking requests: of ncmpi_wait/wait_all); per-request statuses are recorded in the replay files only',
        'absence of blocking is observed (watchdog in every rank), not proved: there is no static theorem about the sequence of collectives after a failure',
    ]
    V.cov['trusted_base'] = TRUSTED_BASE_COMMON + ['tools/gen_c11_iosites.py + clang-14 AST', 'addr2line/DWARF line info of the -g -O1 scratch build (run-time call -> table row)']
    tree = build_impl('plain')
    wd = workdir('c11')
    try:
        # ---- S2 regenerate the tables from the source
        gen_out = os.path.join(wd, 'gen')
        p = subprocess.run([sys.executable, os.path.join(VERIF, 'tools/gen_c11_iosites.py'), tree, gen_out],
                           stdout=subprocess.PIPE, stderr=subprocess.PIPE, text=True)
        log('[S2]', p.stdout.strip().split('\n')[-1] if p.stdout.strip() else p.stderr[-300:])
        if p.returncode not in (0, 2) or not os.path.exists(os.path.join(gen_out, 'IoSites.lean')):
            V.broken_tie('translator gen_c11_iosites.py failed', p.stderr[-2000:])
            V.cov['obligations'], V.cov['checker_cmd'] = 1, 'tools/gen_c11_iosites.py'
            return V.finish()
        table = json.load(open(os.path.join(gen_out, 'c11_table.json')))
        gen_fail = table['failures']
        changed = [f for f in ('IoSites.lean', 'ErrMap.lean')
                   if write_if_changed(os.path.join(LEAN, 'PnVerif/Gen', f), open(os.path.join(gen_out, f)).read())]
        if changed:
            log('[S2] generated tables differ from the previous run:', changed)
        # ---- S3 prove
        ok_drv, out_drv = lake_build(['c11drv'])
        ok, out = lake_build(['PnVerif.Props.C11'])
        failed_thms = set()
        if not ok:
            for f, ln, msg in lake_errors(out):
                t = theorem_at(f, ln)
                if t:
                    failed_thms.add(t)
            log('[S3] lake build FAILED; theorems that no longer check:', sorted(failed_thms)[:20])
        forb = grep_forbidden([os.path.join(LEAN, f) for f in LEAN_FILES])
        obl = obligations_of('PnVerif/Props/C11.lean')
        discharged, bad = axiom_audit('PnVerif.Props.C11', obl, 'PnVerif.Props.C11') if ok else ([], [])
        V.cov['obligations'] = len(obl) + len(gen_fail)
        V.cov['discharged'] = len(discharged)
        V.cov['checker_cmd'] = ('python3 tools/gen_c11_iosites.py <scratch tree> lean/PnVerif/Gen && cd lean && lake build PnVerif.Props.C11 c11drv '
                                '&& lake env lean <#print axioms of every obligation>')
        if tier == 'thorough' and ok:
            lc = leanchecker(['PnVerif.Props.C11'])
            V.cov['leanchecker'] = 'ok' if not lc else str(lc)
            if lc:
                bad.append(('leanchecker', lc))
        proof_broken = (not ok) or bad or forb or gen_fail
        if forb:
            log('[S3] forbidden constructs:', forb[:5])
        V.cov['table'] = dict(sites=len(table['sites']), chains=len(table['chains']),
                              paths=sum(len(v) for v in table['paths'].values()), classes=len(table['mpi_classes']),
                              patterns=dict(collections.Counter(r['pattern'] for r in table['sites'] + table['chains'])))
        # ---- S4 fault injection
        drv = os.path.join(LEAN, '.lake/build/bin/c11drv')
        if not ok_drv or not os.path.exists(drv):
            V.broken_tie('Lean driver c11drv does not build against the regenerated tables', out_drv[-1500:])
            return V.finish()
        exe = os.path.join(wd, 'c11f')
        try:
            cc(tree, [os.path.join(VERIF, 'harness/c11_fault.c')], exe, extra=['-no-pie'])
        except BuildFailed as ex_:
            V.broken_tie('harness/c11_fault.c does not compile against this tree', str(ex_)[-1500:])
            return V.finish()
        res = Resolver(exe)
        clsval = {k: v for v, k in table['mpi_classes']}
        io_classes = [c for c in IO_CLASSES if c in clsval]
        explicit = set(c for c, _ in table['errmap']['explicit'])
        t1 = Timer()
        watchdog = 8
        # baseline (count) runs
        base = {}

        def do_base(sn):
            scen, n = sn
            return sn, run_case(exe, wd, 'b_%s_%d' % (scen, n), scen, n, -1, 0, 0, watchdog)
        with ThreadPoolExecutor(24) as ex:
            for sn, (rc, logs, err) in ex.map(do_base, SCENARIOS):
                base[sn] = (rc, logs, err)
        plan = []           # (scen, n, rank, k, classname, key)
        positions = 0
        seen_keys = {}
        base_problems = []
        for (scen, n), (rc, logs, err) in sorted(base.items()):
            if rc != 0 or not all(l['done'] for l in logs) or any(a['rc'] != 0 for l in logs for a in l['apis']):
                base_problems.append(dict(scenario=scen, ranks=n, rc=rc, stderr=err,
                                          apis=[(a['label'], a['rc']) for l in logs for a in l['apis'] if a['rc'] != 0][:5]))
                continue
            for rank, l in enumerate(logs):
                lab = {a['seq']: a['label'] for a in l['apis']}
                for c in l['calls']:
                    positions += 1
                    frames = res.resolve(c['addrs'])
                    site, chain, prob = map_frames(frames, table)
                    key = (site['id'] if site else '?', tuple(x['id'] for x in chain), lab.get(c['seq'], '?'), n, min(rank, 1))
                    seen_keys.setdefault(key, []).append((scen, n, rank, c['idx']))
        if base_problems:
            V.broken_tie('fault-free baseline runs of the harness programs fail', base_problems[:5])
        # choose the injections
        std3 = ['MPI_ERR_IO', 'MPI_ERR_NO_SPACE']
        for key, poss in sorted(seen_keys.items()):
            if tier == 'thorough':
                for (scen, n, rank, k) in poss:
                    for cn in io_classes:
                        plan.append((scen, n, rank, k, cn, key))
            else:
                # one position per distinct (site, call path, API, ranks, root/non-root), 3 classes
                scen, n, rank, k = poss[rng.below(len(poss))]
                others = [c for c in io_classes if c not in std3]
                extra = [c for c in EXTRA_CLASSES.get(key[0].split('.')[0], []) if c in clsval and key[2] == 'open' and min(rank, 1) == 0]
                third = [rng.choice([c for c in others if c not in extra])]
                if rng.below(3) != 0:
                    third = []          # the seeded third class goes to a third of the keys (quick-tier time budget)
                for cn in std3 + third + extra:
                    plan.append((scen, n, rank, k, cn, key))
        log('[S4] %d programs, %d transfer-call positions, %d distinct (site, path, API, ranks) keys, %d injections planned'
            % (len(base), positions, len(seen_keys), len(plan)))

        def do_inj(i_item):
            i, (scen, n, rank, k, cn, key) = i_item
            return i_item, run_case(exe, wd, 'i%d' % i, scen, n, rank, k, clsval[cn], watchdog)
        results = []
        with ThreadPoolExecutor(24) as ex:
            for item, r in ex.map(do_inj, list(enumerate(plan))):
                results.append((item, r))
        # model predictions
        req_lines, metas = [], []
        for (i, (scen, n, rank, k, cn, key)), (rc, logs, err) in results:
            l = logs[rank] if rank < len(logs) else None
            if (l is None or l['inject'] is None) and not all(x['done'] for x in logs):
                # a rank gave up (watchdog) before the fault had even fired: a slow start on a loaded machine, not a
                # consequence of the fault -- run the case again with a generous watchdog
                rc, logs, err = run_case(exe, wd, 'r%d' % i, scen, n, rank, k, clsval[cn], 45)
                l = logs[rank] if rank < len(logs) else None
            call = None
            if l and l['inject'] is not None:
                call = next((c for c in l['calls'] if c['idx'] == l['inject']), None)
            meta = dict(i=i, scen=scen, n=n, rank=rank, k=k, cls=cn, key=key, rc=rc, logs=logs, err=err, call=call)
            if call is not None:
                frames = res.resolve(call['addrs'])
                site, chain, prob = map_frames(frames, table)
                lab = {a['seq']: a for a in l['apis']}
                api = lab.get(call['seq'])
                meta.update(site=site, chain=chain, prob=prob, api=api, label=api['label'] if api else None)
                if site is not None and prob is None:
                    later = 1 if (api and any(api['label'].startswith(x) for x in LATER_LABELS)) else 0
                    req_lines.append('P %s %s %d %d' % (site['id'], ','.join(c['id'] for c in chain) or '-', clsval[cn], later))
                    meta['line'] = len(req_lines) - 1
            metas.append(meta)
        pl = subprocess.run([drv], input='\n'.join(req_lines) + '\n', stdout=subprocess.PIPE, stderr=subprocess.PIPE, text=True)
        answers = pl.stdout.split('\n')
        log('[S4] %d injection runs + %d baseline runs in %.1fs; %d requests through the Lean driver' % (len(results), len(base), t1.s(), len(req_lines)))
        # ---- S5 decide
        dist = collections.Counter()
        distinct = set()
        tie_diffs, unmapped, validated, new_fail = [], [], 0, 0
        samples = []
        new_sigs = set()

        def report(sig, what, replay):
            nonlocal new_fail
            if sig in new_sigs:
                return
            if V.failing_input(sig, what, replay, tag='in%d' % new_fail):
                new_sigs.add(sig)
                new_fail += 1

        def row_sig(rid):
            row = next((r for r in table['sites'] + table['chains'] if r['id'] == rid), None)
            if row is None:
                return rid
            base = row['func'] if 'func' in row else '%s>%s' % (row['caller'], row['callee'])
            return '%s:%s%s' % (base, row['pattern'], '-zero-length' if row.get('zeroLen') else '')
        for m in metas:
            who = '%s n=%d rank=%d call#%d class=%s' % (m['scen'], m['n'], m['rank'], m['k'], m['cls'])
            hung = [(r, l['hang']) for r, l in enumerate(m['logs']) if l['hang'] is not None]
            crashed = [(r, l['crash']) for r, l in enumerate(m['logs']) if l['crash'] is not None]
            # no DONE, no HANG, not killed by mpiexec after another rank ended: died without a trace
            notdone = [r for r, l in enumerate(m['logs']) if not l['done'] and l['hang'] is None and not l['killed']]
            if m['call'] is None:
                if not hung and not notdone:
                    tie_diffs.append((who, 'the injection did not fire (the program made fewer transfer calls than in the baseline)'))
                    continue
            site = m.get('site')
            sid = site['id'] if site else '?'
            label = m.get('label') or '?'
            replay = dict(program=m['scen'], ranks=m['n'], fail_rank=m['rank'], call_position=m['k'], mpi_class=m['cls'],
                          site=sid, chain=[c['id'] for c in m.get('chain', [])], api=label,
                          api_calls={str(r): [(a['label'], a['rc'], a['st']) for a in l['apis']] for r, l in enumerate(m['logs'])},
                          harness='harness/c11_fault.c <program> <file> <log> %d %d %d' % (m['rank'], m['k'], clsval[m['cls']]))
            if hung or notdone:
                def classify(hung, crashed, notdone):
                    if crashed or notdone:
                        return 'crash', (crashed[0][1][2] if crashed else label)
                    return 'hang', next((h[1] for _, h in hung if h[1] != 'sync'), label)
                kind, lab2 = classify(hung, crashed, notdone)
                ksig = '%s@%s:%s' % (kind, site['func'] if site else '?', lab2)
                if not any(kf['sig'] == ksig for kf in V.known) and ksig not in new_sigs:
                    # not a known finding: confirm with a generous watchdog before calling it a hang (loaded machine)
                    rc2, logs2, err2 = run_case(exe, wd, 'c%d' % m['i'], m['scen'], m['n'], m['rank'], m['k'], clsval[m['cls']], 45)
                    if all(l['done'] for l in logs2):
                        dist['slow-run-not-a-hang'] += 1
                        continue
                    m['logs'] = logs2
                    hung = [(r, l['hang']) for r, l in enumerate(logs2) if l['hang'] is not None]
                    crashed = [(r, l['crash']) for r, l in enumerate(logs2) if l['crash'] is not None]
                    notdone = [r for r, l in enumerate(logs2) if not l['done'] and l['hang'] is None and not l['killed']]
                    kind, lab2 = classify(hung, crashed, notdone)
                # hang: ranks blocked INSIDE the API call in which the fault fired (label "sync" = that rank had
                # returned and was waiting for the others); crash: a rank died inside it
                inside = [r for r, h in hung if h[1] != 'sync']
                dist[kind] += 1
                sig = '%s@%s:%s' % (kind, site['func'] if site else '?', lab2)
                replay['blocked_ranks'] = [(r, h) for r, h in hung]
                replay['crashed_ranks'] = [(r, c) for r, c in crashed] + [(r, 'no trace') for r in notdone if r not in [x for x, _ in crashed]]
                replay['api_calls'] = {str(r): [(a['label'], a['rc'], a['st']) for a in l['apis']] for r, l in enumerate(m['logs'])}
                if kind == 'crash':
                    what = 'a failure injected at %s (%s): rank(s) %s die inside API call %s (signal %s)' % (
                        sid, who, [r for r, _ in crashed] + notdone, lab2, crashed[0][1][0] if crashed else '?')
                else:
                    what = 'a failure injected at %s (%s): rank(s) %s never return from API call %s' % (sid, who, inside, lab2)
                report(sig, what, replay)
                distinct.add((sid, tuple(replay['chain']), lab2, kind))
                continue
            if site is None or m.get('prob'):
                unmapped.append((who, m.get('prob')))
                continue
            ans = answers[m['line']].split('|') if m.get('line') is not None and m['line'] < len(answers) else []
            if len(ans) != 5:
                tie_diffs.append((who, 'driver answer: %s' % (answers[m['line']] if m.get('line') is not None and m['line'] < len(answers) else 'none')))
                continue
            pick, allv, droprow, api_fn, intable = [a.strip() for a in ans]
            observed = m['api']['rc'] if m['api'] else None
            efile_class = clsval[m['cls']] not in explicit
            dist[site['pattern']] += 1
            dist['class:' + ('generic->EFILE' if efile_class else 'specific')] += 1
            dist['api:' + label] += 1
            distinct.add((sid, tuple(replay['chain']), label, 'EFILE' if efile_class else m['cls'], m['n'], min(m['rank'], 1)))
            replay.update(model_pick=pick, model_outcomes=allv, model_drop_row=droprow, observed=observed)
            if len(samples) < 6 and (len(samples) < 3 or observed == 0):
                samples.append('%s: site %s via %s -> API %s returns %s (model %s)' % (who, sid, '/'.join(replay['chain']) or '-', label, observed, pick))
            if intable != 'in-table':
                tie_diffs.append((who, 'run-time call path is not in the generated path table: %s' % replay['chain']))
            # property oracle on the real library
            if observed == 0:
                amb = next((r for r in [site] + m['chain'] if not keeps(r)), None) if pick == 'ambiguous' else None
                if pick == '0' and droprow != '-':
                    sig = 'drop@' + row_sig(droprow)
                    sig = SIG_ALIAS.get(sig, sig)
                elif amb is not None:
                    # a row whose outcome the tables cannot decide (two possible values) and that did drop here
                    sig = 'drop@' + row_sig(amb['id'])
                    replay['model_drop_row'] = amb['id']
                else:
                    sig = 'unpredicted-drop@%s:%s' % (sid, label)
                report(sig, '%s: the %s of %s fails with %s and %s returns NC_NOERR on the failing rank' % (who, site['call'], sid, m['cls'], label), replay)
            # correspondence
            if pick == '0' and droprow in PARSER_DESYNC_ROWS and observed not in (0, None):
                dist['parser-desync-reports-format-error'] += 1
            elif pick == 'ambiguous' and observed is not None and str(observed) in allv.split():
                dist['consistent-with-undecided-row'] += 1      # one of the values the table allows; not an exact validation
            elif pick == 'ambiguous' or observed is None or str(observed) != pick:
                tie_diffs.append((who, 'site %s chain %s API %s: library returns %s, model predicts %s (outcomes %s)' % (sid, replay['chain'], label, observed, pick, allv)))
            else:
                validated += 1
        V.cov['evaluations'] = len(results)
        V.cov['distinct_nontrivial'] = len(distinct)
        V.cov['traces_validated_against_impl'] = validated
        V.cov['rule'] = ('%d small PnetCDF programs (create/enddef, enddef inside close, fill mode + fill_var_rec, blocking put/get collective and independent, '
                         'record puts (numrecs), sync/close from independent mode, redef from independent mode, redef with header growth / new fixed / new record variable '
                         '(data movement), iput+iget wait_all (mixed, puts only, gets only, independent wait), data-mode put_att/rename_*, open+read, zero-length collective '
                         'participation, collective header I/O (romio_no_indep_rw); flexible put/get with vector/indexed/resized memory types with and without conversion / byte swap '
                         '(packed and unpacked buffers, independent, collective, 1 process), waits over several requests with non-adjacent buffers, bput, intra-node aggregation, '
                         'vard, varn, interleaved requests, ncmpi__enddef, copy_att in data mode, abort) on 1 and 2 ranks; baseline run enumerates every MPI-IO data-transfer call; '
                         'quick: one position per distinct (site row, call path, API, ranks, root/non-root) x {MPI_ERR_IO, MPI_ERR_NO_SPACE} + one seeded class for a seeded third of the keys; '
                         'thorough: every position x %d classes. Every injection fires in the real library, so every evaluation is non-trivial; '
                         'distinct = distinct (site row, call path, API call, NC-code kind of the class, ranks, root/non-root) or (site, API, hang/crash)' % (len(SCENARIOS), len(io_classes)))
        V.cov['distribution'] = dict(dist)
        V.cov['positions'] = positions
        V.cov['sites_reached'] = sorted(set(k[0] for k in seen_keys))
        V.cov['sites_not_reached'] = sorted(set(s['id'] for s in table['sites']) - set(k[0] for k in seen_keys))
        V.cov['paths_reached'] = len(set((k[0], k[1]) for k in seen_keys))
        reached_fp = set((k[0].split('.')[0], k[1]) for k in seen_keys)
        V.cov['paths_not_reached'] = sorted(set(
            '%s <- %s' % (fn, ' <- '.join(pp['chain'])) for fn, ps in table['paths'].items() for pp in ps
            if (fn, tuple(pp['chain'])) not in reached_fp and fn != 'hdr_fetch'))
        V.cov['header_parser_paths_not_reached'] = len([1 for pp in table['paths'].get('hdr_fetch', [])
                                                        if ('hdr_fetch', tuple(pp['chain'])) not in reached_fp])
        V.cov['exhaustive'] = False
        V.cov['samples'] = samples + ['theorem no_silent_drop_partial : ∀ s ∈ sites, ∀ p ∈ pathsOf s, ∀ c ∈ mpiClasses, excepted s p (ncOf c.2) = false → ∀ r ∈ apiStatus s p c.2, r ≠ 0',
                                      'theorem no_silent_drop_counterexample : ¬ NoSilentDrop_Statement']
        # the exceptions PRESENT in the regenerated table (Props/C11.lean `exceptions`) against the known findings:
        # the Lean theorems hold for whatever rows drop; which drops are tolerated is decided here
        known_sigs = set(kf['sig'] for kf in V.known)
        present = [r for r in table['sites'] + table['chains'] if not keeps(r)]
        V.cov['table_exceptions'] = sorted(r['id'] for r in present)
        untolerated = [r['id'] for r in present
                       if SIG_ALIAS.get('drop@' + row_sig(r['id']), 'drop@' + row_sig(r['id'])) not in (known_sigs | new_sigs)
                       and r['id'] not in PARSER_DESYNC_ROWS]
        if new_fail == 0:
            if untolerated:
                V.broken_tie('the regenerated table has rows that drop a failure, are not known findings and were not reached by the fault-injection programs',
                             dict(rows=untolerated, note='Props/C11.lean: these rows are in `exceptions`, so NoSilentDrop_Statement is refuted (no_silent_drop_iff_no_exceptions)'))
            if unmapped:
                V.broken_tie('correspondence: run-time calls that cannot be mapped to a row of the generated tables', unmapped[:10])
            if tie_diffs:
                V.broken_tie('correspondence stream fault-injection: model and implementation differ', tie_diffs[:10])
            if proof_broken:
                V.broken_tie('proof obligations no longer check',
                             dict(failed_theorems=sorted(failed_thms), axiom_audit=bad[:10], forbidden=forb[:10],
                                  untranslatable=gen_fail[:10], lake_tail=out[-2500:] if not ok else ''))
        return V.finish()
    finally:
        cleanup(wd)


if __name__ == '__main__':
    tier, seed, replay = args(sys.argv[1:])
    sys.exit(run_check(tier, seed))
