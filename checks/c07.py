#!/usr/bin/env python3
"""C07 — metadata and namespace operations behave like a sequential model (DESIGN.md §4 C07).

S3  lake build PnVerif.Props.C07 + c07drv, axiom audit of every obligation, forbidden-construct grep
S4  stream `meta`: seeded random op histories (define / overwrite / rename / copy / delete on dims, vars,
    global and per-variable attributes, interleaved with enddef/redef/close/open) generated ADAPTIVELY
    against the Lean driver (model with hash tables + spec with plain lists), then replayed on the real
    library (harness/c07_meta.c); after every operation every inquiry is compared (DUMP), the real
    bucket lists are compared with the model's (TAB) and, after a change made in data mode, a second
    read-only handle is opened on the file and dumped (DISK).
S5  spec != implementation  -> failing input (the script prefix is the replay)
    model != implementation -> broken tie;  proof/audit broken -> broken tie
"""
import os, sys, json, subprocess, unicodedata
sys.path.insert(0, os.path.dirname(os.path.abspath(__file__)))
from common import *

PROP = 'C07'
LEANFILES = ['PnVerif/Model/MetaTab.lean', 'PnVerif/Model/Meta.lean', 'PnVerif/Spec/MetaSpec.lean',
             'PnVerif/Lemmas/MetaTab.lean', 'PnVerif/Lemmas/MetaRefine.lean', 'PnVerif/Props/C07.lean', 'Driver/C07.lean']
NC_MAX_NAME = 256
XR = {1: (-128, 127), 3: (-32768, 32767), 4: (-2**31, 2**31 - 1), 7: (0, 255), 8: (0, 65535), 9: (0, 2**32 - 1),
      10: (-2**63, 2**63 - 1), 11: (0, 2**63 - 1), 5: (-1000, 1000), 6: (-100000, 100000)}
ERR = {0: 'NOERR', -36: 'EINVAL', -37: 'EPERM', -38: 'ENOTINDEFINE', -39: 'EINDEFINE', -42: 'ENAMEINUSE', -43: 'ENOTATT',
       -45: 'EBADTYPE', -46: 'EBADDIM', -47: 'EUNLIMPOS', -49: 'ENOTVAR', -50: 'EGLOBAL', -53: 'EMAXNAME', -54: 'EUNLIMIT',
       -56: 'ECHAR', -59: 'EBADNAME', -60: 'ERANGE', -63: 'EDIMSIZE', -122: 'ELATEFILL', -232: 'ESTRICTCDF2'}

# composed / decomposed spellings that Unicode NFC must identify (all from Unicode <= 5.0)
PAIRS = [('\u00e9', 'e\u0301'), ('\u00f1', 'n\u0303'), ('\u00fc', 'u\u0308'), ('\u00c5', 'A\u030a'), ('\u212b', '\u00c5'),
         ('\u00e7', 'c\u0327'), ('\u03ac', '\u03b1\u0301'), ('\uac00', '\u1100\u1161'), ('\u1ebf', 'e\u0302\u0301'),
         ('\u0439', '\u0438\u0306'), ('\u1eb9\u0301', 'e\u0301\u0323'), ('\u00f4', 'o\u0302'), ('\u01d6', 'u\u0308\u0304'),
         ('\u1e69', 's\u0323\u0307'), ('\uac01', '\u1100\u1161\u11a8'), ('\u0958', '\u0915\u093c')]
# combining marks by canonical combining class (unicodedata.combining): two or three per class, all Unicode <= 5.0
MARKS = {230: ['\u0301', '\u0305', '\u0300', '\u0308'], 220: ['\u0323', '\u0331', '\u0325'], 202: ['\u0321', '\u0322'],
         216: ['\u031b', '\u0f39'], 1: ['\u0334', '\u0335'], 9: ['\u094d', '\u09cd']}
STARTERS = ['a', 'e', 'o', 'u', 'A', 'N']
assert all(unicodedata.combining(m) == c for c, ms in MARKS.items() for m in ms)


def mark_names():
    """starter + 2..3 marks with equal / increasing / decreasing combining classes, in every order; precomposed + extra mark;
    Hangul L+V+T; and for each sequence the DISTINCT names that a wrong (unblocked) composition would make it collide with"""
    import itertools
    classes = list(MARKS)
    seqs = []
    k = 0
    for c1 in classes:
        for c2 in classes:
            st = STARTERS[k % len(STARTERS)]; k += 1
            m1 = MARKS[c1][0]
            m2 = MARKS[c2][1 if c1 == c2 else 0]
            seqs.append(st + m1 + m2)
    for tri in itertools.permutations([230, 220, 202, 216, 1, 9], 3):
        st = STARTERS[k % len(STARTERS)]; k += 1
        seqs.append(st + ''.join(MARKS[c][0] for c in tri))
    for c in (230, 220):
        for tri in itertools.permutations(MARKS[c][:3], 3):
            st = STARTERS[k % len(STARTERS)]; k += 1
            seqs.append(st + ''.join(tri))
        for a, b in itertools.permutations(MARKS[c][:3], 2):
            for st in ('a', 'o', 'u', 'N'):
                seqs.append(st + a + b)                                   # same class: the second mark is BLOCKED from the starter
                seqs.append(st + a + MARKS[220 if c == 230 else 230][0] + b)
    for pre in ('\u00e1', '\u00f4', '\u1ea1', '\u00d1', '\u01d8', '\u1ed9'):
        for c in classes:
            seqs.append(pre + MARKS[c][0]); seqs.append(pre + MARKS[c][-1] + MARKS[230][1])
    seqs += ['\u1100\u1161\u11a8', '\uac00\u11a8', '\u1100\u1161', '\u1100\u1161\u11a8\u11a8', '\uac01\u11a8', '\u1100\u0301\u1161',
             '\u1112\u1175\u11c2', '\ud788\u11c2', '\u1100\u1161\u0323\u11a8']
    out = []
    for q in seqs:
        sib = []
        ch = list(q)
        # what an unblocked composition of a LATER mark with the starter would give: compose starter+mark_j, keep the rest in place
        for j in range(2, len(ch)):
            comp = unicodedata.normalize('NFC', ch[0] + ch[j])
            if len(comp) == 1:
                w = comp + ''.join(ch[1:j] + ch[j + 1:])
                if unicodedata.normalize('NFC', w) != unicodedata.normalize('NFC', q):
                    sib.append(w)
        out.append((q, sib))
    return out


MARKNAMES = mark_names()

ILLEGAL = [b'-abc', b' abc', b'a/b', b'ab ', b'a\x01b', b'\x7fabc', b'ab\x7f', b'a\x80b', b'ab\xc3', b'\xffab', b'a\xc0\x80',
           b'.x', b'a\xed\xa0\x80', b'/']
ASCII1 = 'ABCDEFGHIJKLMNOPQRSTUVWXYZabcdefghijklmnopqrstuvwxyz_0123456789'
ASCIIN = ASCII1 + '.+-@ :()#$%&*,;<=>?[]^{|}~!'
FILLVALUE = b'_FillValue'


def bern(name, size):
    h = len(name) & 0xffffffff
    for c in name:
        cc = c if c < 128 else c + 0xFFFFFF00
        h = (h + ((h << 6) & 0xffffffff) + cc) & 0xffffffff
    return (h ^ (h >> 10) ^ (h >> 20)) & ((size - 1) & 0xffffffff)


def nfc(raw):
    try:
        return unicodedata.normalize('NFC', raw.decode('utf-8')).encode('utf-8')
    except UnicodeDecodeError:
        return raw


def legal(raw):
    """transcription of check_name_CDF2 (src/drivers/common/check_name.c) for a non-empty name of <= 256 bytes"""
    if not raw or b'/' in raw:
        return False
    try:
        s = raw.decode('utf-8')
    except UnicodeDecodeError:
        return False
    c0 = ord(s[0])
    if c0 <= 0x7f and not (s[0].isascii() and (s[0].isalnum() or s[0] == '_')):
        return False
    last = c0
    for ch in s[1:]:
        c = ord(ch)
        if c <= 0x7f and (c < 0x20 or c > 0x7e):
            return False
        last = c
    if last <= 0x7f and chr(last).isspace():
        return False
    return True


def hx(b):
    return b.hex() if b else '-'


def tok(raw):
    return '%s:%s:%d' % (hx(raw), hx(nfc(raw)), 1 if legal(raw) else 0)


class Slot:
    def __init__(self):
        self.open = False
        self.exists = False
        self.indef = False
        self.rdonly = False
        self.ever_enddef = False
        self.dims, self.vars, self.gatts = [], [], []
        self.big = set()


class Gen:
    """adaptive generator: talks to the Lean driver to learn the state after every request"""

    def __init__(self, rng, drv, nops):
        self.rng, self.drv, self.nops = rng, drv, nops
        self.lines, self.answers, self.tags = [], [], []
        self.slots = [Slot(), Slot()]
        self.sizes = [[256, 256, 64, 8], [256, 256, 64, 8]]
        self.fmts = [1, 1]
        self.mixed = False
        self.dist = {}

    # ---- driver I/O
    def send(self, line, tag=''):
        self.drv.stdin.write(line + '\n')
        self.drv.stdin.flush()
        ans = self.drv.stdout.readline().rstrip('\n')
        self.lines.append(line)
        self.answers.append(ans)
        self.tags.append(tag)
        return ans

    def model(self, ans):
        return ans.split(' ## ')[0]

    def refresh(self, s):
        sl = self.slots[s]
        if not sl.open:
            return
        d = self.model(self.send('DUMP %d' % s, 'dump'))
        self.send('TAB %d' % s, 'tab')
        sl.dims, sl.vars, sl.gatts = [], [], []
        for part in d.split(' | ')[1:]:
            t = part.split(' ')
            if t[0].startswith('D'):
                sl.dims.append((bytes.fromhex(t[2]) if t[2] != '-' else b'', int(t[3])))
            elif t[0].startswith('V'):
                sl.vars.append(dict(name=bytes.fromhex(t[2]) if t[2] != '-' else b'', type=int(t[3]), atts=[]))
            elif t[0].startswith('A'):
                varid = int(t[0][1:].split('.')[0])
                a = (bytes.fromhex(t[2]) if t[2] != '-' else b'', int(t[4]), int(t[5]))
                (sl.gatts if varid == -1 else sl.vars[varid]['atts']).append(a)

    def count(self, k):
        self.dist[k] = self.dist.get(k, 0) + 1

    # ---- names
    def ascii_name(self, lo=1, hi=10):
        r = self.rng
        n = r.range(lo, hi)
        s = r.choice(ASCII1[:53]) + ''.join(r.choice(ASCIIN) for _ in range(n - 1))
        while s.endswith(' '):
            s = s[:-1] + 'x'
        return s.encode()

    def fresh_name(self, existing, size, kind=None):
        """a name for a new object; `existing` = normalised names in the same table, `size` = its hash size"""
        r = self.rng
        kind = kind or r.choice(['ascii'] * 5 + ['collide'] * 4 + ['utf8'] * 3 + ['marks'] * 3 + ['long'] * 1 + ['short'] * 1)
        self.count('name:' + kind)
        for _ in range(200):
            if kind == 'collide' and existing and size > 1:
                target = bern(r.choice(existing), size)
                for _ in range(20000):
                    c = self.ascii_name(1, 7)
                    if bern(c, size) == target:
                        break
            elif kind == 'utf8':
                p = r.choice(PAIRS)
                c = (self.ascii_name(1, 3).decode() + r.choice(p) + (self.ascii_name(1, 2).decode() if r.chance(1, 2) else '')).encode()
            elif kind == 'marks':
                q, sib = r.choice(MARKNAMES)
                if getattr(self, 'sibling', None) and r.chance(1, 2):
                    core, self.sibling = self.sibling, None      # the distinct name a wrong composition of the previous one would collide with
                    self.count('name:marks-sibling')
                else:
                    core = q if not r.chance(1, 4) else unicodedata.normalize(r.choice(['NFD', 'NFC']), q)
                    self.sibling = r.choice(sib) if sib else None
                c = ((self.ascii_name(1, 2).decode() if r.chance(1, 2) else '') + core + (self.ascii_name(1, 2).decode() if r.chance(1, 3) else '')).encode()
            elif kind == 'long':
                n = r.choice([NC_MAX_NAME, NC_MAX_NAME, NC_MAX_NAME - 1, 200, 255])
                c = self.ascii_name(n, n)
            elif kind == 'short':
                c = self.ascii_name(1, 1)
            else:
                c = self.ascii_name(1, 10)
            if nfc(c) not in existing and len(c) <= NC_MAX_NAME:
                return c
        return self.ascii_name(12, 16)

    def variant(self, stored):
        """another spelling of a stored (normalised) name that NFC maps to the same name"""
        try:
            d = unicodedata.normalize('NFD', stored.decode('utf-8')).encode('utf-8')
        except UnicodeDecodeError:
            return stored
        if d != stored and self.rng.chance(1, 2) and nfc(d) == stored:
            self.count('name:nfd-variant')
            return d
        return stored

    def bad_name(self):
        r = self.rng
        k = r.below(10)
        if k == 0:
            self.count('name:empty')
            return b''
        if k <= 2:
            self.count('name:toolong')
            n = r.choice([NC_MAX_NAME + 1, NC_MAX_NAME + 2, 300, 700])
            return self.ascii_name(n, n)
        self.count('name:illegal')
        return r.choice(ILLEGAL)

    def some_id(self, n):
        r = self.rng
        if n > 0 and not r.chance(1, 12):
            return r.below(n)
        self.count('id:invalid')
        return r.choice([-2, -7, n, n + 1, n + 40, 1000000])

    def values(self, xtype, text):
        r = self.rng
        n = r.choice([0, 1, 1, 2, 2, 3, 4, 5, 7, 8, 9, 16, 33, 100]) if not r.chance(1, 60) else r.choice([1000, 3000])
        if text:
            return [r.range(0, 255) for _ in range(n)]
        lo, hi = XR.get(xtype, (-100, 100))
        vs = [r.range(max(lo, -120), min(hi, 120)) for _ in range(n)]
        if n and xtype in (1, 3, 4, 7, 8, 9) and r.chance(1, 8):
            self.count('value:out-of-range')
            vs[r.below(n)] = r.choice([hi + 1, hi + 1 + r.below(1000), lo - 1, lo - 1 - r.below(1000)])
        return vs

    # ---- operations
    def att_target(self, s):
        """(varid, list of stored attributes, hash size) — mostly valid"""
        sl = self.slots[s]
        r = self.rng
        if not sl.vars or r.chance(1, 3):
            if r.chance(1, 15):
                vid = self.some_id(0) if r.chance(1, 2) else len(sl.vars) + r.below(3)
                self.count('id:invalid')
                return vid, [], self.sizes[s][3]
            return -1, sl.gatts, self.sizes[s][2]
        vid = r.below(len(sl.vars))
        return vid, sl.vars[vid]['atts'], self.sizes[s][3]

    def op_putatt(self, s):
        sl = self.slots[s]
        r = self.rng
        vid, atts, hsz = self.att_target(s)
        names = [a[0] for a in atts]
        text = r.chance(1, 3)
        maxt = 11 if self.fmts[s] == 5 else 6
        xtype = 2 if text else r.choice([t for t in range(1, maxt + 1) if t != 2])
        special = r.below(30)
        if atts and r.chance(2, 5):
            a = r.choice(atts)
            raw = self.variant(a[0])
            self.count('putatt:overwrite')
            if not r.chance(1, 3):      # keep the type, vary the length: smaller / equal / larger
                xtype, text = a[1], a[1] == 2
        elif special == 0:
            raw = self.bad_name()
        elif special <= 3 and 0 <= vid < len(sl.vars):
            raw = FILLVALUE
            self.count('putatt:_FillValue')
            vt = sl.vars[vid]['type']
            if r.chance(3, 4):
                xtype, text = vt, vt == 2
        else:
            raw = self.fresh_name(names, hsz)
        if special == 4 and not text:
            xtype = r.choice([0, -3, 12, 99, 2, 7 if self.fmts[s] != 5 else 2, 11 if self.fmts[s] != 5 else 12])
            self.count('putatt:badtype')
        vals = self.values(xtype, text)
        if raw == FILLVALUE and r.chance(3, 4):
            vals = self.values(xtype, text)[:1] or [1]
            if not text:
                lo, hi = XR.get(xtype, (-100, 100))
                vals = [max(lo, min(hi, vals[0]))]
        self.send('PUTATT %d %d %s %s %d %d%s' % (s, vid, tok(raw), 'T' if text else 'L', xtype, len(vals),
                                                   ''.join(' %d' % v for v in vals)), 'mut')

    def existing_att_name(self, atts, hsz):
        r = self.rng
        if atts and not r.chance(1, 8):
            return self.variant(r.choice(atts)[0])
        self.count('att:absent-name')
        return self.fresh_name([a[0] for a in atts], hsz, 'ascii') if r.chance(3, 4) else b''

    def op_renatt(self, s):
        r = self.rng
        vid, atts, hsz = self.att_target(s)
        old = self.existing_att_name(atts, hsz)
        k = r.below(12)
        if k == 0:
            new = self.bad_name()
        elif k == 1 and atts:
            new = r.choice(atts)[0]          # in use (possibly itself)
            self.count('rename:in-use')
        else:
            stored = nfc(old)
            kind = None
            if not self.slots[s].indef and r.chance(2, 3):   # data mode: not longer than the old name
                n = max(1, len(stored) - r.below(2))
                new = self.ascii_name(n, n)
            else:
                new = self.fresh_name([a[0] for a in atts], hsz, kind)
        self.send('RENATT %d %d %s %s' % (s, vid, tok(old), tok(new)), 'mut')

    def op_delatt(self, s):
        vid, atts, hsz = self.att_target(s)
        self.send('DELATT %d %d %s' % (s, vid, tok(self.existing_att_name(atts, hsz))), 'mut')

    def name_into_bucket(self, target, existing, size):
        """a fresh legal name whose normalised form hashes into the same bucket as `target` (table size `size`)"""
        t = bern(target, size)
        for _ in range(200000):
            c = self.ascii_name(2, 8)
            if bern(c, size) == t and c not in existing:
                return c
        return None

    def gadget_unsorted_delete(self, s, vid=None, reopen=None):
        """rename a LOW id into the bucket of a HIGHER id (hash_replace appends: the bucket is no longer increasing), delete an id
        strictly between the two (hash_delete must still renumber the higher id), then look the higher one up / overwrite it;
        optionally enddef + close + reopen.  Define mode only."""
        r = self.rng
        sl = self.slots[s]
        if not (sl.open and sl.indef and not sl.rdonly):
            return False
        if vid is None:
            vid = -1 if (not sl.vars or r.chance(1, 2)) else r.below(len(sl.vars))
        hsz = self.sizes[s][2] if vid == -1 else self.sizes[s][3]
        atts = lambda: (sl.gatts if vid == -1 else sl.vars[vid]['atts'])
        guard = 0
        while len(atts()) < 4 + r.below(3) and guard < 8:
            guard += 1
            nm = self.fresh_name([a[0] for a in atts()], hsz, r.choice(['ascii', 'short', 'collide']))
            self.send('PUTATT %d %d %s T 2 2 %d %d' % (s, vid, tok(nm), r.range(32, 120), r.range(32, 120)), 'mut')
            self.refresh(s)
        A = [a for a in atts() if a[0] != FILLVALUE]
        idx = [i for i, a in enumerate(atts()) if a[0] != FILLVALUE]
        if len(A) < 3:
            return False
        lo = r.below(len(A) - 2)
        hi = r.range(lo + 2, len(A) - 1)
        mid = r.range(lo + 1, hi - 1)
        low, high, middle = A[lo], A[hi], A[mid]
        new = self.name_into_bucket(high[0], [a[0] for a in atts()], hsz)
        if new is None:
            return False
        self.count('seq:rename-low-id-into-bucket-of-higher-id:%s:hsize%d' % ('gatt' if vid == -1 else 'vatt', hsz))
        if self.model(self.send('RENATT %d %d %s %s' % (s, vid, tok(low[0]), tok(new)), 'mut')) != '0':
            self.refresh(s)
            return False
        self.refresh(s)
        ok = self.model(self.send('DELATT %d %d %s' % (s, vid, tok(middle[0])), 'mut')) == '0'
        self.refresh(s)
        if not ok:
            return False
        self.count('seq:then-delete-id-between')
        # the higher attribute must still be found by name, and an overwrite must not append a duplicate
        self.send('INQATTID %d %d %s' % (s, vid, tok(high[0])), 'inq')
        self.send('GETATT %d %d %s %s' % (s, vid, tok(high[0]), 'T' if high[1] == 2 else 'L'), 'inq')
        if high[1] == 2:
            self.send('PUTATT %d %d %s T 2 1 %d' % (s, vid, tok(high[0]), r.range(32, 120)), 'mut')
        else:
            self.send('PUTATT %d %d %s L %d 1 1' % (s, vid, tok(high[0]), high[1]), 'mut')
        self.refresh(s)
        self.send('INQATTID %d %d %s' % (s, vid, tok(new)), 'inq')
        if r.chance(1, 2):      # a second delete while the bucket is still unsorted
            rest = [a for a in atts() if a[0] not in (FILLVALUE, nfc(new))]
            if rest:
                self.send('DELATT %d %d %s' % (s, vid, tok(r.choice(rest)[0])), 'mut')
                self.refresh(s)
                self.count('seq:second-delete')
        if reopen if reopen is not None else r.chance(1, 3):
            self.count('seq:then-close-reopen')
            if self.model(self.send('ENDDEF %d' % s, 'mode')) == '0':
                sl.indef, sl.ever_enddef = False, True
                self.refresh(s)
                self.send('DISK %d' % s, 'disk')
            self.do_close(s)
            self.do_open(s, True)
            if self.slots[s].open and self.model(self.send('REDEF %d' % s, 'mode')) == '0':
                self.slots[s].indef = True
        return True

    def gadget_rename_into_bucket(self, s, what):
        """dims / vars: ncmpio_update_name_lookup_table appends too — rename a low id into the bucket of a higher id, then every
        lookup by name (DUMP) and the bucket lists (TAB) are compared; works in define and data mode (same length in data mode)"""
        r = self.rng
        sl = self.slots[s]
        objs = [d[0] for d in sl.dims] if what == 'dim' else [v['name'] for v in sl.vars]
        if len(objs) < 2 or not sl.open or sl.rdonly:
            return False
        hsz = self.sizes[s][0 if what == 'dim' else 1]
        lo = r.below(len(objs) - 1)
        hi = r.range(lo + 1, len(objs) - 1)
        new = self.name_into_bucket(objs[hi], objs, hsz)
        if new is None:
            return False
        if not sl.indef:
            if len(objs[lo]) < 2:
                return False
            t = bern(objs[hi], hsz)
            new = None
            for _ in range(200000):
                c = self.ascii_name(len(objs[lo]), len(objs[lo]))
                if bern(c, hsz) == t and c not in objs:
                    new = c
                    break
            if new is None:
                return False
        self.count('seq:rename-low-id-into-bucket-of-higher-id:%s:hsize%d' % (what, hsz))
        self.send('%s %d %d %s' % ('RENDIM' if what == 'dim' else 'RENVAR', s, lo, tok(new)), 'mut')
        self.refresh(s)
        self.send('%s %d %s' % ('INQDIMID' if what == 'dim' else 'INQVARID', s, tok(objs[hi])), 'inq')
        self.send('%s %d %s' % ('INQDIMID' if what == 'dim' else 'INQVARID', s, tok(new)), 'inq')
        if not sl.indef and sl.ever_enddef:
            self.send('DISK %d' % s, 'disk')
        return True

    def directed_marks(self, part, nparts):
        """directed history: every constructed mark sequence and its would-be-colliding DISTINCT sibling as dimension, variable,
        global-attribute and variable-attribute name (def / put_att / rename / inq by another spelling)"""
        r = self.rng
        self.fmts = [5, 5]
        self.force_sizes = [r.choice([1, 2, 8, 256]) for _ in range(4)]
        self.do_create(0)
        self.force_sizes = None
        self.send('DEFDIM 0 %s 2' % tok(b'd0'), 'mut')
        self.send('DEFVAR 0 %s 4 1 0' % tok(b'v0'), 'mut')
        items = MARKNAMES[part::nparts]
        for i, (q, sib) in enumerate(items):
            names = [q] + sib
            how = i % 4
            for nm in names:
                raw = nm.encode('utf-8')
                if how == 0:
                    self.send('DEFDIM 0 %s 1' % tok(raw), 'mut')
                    self.send('INQDIMID 0 %s' % tok(unicodedata.normalize('NFD', nm).encode('utf-8')), 'inq')
                elif how == 1:
                    self.send('DEFVAR 0 %s 4 0' % tok(raw), 'mut')
                    self.send('INQVARID 0 %s' % tok(unicodedata.normalize('NFD', nm).encode('utf-8')), 'inq')
                elif how == 2:
                    self.send('PUTATT 0 -1 %s T 2 1 %d' % (tok(raw), 48 + i % 60), 'mut')
                    self.send('INQATTID 0 -1 %s' % tok(unicodedata.normalize('NFD', nm).encode('utf-8')), 'inq')
                else:
                    tmp = ('t%d' % i).encode()
                    self.send('PUTATT 0 0 %s L 4 1 %d' % (tok(tmp), i), 'mut')
                    self.send('RENATT 0 0 %s %s' % (tok(tmp), tok(raw)), 'mut')
                    self.send('GETATT 0 0 %s L' % tok(unicodedata.normalize('NFD', nm).encode('utf-8')), 'inq')
            self.count('marks:sequence')
            if sib:
                self.count('marks:with-colliding-sibling')
            if i % 8 == 7:
                self.refresh(0)
        self.refresh(0)
        # rename a dimension and a variable to such names too
        q, sib = items[0]
        self.send('RENDIM 0 0 %s' % tok(('r' + q).encode('utf-8')), 'mut')
        self.send('RENVAR 0 0 %s' % tok(('r' + q).encode('utf-8')), 'mut')
        self.refresh(0)
        if self.model(self.send('ENDDEF 0', 'mode')) == '0':
            self.slots[0].indef, self.slots[0].ever_enddef = False, True
            self.send('DISK 0', 'disk')
        self.do_close(0)
        self.do_open(0, False)
        self.do_close(0)

    def directed_unsorted(self, sizes, fmt):
        """directed history: one file with the given table sizes [dim, var, gattr, vattr]; the rename-then-delete sequence on the
        global list and on two variables' lists, rename-into-bucket for dims and vars, then close / reopen with other sizes"""
        self.fmts = [fmt, fmt]
        self.force_sizes = list(sizes)
        self.do_create(0)
        self.force_sizes = None
        for nm, sz in ((b'x', 3), (b'y', 2), (b'zz', 4), (b'time', 0)):
            self.send('DEFDIM 0 %s %d' % (tok(nm), sz), 'mut')
        for nm in (b'va', b'vb', b'vc'):
            self.send('DEFVAR 0 %s 4 1 0' % tok(nm), 'mut')
        self.refresh(0)
        self.gadget_unsorted_delete(0, -1, reopen=False)
        self.gadget_unsorted_delete(0, 0, reopen=False)
        self.gadget_rename_into_bucket(0, 'dim')
        self.gadget_rename_into_bucket(0, 'var')
        self.gadget_unsorted_delete(0, 1, reopen=True)
        self.gadget_unsorted_delete(0, -1, reopen=True)
        self.gadget_rename_into_bucket(0, 'dim')
        self.gadget_rename_into_bucket(0, 'var')
        self.gadget_unsorted_delete(0, 2, reopen=False)
        self.do_close(0)

    def op_copyatt(self, s):
        r = self.rng
        s2 = s
        if self.slots[1 - s].open and r.chance(1, 2):
            s2 = 1 - s
        vid, atts, hsz = self.att_target(s)
        vid2, _, _ = self.att_target(s2)
        if r.chance(1, 10):
            vid2 = vid if s2 == s else vid2
        name = self.existing_att_name(atts, hsz)
        if nfc(name) == FILLVALUE:
            name = self.fresh_name([a[0] for a in atts], hsz, 'ascii')
        self.send('COPYATT %d %d %s %d %d' % (s, vid, tok(name), s2, vid2), 'mut')
        return s2

    def op_defdim(self, s):
        sl = self.slots[s]
        r = self.rng
        k = r.below(20)
        raw = self.bad_name() if k == 0 else (r.choice(sl.dims)[0] if k == 1 and sl.dims else
                                              self.fresh_name([d[0] for d in sl.dims], self.sizes[s][0]))
        if k == 2:
            size = r.choice([-1, -5, 2**31, 2**31 + 7, 2**40])
            self.count('dim:bad-size')
        elif k == 3:
            size = 2**31 - 1
        elif k in (4, 5):
            size = 0
        else:
            size = r.range(1, 4)
        self.send('DEFDIM %d %s %d' % (s, tok(raw), size), 'mut')

    def op_rendim(self, s):
        sl = self.slots[s]
        r = self.rng
        did = self.some_id(len(sl.dims))
        k = r.below(12)
        if k == 0:
            new = self.bad_name()
        elif k == 1 and sl.dims:
            new = r.choice(sl.dims)[0]
            self.count('rename:in-use')
        elif k == 2 and 0 <= did < len(sl.dims):
            new = self.variant(sl.dims[did][0])      # rename to itself (another spelling of the same name)
            self.count('rename:self')
        elif not sl.indef and r.chance(2, 3) and 0 <= did < len(sl.dims):
            n = max(1, len(sl.dims[did][0]) - r.below(2))
            new = self.ascii_name(n, n)
        else:
            new = self.fresh_name([d[0] for d in sl.dims], self.sizes[s][0])
        self.send('RENDIM %d %d %s' % (s, did, tok(new)), 'mut')

    def op_defvar(self, s):
        sl = self.slots[s]
        r = self.rng
        k = r.below(20)
        raw = self.bad_name() if k == 0 else (r.choice(sl.vars)['name'] if k == 1 and sl.vars else
                                              self.fresh_name([v['name'] for v in sl.vars], self.sizes[s][1]))
        maxt = 11 if self.fmts[s] == 5 else 6
        xtype = r.range(1, maxt)
        if k == 2:
            xtype = r.choice([0, -1, 12, 7 if self.fmts[s] != 5 else 13, 11 if self.fmts[s] != 5 else 100])
            self.count('var:bad-type')
        fixed = [i for i, d in enumerate(sl.dims) if d[1] != 0 and d[1] < 100]
        unl = [i for i, d in enumerate(sl.dims) if d[1] == 0]
        nd = r.choice([0, 1, 1, 2, 2, 3])
        dimids = []
        if unl and nd and r.chance(1, 3):
            dimids.append(unl[0])
        while len(dimids) < nd and fixed:
            dimids.append(r.choice(fixed))
        if k == 3 and unl and dimids:
            dimids.append(unl[0])                 # NC_EUNLIMPOS
            self.count('var:unlimpos')
        if k == 4:
            dimids.append(r.choice([-1, len(sl.dims), len(sl.dims) + 9]))
            self.count('id:invalid')
        self.send('DEFVAR %d %s %d %d%s' % (s, tok(raw), xtype, len(dimids), ''.join(' %d' % d for d in dimids)), 'mut')

    def op_renvar(self, s):
        sl = self.slots[s]
        r = self.rng
        vid = self.some_id(len(sl.vars)) if not r.chance(1, 25) else -1
        k = r.below(12)
        if k == 0:
            new = self.bad_name()
        elif k == 1 and sl.vars:
            new = r.choice(sl.vars)['name']
            self.count('rename:in-use')
        elif not sl.indef and r.chance(2, 3) and 0 <= vid < len(sl.vars):
            n = max(1, len(sl.vars[vid]['name']) - r.below(2))
            new = self.ascii_name(n, n)
        else:
            new = self.fresh_name([v['name'] for v in sl.vars], self.sizes[s][1])
        self.send('RENVAR %d %d %s' % (s, vid, tok(new)), 'mut')

    def op_inquiry(self, s):
        sl = self.slots[s]
        r = self.rng
        k = r.below(5)
        if k == 0:
            pool = [d[0] for d in sl.dims]
            nm = self.variant(r.choice(pool)) if pool and r.chance(2, 3) else (self.ascii_name() if r.chance(3, 4) else r.choice([b'', self.ascii_name(257, 257)]))
            self.send('INQDIMID %d %s' % (s, tok(nm)), 'inq')
        elif k == 1:
            pool = [v['name'] for v in sl.vars]
            nm = self.variant(r.choice(pool)) if pool and r.chance(2, 3) else (self.ascii_name() if r.chance(3, 4) else r.choice([b'', self.ascii_name(257, 257)]))
            self.send('INQVARID %d %s' % (s, tok(nm)), 'inq')
        else:
            vid, atts, hsz = self.att_target(s)
            nm = self.existing_att_name(atts, hsz)
            if k == 2:
                self.send('INQATTID %d %d %s' % (s, vid, tok(nm)), 'inq')
            elif k == 3:
                self.send('INQATT %d %d %s' % (s, vid, tok(nm)), 'inq')
            else:
                self.send('GETATT %d %d %s %s' % (s, vid, tok(nm), r.choice('TL')), 'inq')

    def sizes_for_episode(self):
        r = self.rng
        if getattr(self, 'force_sizes', None):
            return list(self.force_sizes)
        return [r.choice([1, 2, 8, 256, 3, 64]) for _ in range(4)]

    def do_open(self, s, write):
        sz = self.sizes_for_episode()
        self.sizes[s] = sz
        a = self.model(self.send('OPEN %d %d %d %d %d %d' % (s, 1 if write else 0, sz[0], sz[1], sz[2], sz[3]), 'mode'))
        sl = self.slots[s]
        if a == '0':
            sl.open, sl.indef, sl.rdonly = True, False, not write
            self.count('reopen')
            self.refresh(s)

    def do_create(self, s):
        sz = self.sizes_for_episode()
        self.sizes[s] = sz
        self.send('CREATE %d %d %d %d %d %d' % (s, self.fmts[s], sz[0], sz[1], sz[2], sz[3]), 'mode')
        sl = self.slots[s] = Slot()
        sl.open, sl.indef, sl.exists = True, True, True
        self.refresh(s)

    def do_close(self, s):
        sl = self.slots[s]
        if sl.open:
            self.send('CLOSE %d' % s, 'mode')
            sl.open = False
            sl.ever_enddef = True

    def episode(self):
        r = self.rng
        f0 = r.choice([1, 2, 5, 5])
        # the two files of an episode have different formats only when the tree rejects a copy of an extended-type
        # attribute into a classic file (repair of C07-D1); without the repair such a copy produces an unreadable file
        self.fmts = [f0, r.choice([1, 2, 5, 5]) if self.mixed and r.chance(1, 2) else f0]
        if self.fmts[0] != self.fmts[1]:
            self.count('episode:mixed-formats')
        self.do_create(0)
        if r.chance(1, 2):
            self.do_create(1)
        else:
            self.slots[1] = Slot()
        for _ in range(self.nops):
            opens = [i for i in (0, 1) if self.slots[i].open]
            if not opens:
                s = r.choice([i for i in (0, 1) if self.slots[i].exists])
                self.do_open(s, not r.chance(1, 5))
                continue
            s = r.choice(opens)
            sl = self.slots[s]
            k = r.below(100)
            touched = [s]
            if sl.rdonly:
                if k < 25:
                    self.do_close(s); continue
                ops = [self.op_putatt, self.op_renatt, self.op_delatt, self.op_rendim, self.op_renvar, self.op_inquiry,
                       self.op_inquiry, self.op_inquiry]
                if k < 35:
                    self.send('REDEF %d' % s, 'mode'); self.count('rdonly-mutation'); continue
                op = r.choice(ops)
                if op is not self.op_inquiry:
                    self.count('rdonly-mutation')
                op(s)
            elif sl.indef:
                if k < 5:
                    if self.model(self.send('ENDDEF %d' % s, 'mode')) == '0':
                        sl.indef, sl.ever_enddef = False, True
                elif k < 7:
                    self.do_close(s); continue
                elif k < 8:
                    self.send('REDEF %d' % s, 'mode')
                elif k < 20:
                    self.op_defdim(s)
                elif k < 33:
                    self.op_defvar(s)
                elif k < 38:
                    if r.chance(3, 4):
                        self.gadget_unsorted_delete(s)
                    else:
                        self.gadget_rename_into_bucket(s, r.choice(['dim', 'var']))
                    continue
                elif k < 60:
                    self.op_putatt(s)
                elif k < 68:
                    self.op_renatt(s)
                elif k < 78:
                    self.op_delatt(s)
                elif k < 84:
                    touched.append(self.op_copyatt(s))
                elif k < 89:
                    self.op_rendim(s)
                elif k < 94:
                    self.op_renvar(s)
                else:
                    self.op_inquiry(s)
            else:   # data mode
                if k < 10:
                    if self.model(self.send('REDEF %d' % s, 'mode')) == '0':
                        sl.indef = True
                elif k < 16:
                    self.do_close(s); continue
                elif k < 18:
                    self.send('ENDDEF %d' % s, 'mode')
                elif k < 48:
                    self.op_putatt(s)
                elif k < 60:
                    self.op_renatt(s)
                elif k < 62:
                    self.gadget_rename_into_bucket(s, r.choice(['dim', 'var']))
                    continue
                elif k < 68:
                    self.op_rendim(s)
                elif k < 76:
                    self.op_renvar(s)
                elif k < 82:
                    touched.append(self.op_copyatt(s))
                elif k < 85:
                    self.op_delatt(s)
                elif k < 87:
                    self.op_defdim(s)
                elif k < 89:
                    self.op_defvar(s)
                else:
                    self.op_inquiry(s)
            last_ans = self.model(self.answers[-1]) if self.tags[-1] == 'mut' else None
            for t in dict.fromkeys(touched):
                if self.slots[t].open:
                    self.refresh(t)
                    tl = self.slots[t]
                    if tl.ever_enddef and (r.chance(1, 6) or (not tl.indef and last_ans is not None and last_ans.split(' ')[0] in ('0', '-60'))):
                        self.send('DISK %d' % t, 'disk')
                        if not tl.indef:
                            self.count('disk-check-after-data-mode-change')
        for s in (0, 1):
            self.do_close(s)


def run_check(tier, seed):
    V = Verdict(PROP, tier, seed)
    rng = SplitMix64(seed * 1000003 + 7)
    V.assumptions = [
        'hash function, Unicode NFC (utf8proc) and name legality (ncmpii_check_name) are PARAMETERS of the model; the theorems hold for every instance. The driver instantiates the hash with a transcription of ncmpio_Bernstein_hash (bucket lists are compared with the real tables), NFC with Python unicodedata and legality with a Python transcription of check_name_CDF2; all three are exercised against the real library on every run, not proved',
        'header encoding/decoding (close + reopen gives the same lists) is the subject of C03/C04: the model treats the header on disk as the plain lists, the harness checks it through a second read-only handle',
        'safe-mode (PNETCDF_SAFE_MODE) consistency checks and multi-process runs are not part of this check (C08)',
        'attribute values go through put_att_text / put_att_longlong and come back through get_att_text / get_att_longlong; the conversion rules themselves are C09',
    ]
    V.cov['trusted_base'] = TRUSTED_BASE_COMMON + ['hand transcription of the C in lean/PnVerif/Model/Meta*.lean, tied by the correspondence stream `meta`',
                                                   'harness/c07_meta.c, checks/c07.py (generator, canonicalisation)']
    tree = build_impl('plain')
    wd = workdir('c07')
    try:
        # ---- S3
        ok, out = lake_build(['PnVerif.Props.C07', 'c07drv'])
        failed_thms = set()
        if not ok:
            for f, ln, msg in lake_errors(out):
                t = theorem_at(f, ln)
                if t:
                    failed_thms.add(t)
            log('[S3] lake build FAILED; theorems that no longer check:', sorted(failed_thms)[:20])
        obl = obligations_of('PnVerif/Props/C07.lean')
        discharged, bad = axiom_audit('PnVerif.Props.C07', obl, 'PnVerif.Props.C07') if ok else ([], [])
        forb = grep_forbidden([os.path.join(LEAN, f) for f in LEANFILES])
        V.cov['obligations'] = len(obl)
        V.cov['discharged'] = len(discharged)
        V.cov['checker_cmd'] = 'cd lean && lake build PnVerif.Props.C07 c07drv && lake env lean <#print axioms of every name in PnVerif.Props.C07.obligations>'
        if tier == 'thorough' and ok:
            lc = leanchecker(['PnVerif.Props.C07'])
            V.cov['leanchecker'] = 'ok' if not lc else str(lc)
            if lc:
                bad.append(('leanchecker', lc))
        proof_broken = (not ok) or bad or forb or not obl
        log('[S3] obligations=%d discharged=%d bad=%s forbidden=%s' % (len(obl), len(discharged), bad[:3], forb[:3]))
        # ---- S4
        drv = os.path.join(LEAN, '.lake/build/bin/c07drv')
        if not os.path.exists(drv):
            V.broken_tie('Lean driver c07drv does not build', out[-1500:])
            return V.finish()
        hexe = cc(tree, [os.path.join(VERIF, 'harness/c07_meta.c')], os.path.join(wd, 'c07h'),
                  extra=['-I' + tree + '/src/drivers/ncmpio', '-I' + tree + '/src/drivers/include', '-I' + tree + '/src/include', '-DHAVE_CONFIG_H'])
        nep, nops = (24, 80) if tier == 'quick' else (400, 250)
        scripts = []
        # directed script: the one place where the code does not follow the reference model (known defect):
        # copy_att of an NC_UINT64 attribute from a CDF-5 file into a CDF-1 file
        W = ['CREATE 0 5 8 8 8 8', 'CREATE 1 1 8 8 8 8', 'PUTATT 0 -1 %s L 11 1 5' % tok(b'big'), 'COPYATT 0 -1 %s 1 -1' % tok(b'big')]
        # which variant of ncmpio_copy_att does the tree follow?  (witness of copy_att_refines_counterexample)
        dv = os.path.join(wd, 'variant')
        os.makedirs(dv, exist_ok=True)
        pv = subprocess.run([hexe, dv], input='\n'.join(W) + '\n', stdout=subprocess.PIPE, stderr=subprocess.PIPE, text=True, timeout=300)
        wa = pv.stdout.split('\n')
        copychk = 1 if len(wa) > 3 and wa[3].strip() == '-232' else 0
        V.cov['copy_att_variant'] = 'rejects extended types for CDF-1/2 output (repaired)' if copychk else 'as in the source: no format check (C07-D1)'
        log('[S4] copy_att of an NC_UINT64 attribute into a CDF-1 file answers %r -> model variant copyChk=%d' % (wa[3] if len(wa) > 3 else '?', copychk))
        cfg = 'CFG %d' % copychk
        L = [cfg] + W
        if copychk:     # the consequence the defect had: the output file must now be readable after close and reopen
            L += ['DUMP 1', 'ENDDEF 1', 'CLOSE 1', 'OPEN 1 0 8 8 8 8', 'DUMP 1', 'CLOSE 1', 'CLOSE 0']
        p = subprocess.run([drv], input='\n'.join(L) + '\n', stdout=subprocess.PIPE, text=True)
        scripts.append(('cross-format-copy', L, p.stdout.split('\n')[:len(L)], ['mode', 'mode', 'mode', 'mut', 'mut'] + ['mode'] * (len(L) - 5)))
        cdir = os.path.join(VERIF, 'corpus', PROP)
        if os.path.isdir(cdir):
            for fn in sorted(os.listdir(cdir)):
                if fn.endswith('.txt'):
                    L = [cfg] + [l for l in open(os.path.join(cdir, fn)).read().split('\n') if l and not l.startswith('CFG')]
                    p = subprocess.run([drv], input='\n'.join(L) + '\n', stdout=subprocess.PIPE, text=True)
                    scripts.append(('corpus/' + fn, L, p.stdout.split('\n')[:len(L)], ['mode'] + ['corpus'] * (len(L) - 1)))
        dist = {}
        t1 = Timer()
        # directed histories: rename a low id into the bucket of a higher id, delete an id between them (attributes, global and
        # per variable), rename-into-occupied-bucket for dims and vars, close/reopen — table sizes 1, 2, 3 and the defaults
        for di, (sizes, fmt) in enumerate([((1, 1, 1, 1), 1), ((2, 2, 2, 2), 2), ((3, 3, 3, 3), 5), ((256, 256, 64, 8), 5)]):
            p = subprocess.Popen([drv], stdin=subprocess.PIPE, stdout=subprocess.PIPE, text=True, bufsize=1)
            g = Gen(rng, p, 0)
            g.send(cfg, 'mode')
            g.directed_unsorted(sizes, fmt)
            p.stdin.close()
            p.wait()
            scripts.append(('unsorted-bucket-%d' % di, g.lines, g.answers, g.tags))
            for k, v in g.dist.items():
                dist[k] = dist.get(k, 0) + v
        nparts = 6 if tier == 'quick' else 1
        p = subprocess.Popen([drv], stdin=subprocess.PIPE, stdout=subprocess.PIPE, text=True, bufsize=1)
        g = Gen(rng, p, 0)
        g.send(cfg, 'mode')
        g.directed_marks(seed % nparts, nparts)        # quick: one sixth of the constructed mark sequences (chosen by the seed), thorough: all
        p.stdin.close()
        p.wait()
        scripts.append(('nfc-marks', g.lines, g.answers, g.tags))
        for k, v in g.dist.items():
            dist[k] = dist.get(k, 0) + v
        for ep in range(nep):
            p = subprocess.Popen([drv], stdin=subprocess.PIPE, stdout=subprocess.PIPE, text=True, bufsize=1)
            g = Gen(rng, p, nops)
            g.mixed = bool(copychk)
            g.send(cfg, 'mode')
            g.episode()
            p.stdin.close()
            p.wait()
            scripts.append(('episode%d' % ep, g.lines, g.answers, g.tags))
            for k, v in g.dist.items():
                dist[k] = dist.get(k, 0) + v
        log('[S4] generated %d scripts, %d request lines in %.1fs' % (len(scripts), sum(len(s[1]) for s in scripts), t1.s()))
        t2 = Timer()
        evals, tie_diffs, prop_fail, nontrivial = 0, [], [], set()
        leak = []
        for name, lines, answers, tags in scripts:
            d = os.path.join(wd, name.replace('/', '_'))
            os.makedirs(d, exist_ok=True)
            pc = subprocess.run([hexe, d], input='\n'.join(lines) + '\n', stdout=subprocess.PIPE, stderr=subprocess.PIPE, text=True,
                                timeout=900)
            co = pc.stdout.split('\n')
            if pc.returncode != 0 or len(co) < len(lines):
                k = max(0, min(len(co) - 1, len(lines) - 1))
                prop_fail.append(dict(sig='meta:crash:' + lines[k].split(' ')[0], what='harness process died (rc=%s) at request %d: %s' %
                                      (pc.returncode, k, lines[k][:200]), script=lines[:k + 1], stderr=pc.stderr[-400:]))
                continue
            m = [x for x in pc.stderr.split('\n') if x.startswith('malloc_size')]
            if m and m[-1].split()[1] != '0':
                leak.append((name, m[-1]))
            last_tab, last_dump = {}, {}
            for i, line in enumerate(lines):
                evals += 1
                parts = answers[i].split(' ## ')
                o0 = line.split(' ')
                if o0[0] == 'TAB':
                    last_tab[o0[1]] = parts[0]
                elif o0[0] == 'DUMP':
                    last_dump[o0[1]] = parts[0]
                elif o0[0] == 'DELATT' and parts[0] == '0':
                    c = delete_class(last_tab.get(o0[1], ''), last_dump.get(o0[1], ''), int(o0[2]), o0[3].split(':')[1])
                    dist['del:' + c] = dist.get('del:' + c, 0) + 1
                    if c != 'all-buckets-increasing':
                        nontrivial.add('%s#%d' % (name, i))
                mod = parts[0]
                spec = mod if len(parts) < 2 or parts[1] == '=' else parts[1]
                op = line.split(' ')[0]
                impl = co[i]
                if impl != spec:
                    prop_fail.append(dict(sig='meta:%s:%s' % (op, difference_class(impl, spec)), what='request %s: implementation answers %s, sequential reference model %s'
                                          % (line[:200], impl[:300], spec[:300]), script=lines[:i + 1], impl=impl, spec=spec, model=mod))
                elif impl != mod:
                    tie_diffs.append(dict(script=name, index=i, line=line[:300], impl=impl[:400], model=mod[:400]))
                if op == 'DUMP' and not ids_agree(impl):
                    prop_fail.append(dict(sig='meta:name-id-disagree', what='lookup by name disagrees with lookup by id: ' + impl[:300], script=lines[:i + 1]))
                if tags[i] in ('mut', 'mode', 'inq') and op != 'CFG':
                    e = impl.split(' ')[0]
                    dist['op:' + op] = dist.get('op:' + op, 0) + 1
                    if e not in ('0', 'closed'):
                        try:
                            dist['err:' + ERR.get(int(e), e)] = dist.get('err:' + ERR.get(int(e), e), 0) + 1
                        except ValueError:
                            pass
                        nontrivial.add(line)
                    if op in ('DELATT', 'RENATT', 'RENDIM', 'RENVAR', 'COPYATT', 'OPEN', 'REDEF') or ':' in line and nontriv_name(line):
                        nontrivial.add(line)
                if op == 'TAB' and has_collision(impl):
                    dist['tab:collision-dumps'] = dist.get('tab:collision-dumps', 0) + 1
                    nontrivial.add('%s#%d' % (name, i))
                if op == 'DISK':
                    nontrivial.add('%s#%d' % (name, i))
        log('[S4] %d requests replayed on the real library in %.1fs: %d spec differences, %d model differences' %
            (evals, t2.s(), len(prop_fail), len(tie_diffs)))
        V.cov['evaluations'] = evals
        V.cov['distinct_nontrivial'] = len(nontrivial)
        V.cov['traces_validated_against_impl'] = len(scripts) - len({t['script'] for t in tie_diffs})
        V.cov['rule'] = ('stream `meta`: %d episodes x %d operations (plus DUMP+TAB after every operation, DISK after data-mode changes), each episode a fresh '
                         'pair of files with hash sizes drawn from {1,2,3,8,64,256} per table and format CDF-1/2/5; names: ASCII, names chosen to collide with an '
                         'existing name under the real Bernstein hash, composed/decomposed UTF-8 spellings, lengths up to NC_MAX_NAME and beyond, illegal names; '
                         'ids mostly valid, some negative/huge. non-trivial = distinct request that returned an error, or is a delete/rename/copy/reopen/redef, or uses a '
                         'colliding / non-NFC / maximal-length name, or a bucket dump showing a collision, or an on-disk check, or a delete from a list '
                         'whose table has a non-increasing bucket. Plus 4 directed histories (table sizes 1, 2, 3, defaults) and a random gadget: rename a low '
                         'id into the bucket of a higher id, delete an id between them, look up / overwrite the higher one, close + reopen; '
                         'distribution keys seq:* (generated) and del:* (measured on the model tables before each successful del_att)' % (nep, nops))
        V.cov['distribution'] = dict(sorted(dist.items()))
        V.cov['samples'] = [l[:240] for l in (scripts[-1][1][:1] + [x for x in scripts[-1][1] if x.split(' ')[0] in ('PUTATT', 'RENATT', 'DELATT', 'COPYATT')][:4])]
        V.cov['malloc_leaks_after_close'] = leak[:5]
        # ---- S5
        nf = 0
        for pf in prop_fail:
            if V.failing_input(pf['sig'], pf['what'], dict(script=pf['script'], impl=pf.get('impl'), spec=pf.get('spec'),
                                                            harness='harness/c07_meta.c <dir> < script ; lean/.lake/build/bin/c07drv < script'),
                               tag='in%d' % nf):
                nf += 1
                if nf >= 3:
                    break
        if nf == 0:
            if tie_diffs:
                V.broken_tie('correspondence stream meta: model and implementation differ', tie_diffs[:8])
            if proof_broken:
                V.broken_tie('proof obligations no longer check', dict(failed_theorems=sorted(failed_thms), axiom_audit=bad[:10], forbidden=forb[:10],
                                                                        lake_tail=out[-1500:] if not ok else ''))
        return V.finish()
    finally:
        cleanup(wd)


def difference_class(impl, spec):
    a, b = impl.split(' ')[0], spec.split(' ')[0]
    if (a, b) == ('0', '-232'):
        return 'extended-type-into-classic-file'
    return 'err%s-vs-%s' % (a, b) if a != b else 'content'


def ids_agree(dump):
    """property oracle evaluated directly on the implementation's DUMP: id found by name == id of the object"""
    for part in dump.split(' | ')[1:]:
        t = part.split(' ')
        try:
            if t[0][0] == 'D' and (t[4] != '0' or t[0][1:] != t[5]):
                return False
            if t[0][0] == 'V' and (t[7] != '0' or t[0][1:] != t[8]):
                return False
            if t[0][0] == 'A' and (t[6] != '0' or t[0].split('.')[1] != t[7]):
                return False
        except IndexError:
            return False
    return True


def delete_class(tab, dump, varid, namehex):
    """classify a successful del_att by the state of that attribute list's name table just before it (model TAB/DUMP):
    is there a bucket that is not increasing, and does it hold an id > deleted BEFORE an id < deleted (the case in which a
    renumbering that assumes increasing buckets goes wrong)"""
    import re
    did = None
    for part in dump.split(' | ')[1:]:
        t = part.split(' ')
        if t[0].startswith('A%d.' % varid) and t[2] == namehex:
            did = int(t[0].split('.')[1])
    tabs = tab.split(' ')
    sel = None
    if varid == -1:
        sel = [x for x in tabs if x.startswith('G{')]
        sel = sel[0] if sel else None
    else:
        av = [x for x in tabs if x.startswith('A{')]
        sel = av[varid] if 0 <= varid < len(av) else None
    if sel is None or did is None:
        return 'unknown'
    res = 'all-buckets-increasing'
    for b in re.findall(r'\d+:([\d,]+)', sel):
        ids = [int(x) for x in b.split(',')]
        if ids != sorted(ids):
            res = 'some-bucket-not-increasing' if res == 'all-buckets-increasing' else res
            for a in range(len(ids)):
                if ids[a] > did and any(x < did for x in ids[a + 1:]):
                    res = 'larger-id-before-smaller-id-in-a-bucket'
    return res


def has_collision(tab):
    import re
    return any(',' in b for b in re.findall(r'\d+:([\d,]+)', tab))


def nontriv_name(line):
    for t in line.split(' '):
        p = t.split(':')
        if len(p) == 3 and (p[0] != p[1] or p[2] == '0' or len(p[0]) >= 2 * 200):
            return True
    return False


if __name__ == '__main__':
    tier, seed, replay = args(sys.argv[1:])
    sys.exit(run_check(tier, seed))
