#!/usr/bin/env python3
"""C06 — redefinition preserves existing data; abort is all-or-nothing (DESIGN.md §4 C06).

S3  lake build PnVerif.Props.C06 + c06drv, axiom audit of every obligation.
S4  (unit)  the real static functions move_file_block / move_fixed_vars / move_record_vars of the scratch
            tree (MOVE_UNIT lowered through a sed-ed copy of ncmpio_enddef.c made at run time) on 1..4
            (thorough 1..8) ranks, resulting file diffed byte for byte against lean/Driver/C06.lean;
    (api)   random layouts x redefinition deltas x abort scenarios through the public API (harness/c06_api.c,
            real ncmpi_enddef with a small MOVE_UNIT), oracle = values written before are read back unchanged
            after enddef and after reopen, file bytes equal after abort, aborted creation removes the file;
            every (old layout, new layout, file before, file after) is also replayed through the model's
            `enddefMove` and the hypotheses `LayoutOK` of the theorem are evaluated on the real layouts;
            redefinitions also add fixed/record variables with fill mode on/off (dataset level and per variable) to
            files with 0..6 existing records: the real per-rank fill ranges (PMPI record of the hindexed view) must
            lie inside the new fill-mode variables (hypotheses of enddef_fill_touches_only_new).
"""
import os, sys, json, re, struct, subprocess
sys.path.insert(0, os.path.dirname(os.path.abspath(__file__)))
from common import *

PROP = 'C06'
M64 = 0xFFFFFFFFFFFFFFFF
NC_BYTE, NC_CHAR, NC_SHORT, NC_INT, NC_FLOAT, NC_DOUBLE, NC_UBYTE, NC_USHORT, NC_UINT, NC_INT64, NC_UINT64 = range(1, 12)
XSZ = {1: 1, 2: 1, 3: 2, 4: 4, 5: 4, 6: 8, 7: 1, 8: 2, 9: 4, 10: 8, 11: 8}
TYPES_CLASSIC = [1, 2, 3, 4, 5, 6]
TYPES_CDF5 = list(range(1, 12))


def mix(a, b, c):
    x = (((a + 1) * 0x9E3779B97F4A7C15) ^ ((b + 1) * 0xBF58476D1CE4E5B9) ^ ((c + 1) * 0x94D049BB133111EB)) & M64
    x ^= x >> 31
    x = (x * 0xD6E8FEB86659FD93) & M64
    x ^= x >> 29
    return x


def value_of(t, varid, idx, seed):
    m = mix(varid, idx, seed)
    if t == NC_CHAR:
        return 33 + m % 90
    if t in (NC_BYTE, NC_UBYTE):
        return 1 + m % 120
    if t in (NC_SHORT, NC_USHORT):
        return 1 + m % 32000
    if t == NC_FLOAT:
        return 1 + m % 16000000
    return 1 + m % 2000000000


def decode(t, hx):
    """hex of the native element -> python number"""
    x = int(hx, 16)
    if t == NC_FLOAT:
        return struct.unpack('<f', struct.pack('<I', x))[0]
    if t == NC_DOUBLE:
        return struct.unpack('<d', struct.pack('<Q', x))[0]
    bits = 8 * XSZ[t]
    if t in (NC_BYTE, NC_SHORT, NC_INT, NC_INT64) and x >= 1 << (bits - 1):
        x -= 1 << bits
    return x


def rndup(x, a):
    return (x + a - 1) // a * a


# ---------------------------------------------------------------------------------------
# schema + shadow state (the specification side: what every element must read as)
# ---------------------------------------------------------------------------------------
class Spec:
    def __init__(self, fmt):
        self.fmt = fmt
        self.dims = []          # lengths, 0 = unlimited
        self.vars = []          # (type, [dimids])
        self.written = {}       # varid -> {global idx: value}
        self.natts = 0
        self.dsfill = False     # dataset fill mode (ncmpi_set_fill)
        self.nofill = []        # per variable: no_fill flag as the library keeps it

    def addvar(self, t, dids):
        self.vars.append((t, dids))
        self.nofill.append(not self.dsfill)

    def setfill(self, m):
        self.dsfill = bool(m)
        self.nofill = [not self.dsfill] * len(self.nofill)

    def has_unlim(self):
        return 0 in self.dims

    def is_rec(self, v):
        t, d = self.vars[v]
        return len(d) > 0 and self.dims[d[0]] == 0

    def inner(self, v):
        t, d = self.vars[v]
        n = 1
        for i, di in enumerate(d):
            if i == 0 and self.dims[di] == 0:
                continue
            n *= self.dims[di]
        return n

    def vlen(self, v):
        """varp->len: bytes of the variable (of one record for record variables), padded to 4"""
        return rndup(self.inner(v) * XSZ[self.vars[v][0]], 4)

    def put(self, v, seed, start, count):
        t, d = self.vars[v]
        shape = [self.dims[di] for di in d]
        n = 1
        for c in count:
            n *= c
        w = self.written.setdefault(v, {})
        for k in range(n):
            rem, coord = k, [0] * len(d)
            for i in range(len(d) - 1, -1, -1):
                coord[i] = start[i] + rem % count[i]
                rem //= count[i]
            idx, mul = 0, 1
            for i in range(len(d) - 1, -1, -1):
                idx += coord[i] * mul
                mul *= 1 if (i == 0 and shape[0] == 0) else shape[i]
            w[idx] = value_of(t, v, idx, seed)


class Scenario:
    """one op script + what the answers must satisfy"""

    def __init__(self, nprocs, tag):
        self.nprocs, self.tag = nprocs, tag
        self.ops = []           # script lines
        self.expect = []        # (line index, kind, payload)
        self.kinds = set()

    def op(self, s, kind=None, payload=None):
        self.ops.append(s)
        if kind:
            self.expect.append((len(self.ops) - 1, kind, payload))

    def text(self):
        return '\n'.join(self.ops) + '\n'


def gen_schema(rng, sc, sp, nd_new, nv_new, allow_unlim=True):
    """append definitions of new dims / vars to the script; returns ids of the new vars"""
    types = TYPES_CDF5 if sp.fmt == 5 else TYPES_CLASSIC
    for _ in range(nd_new):
        if allow_unlim and not sp.has_unlim() and rng.chance(3, 5):
            ln = 0
        else:
            ln = rng.range(1, 6)
        sp.dims.append(ln)
        sc.op('dim %d' % ln, 'ok')
    newv = []
    for _ in range(nv_new):
        t = rng.choice(types)
        nd = rng.choice([0, 1, 1, 2, 2, 3]) if sp.dims else 0
        nd = min(nd, len(sp.dims))
        dids = []
        unl = sp.dims.index(0) if sp.has_unlim() else -1
        fixed_dims = [i for i, l in enumerate(sp.dims) if l != 0]
        if nd > 0:
            if unl >= 0 and rng.chance(1, 2):
                dids.append(unl)
            while len(dids) < nd and fixed_dims:
                dids.append(rng.choice(fixed_dims))
            if len(dids) < nd:
                nd = len(dids)
        sp.addvar(t, dids)
        newv.append(len(sp.vars) - 1)
        sc.op('var %d %d %s' % (t, len(dids), ' '.join(map(str, dids))), 'ok')
    return newv


def emit_att(sc, sp, vid, n):
    """new text attribute a<k> (k = running counter of the harness, reset by `create`) -> its name"""
    name = 'a%d' % sp.natts
    sp.natts += 1
    sc.op('att %d %d' % (vid, n), 'ok')
    return name


def gen_copy_att(rng, sc, sp, nold):
    """ncmpi_copy_att between the file under redefinition and a second (template) file that is in DATA mode"""
    sizes = [rng.range(1, 8), rng.range(20, 90), rng.range(500, 3000), rng.range(1, 3)]
    sc.op('tmake ' + ' '.join('t%d:%d' % (i, n) for i, n in enumerate(sizes)), 'ok')
    mode = rng.below(2)
    sc.op('topen %d' % mode, 'ok')
    sc.kinds.add('copy_att-from-%s-template' % ('rw' if mode else 'readonly'))
    for _ in range(rng.range(1, 3)):
        i = rng.below(len(sizes))
        srcv = rng.choice([-1, 0])
        dstv = rng.choice([-1] + list(range(len(sp.vars)))) if sp.vars else -1
        sc.op('copyatt 0 %d t%d %d' % (srcv, i, dstv), 'ok')
        sc.kinds.add('copy_att-%s-%s' % ('global' if dstv < 0 else 'var', 'large' if sizes[i] >= 500 else 'small'))
        sc.op('snap', 'snap', 'define-op:ncmpi_copy_att(template in data mode -> file in define mode, %d bytes)' % sizes[i])
    sc.op('tclose', 'ok')
    if rng.chance(1, 2):
        # the other direction: source in define mode, target in data mode -> the target's header must be written at once
        n = rng.range(1, 30)
        name = 'a%d' % sp.natts
        sc.op('tmake %s:40' % name, 'ok')
        sc.op('topen 1', 'ok')
        vid = rng.choice([-1] + list(range(len(sp.vars)))) if sp.vars else -1
        emit_att(sc, sp, vid, n)
        sc.op('tsnap', 'tsnap', 'rev-before')
        sc.op('copyatt 1 %d %s %d' % (vid, name, -1 if vid < 0 else 0), 'ok')
        sc.op('tsnap', 'tsnap', 'rev-after')
        sc.op('snap', 'snap', 'define-op:ncmpi_copy_att(file in define mode -> template in data mode)')
        sc.op('tclose', 'ok')
        sc.op('topen 0', 'ok')
        sc.op('tgetatt %d %s' % (-1 if vid < 0 else 0, name), 'tgetatt', n)
        sc.op('tclose', 'ok')
        sc.kinds.add('copy_att-into-data-mode-file')


def gen_enddef(rng, sc):
    if rng.chance(1, 2):
        sc.op('enddef', 'ok')
        sc.kinds.add('enddef-default')
    else:
        hm = rng.choice([0, 0, 8, 100, 1000])
        va = rng.choice([0, 4, 4, 16, 64, 512, 1024])
        vm = rng.choice([0, 0, 4, 40, 300])
        ra = rng.choice([0, 4, 4, 8, 64, 512])
        sc.op('enddef4 %d %d %d %d' % (hm, va, vm, ra), 'ok')
        sc.kinds.add('enddef-align')


def gen_writes(rng, sc, sp, vars_, nprocs, allow_indep=True):
    """random collective puts; optionally an independent phase where ranks write different record counts.
    returns True if the file is left in independent data mode"""
    for v in vars_:
        if rng.chance(1, 6):
            continue            # leave some variables unwritten
        t, d = sp.vars[v]
        shape = [sp.dims[di] for di in d]
        start, count = [], []
        for i, l in enumerate(shape):
            if l == 0:
                s = rng.range(0, 2); c = rng.range(0 if rng.chance(1, 8) else 1, 4)
            else:
                if rng.chance(1, 2):
                    s, c = 0, l
                else:
                    s = rng.range(0, l - 1); c = rng.range(1, l - s)
            start.append(s); count.append(c)
        seed = rng.below(1000000)
        sc.op('cput %d %d %s %s' % (v, seed, ' '.join(map(str, start)), ' '.join(map(str, count))), 'ok')
        if all(c > 0 for c in count):
            sp.put(v, seed, start, count)
    recvars = [v for v in vars_ if sp.is_rec(v)]
    if allow_indep and recvars and rng.chance(1, 2):
        sc.op('indep', 'ok')
        sc.kinds.add('indep-phase')
        # ranks write DIFFERENT numbers of records
        base = rng.range(0, 3)
        for r in range(nprocs):
            if rng.chance(1, 4):
                continue
            v = rng.choice(recvars)
            t, d = sp.vars[v]
            shape = [sp.dims[di] for di in d]
            # every rank writes its own records: concurrent independent writes to one element have no defined outcome
            rec = base + 2 * (r if rng.chance(2, 3) else nprocs + r)
            start = [rec] + [0] * (len(d) - 1)
            count = [rng.range(1, 2)] + shape[1:]
            seed = rng.below(1000000)
            sc.op('iput %d %d %d %s %s' % (r, v, seed, ' '.join(map(str, start)), ' '.join(map(str, count))), 'ok')
            sp.put(v, seed, start, count)
        return True
    return False


def gen_reads(sc, sp, phase):
    for v in range(len(sp.vars)):
        sc.op('read %d' % v, 'read', (v, dict(sp.written.get(v, {})), phase))


def gen_scenario(rng, nprocs, idx, tier):
    sc = Scenario(nprocs, 's%d' % idx)
    fmt = rng.choice([1, 2, 5])
    sp = Spec(fmt)
    kind = rng.choice(['redef', 'redef', 'redef', 'redef', 'abort-redef', 'abort-redef', 'abort-create'])
    sc.kinds.add(kind)
    # gadget (seed C03-5): free space in front of the record section (large v_minfree / r_align at the first
    # enddef, tight header extent) absorbs a header growth, so begin_var moves while begin_rec does not, and a
    # record variable added in the same redefinition changes the record size: the records must still be re-spaced
    slack = (kind == 'redef' and rng.chance(1, 4))
    if slack:
        sc.kinds.add('slack-absorbs-header-growth')
    unit = rng.choice([1, 2, 3, 5, 7, 16, 64, 67108864])
    sc.op('moveunit %d' % unit)
    sc.op('create %d' % fmt, 'ok')
    if rng.chance(1, 5):
        emit_att(sc, sp, -1, rng.range(1, 40))
    if rng.chance(1, 4):
        sc.op('setfill 1', 'setfill'); sp.setfill(1)
        sc.kinds.add('create-dataset-fill')
    shape_kind = rng.choice(['mixed', 'mixed', 'mixed', 'one-rec', 'no-rec', 'only-rec'])
    if slack:
        shape_kind = rng.choice(['one-rec', 'only-rec'])
    sc.kinds.add('schema-' + shape_kind)
    if shape_kind == 'no-rec':
        gen_schema(rng, sc, sp, rng.range(1, 3), rng.range(1, 4), allow_unlim=False)
    elif shape_kind == 'one-rec':
        sp.dims.append(0); sc.op('dim 0', 'ok')
        gen_schema(rng, sc, sp, rng.range(0, 2), 0, allow_unlim=False)
        t = rng.choice(TYPES_CDF5 if fmt == 5 else TYPES_CLASSIC)
        fixed_dims = [i for i, l in enumerate(sp.dims) if l != 0]
        dids = [0] + ([rng.choice(fixed_dims)] if fixed_dims and rng.chance(1, 2) else [])
        sp.addvar(t, dids); sc.op('var %d %d %s' % (t, len(dids), ' '.join(map(str, dids))), 'ok')
        if rng.chance(1, 2):
            # fixed variables besides the single record variable
            for _ in range(rng.range(1, 2)):
                if fixed_dims:
                    t2 = rng.choice(TYPES_CLASSIC)
                    d2 = [rng.choice(fixed_dims)]
                    sp.addvar(t2, d2); sc.op('var %d 1 %d' % (t2, d2[0]), 'ok')
    elif shape_kind == 'only-rec':
        sp.dims.append(0); sc.op('dim 0', 'ok')
        gen_schema(rng, sc, sp, rng.range(1, 2), 0, allow_unlim=False)
        fixed_dims = [i for i, l in enumerate(sp.dims) if l != 0]
        for _ in range(rng.range(1, 3)):
            t = rng.choice(TYPES_CDF5 if fmt == 5 else TYPES_CLASSIC)
            dids = [0] + ([rng.choice(fixed_dims)] if rng.chance(2, 3) else [])
            sp.addvar(t, dids); sc.op('var %d %d %s' % (t, len(dids), ' '.join(map(str, dids))), 'ok')
    else:
        gen_schema(rng, sc, sp, rng.range(1, 3), rng.range(1, 5))
    if kind == 'abort-create':
        sc.op('abort', 'ok')
        sc.op('exists', 'exists', 0)
        return sc, sp
    if slack:
        vm, ra = rng.choice([(600, 4), (2000, 4), (0, 2048), (0, 4096), (1200, 512)])
        sc.op('enddef4 0 4 %d %d' % (vm, ra), 'ok')
        sc.kinds.add('enddef-align')
    else:
        gen_enddef(rng, sc)
    indep = False
    if slack or rng.chance(7, 8):
        indep = gen_writes(rng, sc, sp, list(range(len(sp.vars))), nprocs)
        if slack:
            # at least three whole records exist before the redefinition
            if indep:
                sc.op('coll', 'ok'); indep = False
            v = [x for x in range(len(sp.vars)) if sp.is_rec(x)][0]
            d = sp.vars[v][1]
            start = [0] * len(d)
            count = [3] + [sp.dims[di] for di in d[1:]]
            sd = rng.below(1000000)
            sc.op('cput %d %d %s %s' % (v, sd, ' '.join(map(str, start)), ' '.join(map(str, count))), 'ok')
            sp.put(v, sd, start, count)
    else:
        sc.kinds.add('numrecs-0')
    nredef = rng.choice([1, 1, 2, 3]) if kind == 'redef' else rng.choice([1, 2])
    for rd in range(nredef):
        aborting = (kind == 'abort-redef' and rd == nredef - 1)
        if indep and rng.chance(1, 3):
            sc.op('coll', 'ok'); indep = False
            if rng.chance(1, 2):
                sc.op('sync', 'ok')
        if indep:
            sc.kinds.add('redef-from-indep')
        sc.op('redef', 'ok'); indep = False
        sc.op('layout', 'layout', ('old', len(sp.vars)))
        sc.op('snap', 'snap', 'before')
        nold = len(sp.vars)
        deltas = []
        if slack:
            n = rng.range(30, 200)
            emit_att(sc, sp, -1, n); deltas.append('att-medium')
        elif rng.chance(1, 2):
            n = rng.choice([rng.range(1, 20), rng.range(300, 2500)])
            emit_att(sc, sp, -1, n); deltas.append('att-small' if n <= 20 else 'att-large')
        if rng.chance(1, 4) and sp.vars:
            emit_att(sc, sp, rng.below(len(sp.vars)), rng.range(1, 600)); deltas.append('varatt')
        if rng.chance(2, 5):
            gen_copy_att(rng, sc, sp, nold); deltas.append('copy_att')
        fillmode = rng.choice(['none', 'none', 'dataset-before', 'dataset-before', 'dataset-after', 'per-var', 'per-var',
                               'per-var-value', 'dataset-then-var-nofill', 'dataset-off'])
        if fillmode in ('dataset-before', 'dataset-then-var-nofill'):
            sc.op('setfill 1', 'setfill'); sp.setfill(1)
        if fillmode == 'dataset-off':
            sc.op('setfill 0', 'setfill'); sp.setfill(0)
        if slack or rng.chance(3, 4):
            types = TYPES_CDF5 if fmt == 5 else TYPES_CLASSIC
            for k_new in range(1 if slack else rng.range(1, 3)):
                which = rng.choice(['fixed', 'rec', 'rec', 'any'])
                if slack:
                    which = 'rec'
                if which == 'rec' and not sp.has_unlim():
                    sp.dims.append(0); sc.op('dim 0', 'ok')
                fixed_dims = [i for i, l in enumerate(sp.dims) if l != 0]
                if not fixed_dims or rng.chance(1, 4):
                    sp.dims.append(rng.range(1, 6)); sc.op('dim %d' % sp.dims[-1], 'ok')
                    fixed_dims = [i for i, l in enumerate(sp.dims) if l != 0]
                t = rng.choice(types)
                if which == 'rec' or (which == 'any' and sp.has_unlim() and rng.chance(1, 2)):
                    dids = [sp.dims.index(0)] + ([rng.choice(fixed_dims)] if rng.chance(2, 3) else [])
                    deltas.append('new-rec-var')
                else:
                    dids = [rng.choice(fixed_dims) for _ in range(rng.range(0, 2))]
                    deltas.append('new-fixed-var')
                sp.addvar(t, dids)
                sc.op('var %d %d %s' % (t, len(dids), ' '.join(map(str, dids))), 'ok')
        # fill settings of the NEW variables (per variable / dataset level after the definitions)
        newv = list(range(nold, len(sp.vars)))
        if fillmode == 'dataset-after':
            sc.op('setfill 1', 'setfill'); sp.setfill(1)
        for v in newv:
            if fillmode == 'per-var' and rng.chance(2, 3):
                sc.op('varfill %d 0 0 0' % v, 'ok'); sp.nofill[v] = False
            elif fillmode == 'per-var-value':
                ty = sp.vars[v][0]
                val = rng.range(33, 120) if ty == NC_CHAR else rng.range(1, 100)
                sc.op('varfill %d 0 1 %d' % (v, val), 'ok'); sp.nofill[v] = False
            elif fillmode == 'dataset-then-var-nofill' and rng.chance(1, 2):
                sc.op('varfill %d 1 0 0' % v, 'ok'); sp.nofill[v] = True
        if newv:
            sc.kinds.add('fillmode-' + fillmode)
        for v in newv:
            sc.kinds.add('new-%s-var-%s' % ('rec' if sp.is_rec(v) else 'fixed', 'nofill' if sp.nofill[v] else 'FILL'))
        sc.fillinfo = getattr(sc, 'fillinfo', [])
        for dl in deltas:
            sc.kinds.add('delta-' + dl)
        if not deltas:
            sc.kinds.add('delta-none')
        sc.op('snap', 'snap', 'define-op:end of the define-mode calls of this redefinition')
        if aborting:
            sp.vars = sp.vars[:nold]; sp.nofill = sp.nofill[:nold]
            sc.op('abort', 'ok')
            sc.op('snap', 'snap', 'after-abort')
            sc.op('exists', 'exists', 1)
            sc.op('open 1', 'ok')
            # dims defined during the aborted redefinition are unknown to the reopened file; the harness
            # keeps its own dim table, which only matters for variables (all old)
            gen_reads(sc, sp, 'after-abort-reopen')
            sc.op('close', 'ok')
            return sc, sp
        sc.op('planreset')
        if slack:
            sc.op(rng.choice(['enddef', 'enddef4 0 4 0 4']), 'ok')
        else:
            gen_enddef(rng, sc)
        sc.op('plan', 'plan', (nold, list(sp.nofill)))
        sc.op('layout', 'layout', ('new', nold))
        sc.op('snap', 'snap', 'after')
        gen_reads(sc, sp, 'after-enddef')
        if rng.chance(1, 2):
            indep = gen_writes(rng, sc, sp, list(range(len(sp.vars))), nprocs)
    if indep and rng.chance(1, 2):
        sc.op('coll', 'ok')
    sc.op('close', 'ok')
    sc.op('open 0', 'ok')
    gen_reads(sc, sp, 'after-reopen')
    sc.op('close', 'ok')
    return sc, sp


# ---------------------------------------------------------------------------------------
# unit stream
# ---------------------------------------------------------------------------------------
def rand_hex(rng, n):
    return ''.join('%02x' % (1 + rng.below(255)) for _ in range(n)) if n > 0 else '-'


def gen_unit_lines(rng, nprocs, n):
    """request lines for harness/c06_unit.c and the Lean driver, with a classification tag each"""
    lines = []
    for i in range(n):
        k = rng.below(10)
        unit = rng.choice([1, 1, 2, 3, 4, 5, 8, 13, 1000])
        if k < 5:
            nbytes = rng.choice([0, 1, rng.range(1, 12), rng.range(1, 60), rng.range(20, 120)])
            frm = rng.range(0, 30)
            if rng.chance(1, 10):
                to = rng.range(0, frm)                       # outside the theorem's hypothesis: tie only
            else:
                to = frm + rng.choice([0, 1, rng.range(1, 8), rng.range(1, 70)])
            if rng.chance(3, 4):
                flen = frm + nbytes + rng.range(0, 10)
            else:
                flen = rng.range(0, frm + nbytes)          # file ends inside (or before) the source range
            tags = []
            chunk = min(unit, -(-nbytes // nprocs)) if nbytes else 0
            if chunk and nbytes > nprocs * chunk:
                tags.append('multi-round')
            if to - frm < nbytes and to > frm:
                tags.append('overlap')
            if flen < frm + nbytes:
                tags.append('short-file')
            if chunk and nbytes % (nprocs * chunk):
                tags.append('partial-last-group')
            lines.append(('MB %d %d %d %d %d %s' % (nprocs, unit, to, frm, nbytes, rand_hex(rng, flen)), tags))
        elif k < 8:
            nv = rng.range(1, 4)
            vs, o, nw = [], rng.range(0, 10), 0
            shift = rng.choice([0, rng.range(1, 6), rng.range(4, 40)])
            for j in range(nv):
                ln = rng.range(0, 20)
                isrec = 1 if rng.chance(1, 4) else 0
                o += rng.range(0, 4)
                nw = max(o + shift, nw)
                if rng.chance(1, 3):
                    nw += rng.range(0, 8)
                vs.append((o, nw, ln, isrec))
                if not isrec:
                    o += ln; nw += ln
            flen = o + rng.range(0, 6) if rng.chance(3, 4) else rng.range(0, o)
            tags = ['fixed-vars']
            if any(b > a and b - a < l and not r for a, b, l, r in vs):
                tags.append('overlap')
            if flen < o:
                tags.append('short-file')
            lines.append(('MF %d %d %d %s %s' % (nprocs, unit, nv, ' '.join('%d %d %d %d' % v for v in vs), rand_hex(rng, flen)), tags))
        else:
            oldrs = rng.choice([0, 1, 3, rng.range(1, 12), rng.range(4, 30)])
            newrs = oldrs if rng.chance(1, 3) else oldrs + rng.range(1, 20)
            nrecs = rng.choice([0, 1, 2, rng.range(1, 6)])
            oldoff = rng.range(0, 20)
            newoff = oldoff + rng.choice([0, rng.range(1, 10), rng.range(1, 50)])
            total = oldoff + oldrs * nrecs
            flen = total + rng.range(0, 5) if rng.chance(3, 4) else rng.range(0, total)
            tags = ['records', 'recsize-same' if newrs == oldrs else 'recsize-grows']
            if nrecs == 0:
                tags.append('numrecs-0')
            if flen < total:
                tags.append('short-file')
            lines.append(('MR %d %d %d %d %d %d %d %s' % (nprocs, unit, newoff, oldoff, newrs, oldrs, nrecs, rand_hex(rng, flen)), tags))
    return lines


def hexbytes(s):
    return b'' if s in ('-', '') else bytes.fromhex(s)


MATCH_MODE = {'short': 0, 'full': 0}


def model_matches(real, ms, ma, mb):
    """real file vs the model under the two admissible MPI read behaviours.
    ms = model with short counts; ma/mb = model with full counts and junk 0xAA / 0x55 past EOF:
    positions where ma and mb differ hold unspecified bytes."""
    if real == ms:
        if ms != ma:
            MATCH_MODE['short'] += 1
        return True
    if len(real) != len(ma) or len(ma) != len(mb):
        return False
    okf = all(ma[i] != mb[i] or real[i] == ma[i] for i in range(len(real)))
    if okf:
        MATCH_MODE['full'] += 1
    return okf


def run_driver(lines):
    drv = os.path.join(LEAN, '.lake/build/bin/c06drv')
    p = subprocess.run([drv], input='\n'.join(lines) + '\n', stdout=subprocess.PIPE, stderr=subprocess.PIPE, text=True)
    return p.stdout.split('\n')


# ---------------------------------------------------------------------------------------
def parse_out(path):
    res = {}
    try:
        for l in open(path):
            m = re.match(r'@(\d+) (.*)$', l.rstrip('\n'))
            if m:
                res[int(m.group(1))] = m.group(2)
    except OSError:
        pass
    return res


def layout_vars(sp, lay_old, lay_new, nold):
    """MVar list + Lay records (old,new) from two `layout` answers"""
    o = list(map(int, lay_old.split()[1:]))
    n = list(map(int, lay_new.split()[1:]))
    ohs, ohe, ors, onr, onv = o[:5]; ooff = o[5:]
    nhs, nhe, nrs, nnr, nnv = n[:5]; noff = n[5:]
    mv = []
    for v in range(nold):
        mv.append((ooff[v], noff[v], sp.vlen(v), 1 if sp.is_rec(v) else 0))

    def begin_rec(offs, nv):
        recs = [offs[v] for v in range(nv) if sp.is_rec(v)]
        if recs:
            return min(recs)
        ends = [offs[v] + sp.vlen(v) for v in range(nv) if not sp.is_rec(v)]
        return max(ends) if ends else 0
    obr = begin_rec(ooff, nold)
    nbr = begin_rec(noff, nnv)
    if not any(sp.is_rec(v) for v in range(nnv)):
        nbr = max(nbr, obr)
    return mv, (ohe, obr, ors), (nhe, nbr, nrs), onr, nnv


def layout_ok(mv, old, new, nvars):
    """the hypotheses `LayoutOK` of enddefMove_preserves, evaluated on a real layout pair"""
    bad = []
    fixed = [(i, v) for i, v in enumerate(mv) if not v[3]]
    for a in range(len(fixed)):
        i, (ob, nb, ln, _) = fixed[a]
        if ob > nb:
            bad.append('var %d begin moved down %d -> %d' % (i, ob, nb))
        for b in range(a + 1, len(fixed)):
            j, (ob2, nb2, ln2, _) = fixed[b]
            if ob + ln > ob2:
                bad.append('old layout: var %d overlaps var %d' % (i, j))
            if nb + ln > nb2:
                bad.append('new layout: var %d overlaps var %d' % (i, j))
        if ob + ln > old[1]:
            bad.append('old: fixed var %d reaches into the record section' % i)
        if nb + ln > new[1]:
            bad.append('new: fixed var %d reaches into the record section' % i)
        if new[0] <= old[0] and nb != ob:
            bad.append('header extent did not grow but fixed var %d moved' % i)
    if old[1] > new[1]:
        bad.append('begin_rec moved down')
    if old[2] > new[2]:
        bad.append('recsize shrank')
    return bad


def run_check(tier, seed):
    V = Verdict(PROP, tier, seed)
    rng = SplitMix64(seed * 7919 + 6)
    V.assumptions = [
        'MPI-IO semantics (read_at_all/write_at(_all) on a byte view, zero-length writes are no-ops, writes past EOF zero-extend, Allreduce orders the reads of a round before its writes) are parameters of the model; the count a collective read reports past EOF is modelled both ways (ReadMode.short / ReadMode.full) and every theorem holds for both',
        'I/O errors are not modelled here (C11)',
        'offsets are unbounded naturals in the model; (int)chunk_size cannot truncate because MOVE_UNIT <= INT_MAX (bufcount_fits_int, the macro value is read from the source on every run)',
        'the layout facts LayoutOK that the moving code needs are derived from the model of NC_begins (redef_layout_ok / redef_preserves_data in Props/C06Layout.lean: every well-formed previous layout, every appended variable list, every alignment); that model is tied to NC_begins by the C03 check (model layout = library inquiries over redefinition histories); in addition LayoutOK is still evaluated here on every layout pair the real library produces in the API stream',
    ]
    V.cov['trusted_base'] = TRUSTED_BASE_COMMON + [
        'lean/PnVerif/Model/Redef.lean is a hand transcription of move_file_block / move_fixed_vars / move_record_vars / the moving block of ncmpio__enddef / ncmpio_redef / ncmpio_abort, tied to the source by differential execution only',
        'harness/c06_unit.c, harness/c06_api.c, the generators in checks/c06.py']
    tree = build_impl('plain')
    wd = workdir('c06')
    try:
        # ---- S3 prove
        ok, out = lake_build(['PnVerif.Props.C06', 'PnVerif.Props.C06Layout', 'c06drv'])
        obl = obligations_of('PnVerif/Props/C06.lean') + obligations_of('PnVerif/Props/C06Layout.lean')
        failed_thms = set()
        if not ok:
            for f, ln, msg in lake_errors(out):
                t = theorem_at(f, ln)
                if t:
                    failed_thms.add(t)
            log('[S3] lake build FAILED:', sorted(failed_thms)[:10], out[-600:])
        discharged, bad = axiom_audit('PnVerif.Props.C06Layout', obl, 'PnVerif.Props.C06') if ok else ([], [])
        leanfiles = [os.path.join(LEAN, f) for f in ('PnVerif/Model/Redef.lean', 'PnVerif/Lemmas/Redef.lean',
                                                     'PnVerif/Props/C06.lean', 'Driver/C06.lean',
                                                     'PnVerif/Props/C06Layout.lean', 'PnVerif/Lemmas/LayoutMove.lean',
                                                     'PnVerif/Lemmas/LayoutLemmas.lean', 'PnVerif/Model/Layout.lean',
                                                     'PnVerif/Model/Fill.lean', 'PnVerif/Props/C16.lean')]
        forb = grep_forbidden(leanfiles)
        V.cov['obligations'] = len(obl)
        V.cov['discharged'] = len(discharged)
        V.cov['checker_cmd'] = 'cd lean && lake build PnVerif.Props.C06 PnVerif.Props.C06Layout c06drv && lake env lean <#print axioms of every name in PnVerif.Props.C06.obligations and PnVerif.Props.C06Layout.obligations>'
        if tier == 'thorough' and ok:
            lc = leanchecker(['PnVerif.Props.C06', 'PnVerif.Props.C06Layout'])
            V.cov['leanchecker'] = 'ok' if not lc else str(lc)
            if lc:
                bad.append(('leanchecker', lc))
        proof_broken = (not ok) or bad or forb
        if not ok or not os.path.exists(os.path.join(LEAN, '.lake/build/bin/c06drv')):
            V.broken_tie('proof obligations / driver do not build', dict(failed_theorems=sorted(failed_thms), lake_tail=out[-1500:]))
            return V.finish()

        # ---- S4 harnesses: MOVE_UNIT made a variable in a run-time copy of the tree's ncmpio_enddef.c
        src = open(os.path.join(tree, 'src/drivers/ncmpio/ncmpio_enddef.c')).read()
        mm = re.findall(r'^[ \t]*#[ \t]*define[ \t]+MOVE_UNIT[ \t]+(\d+)[ \t]*$', src, re.M)
        tie_problems = []
        if len(mm) != 1:
            V.broken_tie('correspondence unit: cannot locate the MOVE_UNIT definition in ncmpio_enddef.c',
                         'expected exactly one `#define MOVE_UNIT <number>`, found %d' % len(mm))
            return V.finish()
        move_unit = int(mm[0])
        V.cov['MOVE_UNIT'] = move_unit
        MATCH_MODE['short'] = MATCH_MODE['full'] = 0
        if not (1 <= move_unit <= 2147483647):
            tie_problems.append('MOVE_UNIT=%d violates the hypothesis 1 <= unit <= INT_MAX of moveBlock_correct / bufcount_fits_int' % move_unit)
        src2 = re.sub(r'^[ \t]*#[ \t]*define[ \t]+MOVE_UNIT[ \t]+\d+[ \t]*$', '#define MOVE_UNIT verif_move_unit', src, flags=re.M)
        esrc = os.path.join(wd, 'enddef_mu.c')
        open(esrc, 'w').write(src2)
        inc = ['-DHAVE_CONFIG_H', '-I' + os.path.join(tree, 'src/drivers/ncmpio'), '-I' + os.path.join(tree, 'src/drivers/include'),
               '-I' + os.path.join(tree, 'src/include'), '-I' + os.path.join(tree, 'src/drivers/common'), '-I' + tree,
               '-DENDDEF_SRC="%s"' % esrc]
        try:
            uexe = cc(tree, [os.path.join(VERIF, 'harness/c06_unit.c')], os.path.join(wd, 'c06_unit'), extra=inc)
            aexe = cc(tree, [os.path.join(VERIF, 'harness/c06_api.c')], os.path.join(wd, 'c06_api'), extra=inc + ['-DWITH_FILL_PLAN'])
        except BuildFailed as ex:
            V.broken_tie('correspondence: harness does not compile against the tree (static function signatures changed?)', str(ex)[-1500:])
            return V.finish()

        t1 = Timer()
        dist = {}
        samples = []
        distinct = set()
        nevals = 0
        prop_fail = []       # (sig, description, replay)

        def bump(k):
            dist[k] = dist.get(k, 0) + 1

        # ---- unit stream
        ranks_unit = [1, 2, 3, 4] if tier == 'quick' else [1, 2, 3, 4, 5, 6, 7, 8]
        nlines = 150 if tier == 'quick' else 1200
        unit_diffs = []
        corpus = []
        cfile = os.path.join(VERIF, 'corpus', 'C06', 'unit.txt')
        if os.path.exists(cfile):
            corpus = [l.strip() for l in open(cfile) if l.strip() and not l.startswith('#')]
        for np_ in ranks_unit:
            ul = [(l, ['corpus']) for l in corpus if l.split()[1] == str(np_)] + gen_unit_lines(rng, np_, nlines)
            script = os.path.join(wd, 'unit_%d.txt' % np_)
            open(script, 'w').write('\n'.join(l for l, _ in ul) + '\n')
            rc, so, se = mpirun(np_, [uexe, script, os.path.join(wd, 'unit_%d.bin' % np_)], timeout=280)
            real = [x for x in so.split('\n') if x and not x.startswith('skip')]
            if rc != 0 or len(real) != len(ul):
                unit_diffs.append(dict(nprocs=np_, what='unit harness crashed or hung', rc=rc, lines_out=len(real), stderr=se[-400:]))
                continue
            ms = run_driver(['S ' + l for l, _ in ul])
            ma = run_driver(['F170 ' + l for l, _ in ul])
            mb = run_driver(['F85 ' + l for l, _ in ul])
            for i, (l, tags) in enumerate(ul):
                nevals += 1
                for tg in tags:
                    bump('unit:' + tg)
                bump('unit:nprocs=%d' % np_)
                if tags and tags != ['fixed-vars'] and tags != ['records', 'recsize-same']:
                    distinct.add(l)
                try:
                    same = model_matches(hexbytes(real[i]), hexbytes(ms[i]), hexbytes(ma[i]), hexbytes(mb[i]))
                except ValueError:
                    same = False
                if not same:
                    unit_diffs.append(dict(line=l[:400], impl=real[i][:400], model_short=ms[i][:400], model_full=ma[i][:400]))
            if len(samples) < 3:
                samples.append(ul[len(ul) // 2][0][:200])
        log('[S4] unit stream: %d requests on ranks %s, %d differences (%.1fs)' % (nevals, ranks_unit, len(unit_diffs), t1.s()))

        # ---- abort state machine rows (finite table): model answers vs the meaning checked at API level
        ab_lines = ['AB %d %d %d %d %d %d %d' % (a, b, c, d, e, f, g) for a in (0, 1) for b in (0, 1) for c in (0, 1)
                    for d in (0, 1) for e in (0, 1) for f in (0, 2) for g in (0, 1)]
        ab = run_driver(ab_lines)
        for l, r in zip(ab_lines, ab):
            t = l.split()
            isnew, indef, indep, ro, hasold, nrv, redef_first = map(int, t[1:])
            if redef_first and not indef and not isnew and r != 'kept %d 0' % (1 if (indep and not ro and nrv) else 0):
                tie_problems.append('model abort after redef writes: %s -> %s' % (l, r))

        # metaOpDisk: in define mode no metadata call writes; copy_att into a data-mode file writes whatever the source mode
        do_lines = ['DO %d %d %d' % (a, o, s) for a in (0, 1) for o in range(10) for s in (0, 1)]
        for l, r in zip(do_lines, run_driver(do_lines)):
            a, o, s = map(int, l.split()[1:])
            want = 'unchanged' if (a or o not in (2, 4, 5, 6, 9)) else 'header-written'
            if r.strip() != want:
                tie_problems.append('model metaOpDisk: %s -> %s, expected %s' % (l, r, want))

        # ---- API stream
        t2 = Timer()
        ranks_api = [1, 2, 3, 4] if tier == 'quick' else [1, 2, 3, 4, 5, 7, 8]
        per_rank = 20 if tier == 'quick' else 150
        ed_lines, ed_meta = [], []
        api_scen = 0
        layout_bad = []
        fill_bad = []
        fill_segs = 0
        define_snaps = 0
        for np_ in ranks_api:
            scen = [gen_scenario(rng, np_, api_scen + i, tier) for i in range(per_rank)]
            api_scen += len(scen)
            # batch run; on failure fall back to one run per scenario
            results = run_scenarios(aexe, wd, np_, scen, batch=True)
            if results is None:
                results = run_scenarios(aexe, wd, np_, scen, batch=False)
            for (sc, sp), res in zip(scen, results):
                nevals += len(sc.ops)
                for k in sc.kinds:
                    bump('api:' + k)
                bump('api:nprocs=%d' % np_)
                if res == 'skipped':
                    bump('api:skipped-after-crashes')
                    continue
                if res is None:
                    prop_fail.append(('api-crash-or-hang', 'harness crashed or hung on a valid redefinition scenario (%d ranks)' % np_,
                                      dict(nprocs=np_, script=sc.ops)))
                    continue
                fails, eds, moved, lbad, fbad, stats = evaluate(sc, sp, res, np_)
                fill_bad += fbad
                for st in stats:
                    if 'define_snapshots' in st:
                        define_snaps += st['define_snapshots']
                        continue
                    bump('api:existing-records=%d' % min(st['existing_records'], 6))
                    if st['new_rec_fill']:
                        bump('api:redef-adds-FILL-record-var')
                        if st['existing_records'] >= 1 and st['old_rec_vars']:
                            bump('api:redef-adds-FILL-record-var-to-existing-records')
                            moved = True
                        if st['existing_records'] >= 2 and st['old_rec_vars']:
                            bump('api:redef-adds-FILL-record-var-with>=2-existing-records')
                    if st['new_fixed_fill']:
                        bump('api:redef-adds-FILL-fixed-var')
                    if st['new_nofill']:
                        bump('api:redef-adds-nofill-var')
                    fill_segs += st['fill_segments']
                for f in fails:
                    prop_fail.append(f)
                for e in eds:
                    ed_lines.append(e[0]); ed_meta.append(e[1:] + (sc,))
                layout_bad += lbad
                if moved:
                    distinct.add(sc.text())
                    bump('api:data-moved')
                if len(samples) < 6 and moved:
                    samples.append(sc.ops[:40])
        # ED correspondence through the model
        ed_diffs = []
        if ed_lines:
            ms = run_driver(['S ' + l for l in ed_lines])
            ma = run_driver(['F170 ' + l for l in ed_lines])
            mb = run_driver(['F85 ' + l for l in ed_lines])
            for i, l in enumerate(ed_lines):
                after, regions, sc = ed_meta[i]
                nevals += 1
                try:
                    m_s, m_a, m_b = hexbytes(ms[i]), hexbytes(ma[i]), hexbytes(mb[i])
                except ValueError:
                    ed_diffs.append(dict(line=l[:300], model=ms[i][:100])); continue
                for (lo, hi) in regions:
                    for p in range(lo, hi):
                        r = after[p] if p < len(after) else 0
                        s = m_s[p] if p < len(m_s) else 0
                        a = m_a[p] if p < len(m_a) else 0
                        b = m_b[p] if p < len(m_b) else 0
                        if r != s and not (a != b or r == a):
                            ed_diffs.append(dict(line=l[:300], offset=p, impl=r, model=s, script=sc.ops))
                            break
                    else:
                        continue
                    break
        log('[S4] api stream: %d scenarios on ranks %s, %d enddef replays through the model, %d property failures, %d model differences (%.1fs)'
            % (api_scen, ranks_api, len(ed_lines), len(prop_fail), len(ed_diffs), t2.s()))

        V.cov['evaluations'] = nevals
        V.cov['distinct_nontrivial'] = len(distinct)
        V.cov['traces_validated_against_impl'] = nevals - len(unit_diffs) - len(ed_diffs)
        V.cov['rule'] = ('unit: random (to, from, nbytes, unit, file length) requests to the real move_file_block / move_fixed_vars / move_record_vars '
                         'on each process count, non-trivial = multi-round, overlapping source/destination, file ending inside the source range, partial last '
                         'group, record-size growth or numrecs 0 (distinct request lines counted); api: random schema x write history (collective, independent with '
                         'different record counts per rank, numrecs 0) x 1-3 redefinitions (attribute growth small/large, new fixed/record variables, '
                         'ncmpi__enddef alignment/minfree) or abort, non-trivial = at least one existing variable or the record size actually moved '
                         '(distinct scripts counted)')
        V.cov['distribution'] = dist
        V.cov['samples'] = samples
        V.cov['api_scenarios'] = api_scen
        V.cov['mpi_read_mode_observed_on_short_files'] = dict(MATCH_MODE)
        V.cov['enddef_replays'] = len(ed_lines)
        V.cov['real_fill_segments_checked'] = fill_segs
        V.cov['define_mode_snapshots_compared'] = define_snaps

        # ---- S5 decide
        new_fail = 0
        seen_sig = set()
        for sig, desc, rep in prop_fail:
            if sig in seen_sig and new_fail >= 3:
                continue
            seen_sig.add(sig)
            if V.failing_input(sig, desc, rep, tag='in%d' % new_fail):
                new_fail += 1
                if new_fail >= 5:
                    break
        if new_fail == 0:
            if unit_diffs:
                V.broken_tie('correspondence unit: real move_file_block/move_fixed_vars/move_record_vars and the model differ', unit_diffs[:8])
            if ed_diffs:
                V.broken_tie('correspondence enddef: file after the real ncmpi_enddef differs from the model enddefMove on an existing variable', ed_diffs[:5])
            if fill_bad:
                V.broken_tie('fill ranges of the real ncmpi_enddef leave the new fill-mode variables (hypothesis of enddef_fill_touches_only_new / C16 plan_targets_new_only)', fill_bad[:5])
            if layout_bad:
                V.broken_tie('layout hypotheses LayoutOK of enddefMove_preserves do not hold for a layout produced by the real NC_begins', layout_bad[:8])
            if tie_problems:
                V.broken_tie('model/constant check', tie_problems[:8])
            if proof_broken:
                V.broken_tie('proof obligations no longer check',
                             dict(failed_theorems=sorted(failed_thms), axiom_audit=bad[:10], forbidden=forb[:10]))
        return V.finish()
    finally:
        cleanup(wd)


def run_scenarios(aexe, wd, np_, scen, batch):
    """-> per scenario the parsed outputs of every rank (None = crash/hang), or None if the batch failed"""
    if batch:
        lines, offs = [], []
        for sc, sp in scen:
            offs.append(len(lines))
            lines += sc.ops
        script = os.path.join(wd, 'api_%d.txt' % np_)
        open(script, 'w').write('\n'.join(lines) + '\n')
        outp = os.path.join(wd, 'api_%d.out' % np_)
        rc, so, se = mpirun(np_, [aexe, script, os.path.join(wd, 'api_%d.nc' % np_), outp], timeout=90)
        if rc != 0:
            return None
        allres = [parse_out('%s.%d' % (outp, r)) for r in range(np_)]
        res = []
        for k, (sc, sp) in enumerate(scen):
            res.append([{i + 1: allres[r].get(offs[k] + i + 1) for i in range(len(sc.ops))} for r in range(np_)])
        return res
    res, nbad = [], 0
    for k, (sc, sp) in enumerate(scen):
        if nbad >= 3:
            res.append('skipped')        # enough crashing/hanging scenarios to report; keep the run time bounded
            continue
        script = os.path.join(wd, 'api_%d_%d.txt' % (np_, k))
        open(script, 'w').write(sc.text())
        outp = os.path.join(wd, 'api_%d_%d.out' % (np_, k))
        rc, so, se = mpirun(np_, [aexe, script, os.path.join(wd, 'api_%d_%d.nc' % (np_, k)), outp], timeout=20)
        res.append([parse_out('%s.%d' % (outp, r)) for r in range(np_)] if rc == 0 else None)
        nbad += (rc != 0)
    return res


def evaluate(sc, sp, resall, np_):
    """property oracle on one scenario (resall = answers of every rank).  -> (failures, ED requests, data_moved?, layout problems)"""
    res = resall[0]
    fails, eds, lbad, fillbad = [], [], [], []
    moved = False
    rep = dict(nprocs=np_, script=sc.ops)
    lay_old = snap_before = None
    last_new = None
    plan_ans = None
    stats = []
    tsnap_before = None
    nsnap_def = [0]
    for (li, kind, payload) in sc.expect:
        ans = res.get(li + 1)
        opname = sc.ops[li].split()[0]
        if ans is None:
            fails.append(('api-no-answer', 'no answer for op %d (%s)' % (li + 1, sc.ops[li]), rep))
            break
        t = ans.split()
        if kind == 'ok':
            code = t[-1] if opname not in ('dim', 'var') else t[-1]
            if code != '0':
                fails.append(('api-error:%s' % opname, 'valid call `%s` returned %s' % (sc.ops[li], code), rep))
                break
        elif kind == 'setfill':
            if t[1] != '0':
                fails.append(('api-error:setfill', 'valid call `%s` returned %s' % (sc.ops[li], t[1]), rep))
                break
        elif kind == 'plan':
            plan_ans = (payload, [r_.get(li + 1) for r_ in resall])
        elif kind == 'tsnap':
            if payload == 'rev-before':
                tsnap_before = t[1]
            else:
                if t[1] == tsnap_before:
                    fails.append(('copy_att-data-mode-header-not-written',
                                  'ncmpi_copy_att into a file in data mode did not write that file\'s header to disk', rep))
        elif kind == 'tgetatt':
            n = payload
            want = ''.join(chr(ord('A') + (i % 26)) for i in range(n))
            if t[1] != '0' or t[2] != str(n) or (t[3] if len(t) > 3 else '') != want:
                fails.append(('copy_att-data-mode-not-on-disk',
                              'attribute copied into a file in data mode reads back as %s after reopening, expected %d bytes %s' % (' '.join(t[1:4])[:80], n, want), rep))
        elif kind == 'exists':
            if int(t[1]) != payload:
                if payload == 0:
                    fails.append(('abort-create-file-exists', 'ncmpi_abort of a freshly created file left the file on disk', rep))
                else:
                    fails.append(('abort-redef-file-missing', 'ncmpi_abort of a redefinition removed the file', rep))
        elif kind == 'layout':
            if payload[0] == 'old':
                lay_old = ans
            else:
                nold = payload[1]
                mv, old, new, numrecs, nnv = layout_vars(sp, lay_old, ans, nold)
                last_new = (mv, old, new, numrecs, nnv)
                if any(a != b for a, b, _, _ in mv) or old[2] != new[2]:
                    moved = True
                for b in layout_ok(mv, old, new, nnv):
                    lbad.append(dict(problem=b, old=lay_old, new=ans, script=sc.ops))
                # the fill part of enddef: real per-rank fill ranges vs hypotheses of enddef_fill_touches_only_new
                if plan_ans is not None:
                    (nold_p, nofill), answers = plan_ans
                    plan_ans = None
                    nums = list(map(int, ans.split()[1:]))
                    noff = nums[5:]
                    slots, slots_any = [], []
                    for v in range(nold, nnv):
                        nb = sp.inner(v) * XSZ[sp.vars[v][0]]
                        bases = [noff[v] + new[2] * r for r in range(numrecs)] if sp.is_rec(v) else [noff[v]]
                        for bs in bases:
                            slots_any.append((bs, bs + nb))
                            if not nofill[v]:
                                slots.append((bs, bs + nb))
                    oldreg = [(nb_, nb_ + ln) for ob, nb_, ln, isrec in mv if not isrec] + \
                             [(new[1] + r * new[2], new[1] + r * new[2] + old[2]) for r in range(numrecs)]
                    for (a, b) in slots_any:
                        for (c, d) in oldreg:
                            if a < d and c < b and a < b and c < d:
                                lbad.append(dict(problem='new variable slot [%d,%d) overlaps the new place [%d,%d) of old data' % (a, b, c, d),
                                                 old=lay_old, new=ans, script=sc.ops))
                    nseg = 0
                    for r_, pa in enumerate(answers):
                        pt = (pa or '').split()
                        if len(pt) < 3 or pt[0] != 'plan' or pt[1] == 'unsupported':
                            continue
                        n = max(int(pt[2]), 0) if int(pt[1]) > 0 else 0
                        for k in range(n):
                            off, ln = int(pt[3 + 2 * k]), int(pt[4 + 2 * k])
                            if ln == 0:
                                continue
                            nseg += 1
                            if not any(a <= off and off + ln <= b for a, b in slots):
                                hit = next(((c, d) for c, d in oldreg if off < d and c < off + ln), None)
                                fillbad.append(dict(problem='rank %d fills [%d,%d): not inside a new fill-mode variable%s'
                                                    % (r_, off, off + ln, (' and overlapping old data at [%d,%d)' % hit) if hit else ''),
                                                    old=lay_old, new=ans, script=sc.ops, nprocs=np_))
                    newrec_fill = [v for v in range(nold, nnv) if sp.is_rec(v) and not nofill[v]]
                    newfix_fill = [v for v in range(nold, nnv) if not sp.is_rec(v) and not nofill[v]]
                    stats.append(dict(existing_records=numrecs, new_rec_fill=len(newrec_fill), new_fixed_fill=len(newfix_fill),
                                      new_nofill=len([v for v in range(nold, nnv) if nofill[v]]), fill_segments=nseg,
                                      old_rec_vars=len([1 for m_ in mv if m_[3]])))
        elif kind == 'snap':
            if payload == 'before':
                snap_before = t[1]
            elif payload.startswith('define-op:'):
                nsnap_def[0] += 1
                if snap_before is not None and t[1] != snap_before:
                    a, b = hexbytes(snap_before), hexbytes(t[1])
                    d = next((i for i in range(min(len(a), len(b))) if a[i] != b[i]), min(len(a), len(b)))
                    fails.append(('define-mode-op-wrote-file',
                                  'the file changed on disk (first difference at byte %d, lengths %d/%d) while it was in define mode after ncmpi_redef: %s'
                                  % (d, len(a), len(b), payload[10:]), rep))
                    snap_before = t[1] if False else snap_before
            elif payload == 'after-abort':
                if t[1] != snap_before:
                    a, b = hexbytes(snap_before), hexbytes(t[1])
                    d = next((i for i in range(min(len(a), len(b))) if a[i] != b[i]), min(len(a), len(b)))
                    fails.append(('abort-redef-bytes-differ', 'file differs at byte %d (lengths %d/%d) between ncmpi_redef and after ncmpi_abort'
                                  % (d, len(a), len(b)), rep))
            elif payload == 'after' and last_new is not None and snap_before is not None:
                mv, old, new, numrecs, nnv = last_new
                unit = int(sc.ops[0].split()[1])
                line = 'ED %d %d %d %d %d %d %d %d %d %d %d %s %s' % (
                    np_, unit, old[0], old[1], old[2], new[0], new[1], new[2], nnv, numrecs, len(mv),
                    ' '.join('%d %d %d %d' % v for v in mv), snap_before)
                before = hexbytes(snap_before)
                regions = []
                for ob, nb, ln, isrec in mv:
                    if not isrec:
                        n = max(0, min(ln, len(before) - ob))
                        regions.append((nb, nb + n))
                for r in range(numrecs):
                    n = max(0, min(old[2], len(before) - (old[1] + r * old[2])))
                    regions.append((new[1] + r * new[2], new[1] + r * new[2] + n))
                eds.append((line, hexbytes(t[1]), regions))
                last_new = None
        elif kind == 'read':
            v, exp, phase = payload
            ty = sp.vars[v][0]
            if t[2] != '0':
                fails.append(('api-error:read', 'reading variable %d %s returned %s' % (v, phase, t[2]), rep))
                continue
            # every rank's own view is checked on the elements that were written
            for r in range(np_):
                ar = resall[r].get(li + 1)
                if ar is None or ':' not in ar or ar.split()[2] != '0':
                    fails.append(('api-error:read', 'rank %d: reading variable %d %s failed: %s' % (r, v, phase, (ar or '')[:60]), rep)); break
                vals = ar.split(':', 1)[1].split()
                bad_here = False
                for idx, val in exp.items():
                    if idx >= len(vals):
                        fails.append(('value-lost-%s' % phase,
                                      'rank %d: element %d of variable %d written before is beyond the variable size %s (numrecs %s)'
                                      % (r, idx, v, phase, ar.split()[3]), rep))
                        bad_here = True; break
                    got = decode(ty, vals[idx])
                    if got != val:
                        fails.append(('value-changed-%s' % phase,
                                      'rank %d: element %d of variable %d (type %d): wrote %s, reads %s %s' % (r, idx, v, ty, val, got, phase), rep))
                        bad_here = True; break
                if bad_here:
                    break
    if nsnap_def[0]:
        stats.append(dict(define_snapshots=nsnap_def[0]))
    return fails, eds, moved, lbad, fillbad, stats


if __name__ == '__main__':
    tier, seed, replay = args(sys.argv[1:])
    sys.exit(run_check(tier, seed))
