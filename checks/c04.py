#!/usr/bin/env python3
"""C04 — any specification-valid classic file is read back exactly (DESIGN.md §4 C04).

S3  theorems of lean/PnVerif/Props/C04.lean about the model Model/Header.lean (reader program,
    window reader, flat reader, writer) and the independent decoder Spec/SpecDecode.lean.
S4  the Lean specification encoder (Header.encodeRaw) turns random schemas — including layouts
    PnetCDF never writes — into files; the real library reads them
      * through ncmpio_hdr_get_NC driven directly with ncp->chunk in {36,40,52,64,100,4096,262144}
        on 1..n ranks (harness/c04_unit.c), compared token by token with Header.decodeChunked;
      * through the public API (harness/c04_api.c: every inquiry + the data of every variable),
        compared with what was encoded;
    plus truncated, semantically invalid and tag/magic-damaged files (model = implementation only).
"""
import os, sys, json, hashlib, subprocess
sys.path.insert(0, os.path.dirname(os.path.abspath(__file__)))
from common import *

PROP = 'C04'
TSIZE = {1: 1, 2: 1, 3: 2, 4: 4, 5: 4, 6: 8, 7: 1, 8: 2, 9: 4, 10: 8, 11: 8}
CHUNKS = [36, 40, 52, 64, 100, 4096, 262144]
LEAN_FILES = ['PnVerif/Spec/SpecDecode.lean', 'PnVerif/Model/Header.lean', 'PnVerif/Model/HeaderText.lean', 'PnVerif/Model/Layout.lean',
              'PnVerif/Lemmas/HeaderLemmas.lean', 'PnVerif/Lemmas/Window.lean', 'PnVerif/Lemmas/Decode.lean', 'PnVerif/Lemmas/Encode.lean',
              'PnVerif/Lemmas/LayoutLemmas.lean', 'PnVerif/Lemmas/PostPass.lean', 'PnVerif/Lemmas/Accept.lean', 'PnVerif/Props/C04.lean', 'Driver/C04.lean']


# ------------------------------------------------------------------------------------------
# schemas
# ------------------------------------------------------------------------------------------
def hx(b):
    return b.hex() if b else '-'


def unhx(s):
    return b'' if s == '-' else bytes.fromhex(s)


UTF8_PIECES = ['é', 'ü', 'ß', 'λ', 'Ж', '日', '本', '語', '한', '€', '𝛑', 'ñ', 'å']
FIRST = 'abcdefghijklmnopqrstuvwxyzABCDEFGHIJKLMNOPQRSTUVWXYZ0123456789_'
REST = FIRST + '.-+@ ()$%&#=~^,;:!?<>[]{}|*'


def gen_name(rng, used, long_ok=True):
    for _ in range(100):
        r = rng.below(20)
        if r == 0 and long_ok:
            n = rng.choice([256, 256, 255, rng.range(200, 254)])
        elif r < 4:
            n = rng.range(13, 60)
        else:
            n = rng.range(1, 12)
        utf = rng.chance(1, 5)
        s = ''
        while len(s.encode('utf8')) < n:
            if utf and rng.chance(1, 3):
                s += rng.choice(UTF8_PIECES)
            elif not s:
                s += rng.choice(FIRST)
            else:
                s += rng.choice(REST)
        b = s.encode('utf8')
        while len(b) > 256:
            s = s[:-1]
            b = s.encode('utf8')
        b = b.rstrip(b' ')          # trailing blanks are legal in files but confusing; avoid
        if b and b not in used:
            used.add(b)
            return b
    raise RuntimeError('name generation')


def gen_att(rng, fmt, used, big=0):
    t = rng.range(1, 6) if fmt < 5 else rng.range(1, 11)
    r = rng.below(12)
    if big > 100000:
        n = (big + TSIZE[t] - 1) // TSIZE[t]
    elif big:
        n = big
    elif r == 0:
        n = 0
    elif r == 1:
        n = rng.range(20, 90)
    else:
        n = rng.range(1, 9)
    val = bytes(rng.below(256) for _ in range(n * TSIZE[t]))
    if t == 2:      # text: keep printable
        val = bytes(32 + (x % 95) for x in val)
    return dict(name=gen_name(rng, used), type=t, nelems=n, value=val)


def gen_schema(rng, big=0, fmt=None):
    """a specification-valid schema WITHOUT layout (begins / vsize are assigned by layout())"""
    fmt = fmt or rng.choice([1, 2, 5])
    dn, an, vn = set(), set(), set()
    ndims = rng.choice([0, 1, 2, 3, 3, 4, 6])
    dims = []
    unlim = rng.below(ndims) if ndims and rng.chance(2, 3) else -1
    for i in range(ndims):
        dims.append(dict(name=gen_name(rng, dn), size=0 if i == unlim else rng.range(1, 5)))
    gatts = [gen_att(rng, fmt, an) for _ in range(rng.choice([0, 0, 1, 2, 3, 5]))]
    if big:
        gatts.append(gen_att(rng, fmt, an, big=big))
    nvars = rng.choice([0, 1, 2, 3, 4, 6]) if ndims else rng.choice([0, 1, 2])
    vs = []
    for _ in range(nvars):
        nd = rng.choice([0, 1, 1, 2, 2, 3]) if ndims else 0
        fixed_dims = [i for i in range(ndims) if i != unlim]
        ids = []
        if nd and unlim >= 0 and rng.chance(1, 2):
            ids.append(unlim)
        while len(ids) < nd and fixed_dims:
            ids.append(rng.choice(fixed_dims))
        va = set()
        t = rng.range(1, 6) if fmt < 5 else rng.range(1, 11)
        vs.append(dict(name=gen_name(rng, vn), dimids=ids, atts=[gen_att(rng, fmt, va) for _ in range(rng.choice([0, 0, 1, 2]))],
                       type=t, vsize=0, begin=0))
    has_rec = any(v['dimids'] and v['dimids'][0] == unlim for v in vs)
    numrecs = rng.choice([0, 1, 2, 3]) if unlim >= 0 else 0
    return dict(fmt=fmt, numrecs=numrecs, dims=dims, gatts=gatts, vars=vs, unlim=unlim, has_rec=has_rec)


def gen_ends_at_header(rng, fmt, variant, k):
    """spec-valid file with NOTHING after the header: only record variables and numrecs = 0 (the
    state right after enddef), or no variable at all.  `k` sweeps the header length in steps of 4 so
    that, with every small chunk size, the last 4- and 8-byte fields of the header take every
    position relative to the last read chunk (straddling it included)."""
    dn, an, vn = set(), set(), set()
    dims = [dict(name=gen_name(rng, dn, long_ok=False), size=0), dict(name=gen_name(rng, dn, long_ok=False), size=rng.range(1, 4))]
    gatts = [gen_att(rng, fmt, an) for _ in range(rng.choice([0, 1, 2]))]
    pad = bytes(97 + rng.below(26) for _ in range(4 * k + 1))        # a name of 4k+1 bytes: header grows by 4 per step
    vs = []
    if variant == 'rec-only':
        for j in range(rng.choice([1, 2, 3])):
            t = rng.range(1, 6) if fmt < 5 else rng.range(1, 11)
            vs.append(dict(name=gen_name(rng, vn, long_ok=False), dimids=[0] + ([1] if rng.chance(1, 2) else []),
                           atts=[gen_att(rng, fmt, set()) for _ in range(rng.choice([0, 0, 1]))], type=t, vsize=0, begin=0))
        vs[-1]['name'] = pad
    else:
        gatts.append(dict(name=pad, type=2, nelems=rng.range(1, 7), value=b''))
        gatts[-1]['value'] = bytes(65 + rng.below(26) for _ in range(gatts[-1]['nelems']))
    return dict(fmt=fmt, numrecs=0, dims=dims, gatts=gatts, vars=vs, unlim=0, has_rec=bool(vs), family='ends-at-header')


def gen_many_dims(rng, fmt, variant):
    """spec-valid schema with a variable of 17..40 dimensions (lengths 1, a few 2) somewhere among
    record and fixed-size variables: the dispatcher of ncmpi_open keeps a per-variable shape cache
    (dimids beyond 16 go to a heap buffer) that is only observable through the inquiries and reads"""
    dn, an, vn = set(), set(), set()
    ndim = rng.range(24, 44)
    dims = [dict(name=gen_name(rng, dn, long_ok=False), size=0)]
    twos = set(rng.shuffle(list(range(1, ndim)))[:3])
    for i in range(1, ndim):
        dims.append(dict(name=gen_name(rng, dn, long_ok=False), size=2 if i in twos else 1))

    def var(ids):
        t = rng.range(1, 6) if fmt < 5 else rng.range(1, 11)
        return dict(name=gen_name(rng, vn, long_ok=False), dimids=ids, atts=[gen_att(rng, fmt, set()) for _ in range(rng.choice([0, 0, 1]))],
                    type=t, vsize=0, begin=0)

    def small(rec):
        ids = [0] if rec else []
        ids += [rng.range(1, ndim - 1) for _ in range(rng.choice([0, 1, 2]))]
        return var(ids)
    nbig = rng.range(17, min(40, ndim - 1))
    big_ids = rng.shuffle(list(range(1, ndim)))[:nbig]
    big_rec = variant % 2 == 1
    if big_rec:
        big_ids = [0] + big_ids[:-1]
    vs = []
    if variant % 3 == 0:
        vs.append(var([0]))                      # the record coordinate variable first
    for _ in range(rng.choice([0, 1, 2])):
        vs.append(small(rng.chance(1, 2)))
    vs.append(var(big_ids))
    for _ in range(rng.range(2, 4)):
        vs.append(small(rng.chance(1, 2)))
    if variant % 4 == 3:                         # a second big variable of the other kind
        ids2 = rng.shuffle(list(range(1, ndim)))[:rng.range(17, min(30, ndim - 1))]
        vs.append(var(ids2 if big_rec else [0] + ids2[:-1]))
        vs.append(small(False))
    has_rec = any(v['dimids'] and v['dimids'][0] == 0 for v in vs)
    return dict(fmt=fmt, numrecs=rng.choice([0, 1, 2, 3]), dims=dims, gatts=[gen_att(rng, fmt, an) for _ in range(rng.choice([0, 1]))],
                vars=vs, unlim=0, has_rec=has_rec, family='more-than-16-dims')


def is_rec(s, v):
    return bool(v['dimids']) and v['dimids'][0] < len(s['dims']) and s['dims'][v['dimids'][0]]['size'] == 0


def nelems(s, v):
    n = 1
    for i in v['dimids']:
        n *= (s['dims'][i]['size'] or 1) if i < len(s['dims']) else 1
    return n


def var_len(s, v):
    b = nelems(s, v) * TSIZE[v['type']]
    return (b + 3) // 4 * 4


def layout(rng, s, xsz, exotic=True):
    """assign begins (increasing in definition order, gaps allowed), vsize fields (correct, stale
    or saturated); returns feature tags"""
    tags = set()
    fixed = [v for v in s['vars'] if not is_rec(s, v)]
    recs = [v for v in s['vars'] if is_rec(s, v)]

    def gap():
        if not exotic:
            return 0
        r = rng.below(10)
        if r < 5:
            return 0
        tags.add('gap')
        if r < 8:
            return 4 * rng.range(1, 20)
        if r == 8:
            return 512 - 0
        tags.add('unaligned-begin')
        return rng.range(1, 3)
    off = xsz + gap()
    for v in fixed:
        off += gap() if v is not fixed[0] else 0
        v['begin'] = off
        off += var_len(s, v)
    off += gap()
    s['begin_rec'] = off
    for v in recs:
        v['begin'] = off
        off += var_len(s, v)
    recsize = sum(var_len(s, v) for v in recs)
    if len(recs) == 1:
        recsize = nelems(s, recs[0]) * TSIZE[recs[0]['type']]
        if recsize % 4:
            tags.add('single-rec-packed')
    s['recsize'] = recsize
    for v in s['vars']:
        r = rng.below(8) if exotic else 0
        if r == 6:
            v['vsize'] = 0xFFFFFFFF
            tags.add('saturated-vsize')
        elif r == 7:
            v['vsize'] = rng.choice([0, 1, 3, var_len(s, v) + 4, 123456789])
            tags.add('stale-vsize')
        else:
            v['vsize'] = var_len(s, v)
    end_fixed = max([v['begin'] + var_len(s, v) for v in fixed] + [xsz])
    end = s['begin_rec'] + s['numrecs'] * recsize if recs else end_fixed
    s['file_end'] = max(end, end_fixed)
    if recs:
        tags.add('rec-var')
    if any(a['nelems'] == 0 for a in all_atts(s)):
        tags.add('zero-length-att')
    if any(n and max(n) > 127 for n in all_names(s)):
        tags.add('utf8-name')
    if any(len(n) > 100 for n in all_names(s)):
        tags.add('long-name')
    if not s['vars']:
        tags.add('no-vars')
    if not s['dims']:
        tags.add('no-dims')
    if s['fmt'] == 5 and any(x['type'] > 6 for x in all_atts(s) + s['vars']):
        tags.add('cdf5-types')
    return tags


def all_atts(s):
    return s['gatts'] + [a for v in s['vars'] for a in v['atts']]


def all_names(s):
    return [d['name'] for d in s['dims']] + [a['name'] for a in all_atts(s)] + [v['name'] for v in s['vars']]


def att_tokens(a):
    return [hx(a['name']), str(a['type']), str(a['nelems']), hx(a['value'])]


def schema_tokens(s, vsize_of=None):
    t = [str(s['fmt']), str(s['numrecs']), str(len(s['dims']))]
    for d in s['dims']:
        t += [hx(d['name']), str(d['size'])]
    t.append(str(len(s['gatts'])))
    for a in s['gatts']:
        t += att_tokens(a)
    t.append(str(len(s['vars'])))
    for v in s['vars']:
        t += [hx(v['name']), str(len(v['dimids']))] + [str(i) for i in v['dimids']] + [str(len(v['atts']))]
        for a in v['atts']:
            t += att_tokens(a)
        t += [str(v['type']), str(vsize_of(v) if vsize_of else v['vsize']), str(v['begin'])]
    return t


def parse_schema(tok):
    """inverse of schema_tokens; returns (schema, rest)"""
    it = iter(range(len(tok)))
    pos = [0]

    def nx():
        x = tok[pos[0]]
        pos[0] += 1
        return x

    def att():
        return dict(name=unhx(nx()), type=int(nx()), nelems=int(nx()), value=unhx(nx()))
    s = dict(fmt=int(nx()), numrecs=int(nx()), dims=[], gatts=[], vars=[])
    for _ in range(int(nx())):
        s['dims'].append(dict(name=unhx(nx()), size=int(nx())))
    for _ in range(int(nx())):
        s['gatts'].append(att())
    for _ in range(int(nx())):
        v = dict(name=unhx(nx()))
        v['dimids'] = [int(nx()) for _ in range(int(nx()))]
        v['atts'] = [att() for _ in range(int(nx()))]
        v['type'] = int(nx())
        v['vsize'] = int(nx())
        v['begin'] = int(nx())
        s['vars'].append(v)
    return s, tok[pos[0]:]


def logical(s, with_len=None):
    """what the application-visible content of a schema is (vsize dropped or replaced by len)"""
    return dict(fmt=s['fmt'], dims=[(d['name'], d['size']) for d in s['dims']],
                gatts=[(a['name'], a['type'], a['nelems'], a['value']) for a in s['gatts']],
                vars=[(v['name'], tuple(v['dimids']), tuple((a['name'], a['type'], a['nelems'], a['value']) for a in v['atts']),
                       v['type'], v['begin']) for v in s['vars']])


# ------------------------------------------------------------------------------------------
HASH_SIZES = [1, 2, 7, 64, 1024]


def gen_hints(rng):
    """one MPI_Info / environment setting for ncmpi_open: a random subset of the hints that must not
    change what is read (hash table sizes in unequal combinations, header read chunk, alignments,
    collective header read, intra-node aggregation, safe mode)"""
    h = []
    hs = rng.shuffle(HASH_SIZES)
    for i, key in enumerate(['nc_hash_size_dim', 'nc_hash_size_var', 'nc_hash_size_gattr', 'nc_hash_size_vattr']):
        if rng.chance(2, 3):
            h.append('%s=%d' % (key, hs[i]))          # distinct values for the four tables
    if rng.chance(1, 2):
        h.append('nc_header_read_chunk_size=%d' % rng.choice([1, 36, 64, 100, 4096, 1048576]))
    if rng.chance(1, 3):
        h.append('nc_header_align_size=%d' % rng.choice([1, 4, 512, 1000]))
    if rng.chance(1, 3):
        h.append('nc_var_align_size=%d' % rng.choice([1, 4, 512, 1000]))
    if rng.chance(1, 3):
        h.append('romio_no_indep_rw=true')
    if rng.chance(1, 3):
        h.append('nc_num_aggrs_per_node=%d' % rng.choice([1, 2]))
    if rng.chance(1, 2):
        h.append('PNETCDF_SAFE_MODE=%d' % rng.below(2))
    return ' '.join(h)


def lean_batch(drv, lines):
    p = subprocess.run([drv], input='\n'.join(lines) + '\n', stdout=subprocess.PIPE, stderr=subprocess.PIPE, text=True)
    out = p.stdout.split('\n')
    if p.returncode != 0 or len(out) < len(lines):
        raise RuntimeError('lean driver failed rc=%s lines=%d/%d stderr=%s' % (p.returncode, len(out), len(lines), p.stderr[-400:]))
    return out[:len(lines)]


def run_harness(exe, n, reqlines, wd, tag, max_restarts=3):
    """run a harness over all request lines on n ranks; a request on which the program dies (signal,
    watchdog alarm, abort) gets the answer 'CRASH <rc>' on every rank and the run resumes after it.
    returns (outs[rank][request], note)"""
    outs = [[] for _ in range(n)]
    start, restarts, note = 0, 0, ''
    while start < len(reqlines):
        reqf = os.path.join(wd, '%s.req' % tag)
        open(reqf, 'w').write(''.join(l + '\n' for l in reqlines[start:]))
        pref = os.path.join(wd, '%s.out' % tag)
        for r in range(n):
            try:
                os.unlink('%s.%d' % (pref, r))
            except OSError:
                pass
        rc, so, se = mpirun(n, [exe, reqf, pref], timeout=900)
        got = []
        for r in range(n):
            try:
                ls = open('%s.%d' % (pref, r)).read().split('\n')
            except OSError:
                ls = ['']
            got.append(ls[:-1])         # complete lines only
        want = len(reqlines) - start
        if rc == 0 and all(len(g) == want for g in got):
            for r in range(n):
                outs[r] += got[r]
            break
        done = min(len(g) for g in got)
        done = min(done, want - 1)
        for r in range(n):
            outs[r] += got[r][:done] + ['CRASH rc=%s' % rc]
        note += 'request %d (%s): harness died rc=%s %s; ' % (start + done, reqlines[start + done][:120], rc, (so + se)[-200:].replace('\n', ' '))
        start += done + 1
        restarts += 1
        if restarts > max_restarts:
            for r in range(n):
                outs[r] += ['NOT-RUN'] * (len(reqlines) - start)
            note += 'too many restarts; '
            break
    return outs, note


def run_check(tier, seed):
    V = Verdict(PROP, tier, seed)
    rng = SplitMix64(seed * 1000003 + 4)
    V.assumptions = [
        'the model Model/Header.lean is a hand transcription of ncmpio_header_get.c / ncmpio_header_put.c (functions named in the file); it is tied to the source by this differential run only',
        'MPI_File_read_at returns the bytes of the file and a short count at end of file; MPI_Bcast delivers the root buffer (hdr_fetch on non-root ranks is not modelled separately, it is exercised with 2..4 ranks)',
        'the hint nc_header_read_chunk_size is parsed but never stored (note N1): small chunks are exercised by calling ncmpio_hdr_get_NC with a hand-built NC object, the public API only with the default 256 KiB chunk',
        'specification-valid = accepted by Spec.specDecode (BNF of the classic format, padding bytes and name characters not inspected) + begins increasing in definition order; numrecs = STREAMING is excluded',
        'I/O errors, NC_ENULLPAD (compiled out) and allocation failures are outside the model',
    ]
    V.cov['trusted_base'] = TRUSTED_BASE_COMMON + [
        'hand-written model lean/PnVerif/Model/Header.lean (tied by correspondence, not by proof)',
        'harness/c04_unit.c, harness/c04_api.c, checks/c04.py (generators, canonicalisation)']
    tree = build_impl('plain')
    wd = workdir('c04')
    try:
        # ---- S3
        ok, out = lake_build(['PnVerif.Props.C04', 'c04drv'])
        failed_thms = set()
        if not ok:
            for f, ln, msg in lake_errors(out):
                t = theorem_at(f, ln)
                if t:
                    failed_thms.add(t)
            log('[S3] lake build FAILED:', sorted(failed_thms)[:20], out[-800:])
        obl = obligations_of('PnVerif/Props/C04.lean')
        discharged, bad = axiom_audit('PnVerif.Props.C04', obl, 'PnVerif.Props.C04') if ok else ([], [])
        forb = grep_forbidden([os.path.join(LEAN, f) for f in LEAN_FILES])
        V.cov['obligations'] = len(obl)
        V.cov['discharged'] = len(discharged)
        V.cov['checker_cmd'] = 'cd lean && lake build PnVerif.Props.C04 c04drv && lake env lean <#print axioms of every name in Props.C04.obligations>'
        V.cov['theorems'] = obl
        if tier == 'thorough' and ok:
            lc = leanchecker(['PnVerif.Props.C04'])
            V.cov['leanchecker'] = 'ok' if not lc else str(lc)
            if lc:
                bad.append(('leanchecker', lc))
        proof_broken = (not ok) or bad or forb or not obl
        drv = os.path.join(LEAN, '.lake/build/bin/c04drv')
        if not os.path.exists(drv) or not ok:
            # the driver shares the model with the theorems: without it there is no tie
            if not os.path.exists(drv):
                V.broken_tie('Lean driver c04drv does not build', out[-1500:])
                return V.finish()
        # ---- S4 harnesses
        inc = ['-DHAVE_CONFIG_H', '-DPNC_MALLOC_TRACE', '-I' + os.path.join(tree, 'src/drivers/ncmpio'),
               '-I' + os.path.join(tree, 'src/drivers/include'), '-I' + os.path.join(tree, 'src/include')]
        unit = cc(tree, [os.path.join(VERIF, 'harness/c04_unit.c')], os.path.join(wd, 'c04_unit'), extra=inc)
        api = cc(tree, [os.path.join(VERIF, 'harness/c04_api.c')], os.path.join(wd, 'c04_api'))
        # which variant does the tree follow?  (finding FB2-1, property C03: compute_var_shape leaves begin_var =
        # begin_rec = 0 for a file without variables; the repaired code sets them to the header size.
        # Header.decodeChunkedV models both; Props.C03.fixed_variant_conservative)
        vpath = os.path.join(wd, 'variant.nc')
        open(vpath, 'wb').write(b'CDF\x01' + bytes(28))
        vo, _n = run_harness(unit, 1, ['%s 36 0' % vpath], wd, 'variant')
        try:
            tt = vo[0][0].split()
            kk = tt.index('|')
            fixed_variant = int(tt[kk + 2]) == int(tt[kk + 1])
        except Exception:
            V.broken_tie('harness c04_unit failed on the variant probe', str(vo)[:600])
            return V.finish()
        V.cov['tree_variant'] = 'FB2-1 repaired' if fixed_variant else 'FB2-1 present'
        variant_line = 'VARIANT %d' % (1 if fixed_variant else 0)
        # repairs of the C19 findings the tree may carry (Model/Safety.lean §5/§6, Props.C19 variant_conservative /
        # variant_chunk_independent): int63 = a CDF-5 dimension length of 2^63+3 is refused; eof = the 8-byte file
        # "CDF1"+numrecs is refused instead of being read as an empty dataset
        p63, peof = os.path.join(wd, 'probe63.nc'), os.path.join(wd, 'probe_eof.nc')
        open(p63, 'wb').write(b'CDF\x05' + bytes(8) + (10).to_bytes(4, 'big') + (1).to_bytes(8, 'big') + (1).to_bytes(8, 'big') + b'x\0\0\0' +
                              ((1 << 63) + 3).to_bytes(8, 'big') + bytes(24))
        open(peof, 'wb').write(b'CDF\x01' + bytes(4))
        ro, _n = run_harness(unit, 1, ['%s 36 0' % p63, '%s 36 0' % peof], wd, 'repairs')
        try:
            r63, reof = ro[0][0].split()[0], ro[0][1].split()[0]
            assert r63 in ('OK', 'ERR') and reof in ('OK', 'ERR')
        except Exception:
            V.broken_tie('harness c04_unit failed on the repairs probe', str(ro)[:600])
            return V.finish()
        V.cov['tree_repairs'] = dict(int63=(r63 == 'ERR'), eof=(reof == 'ERR'))
        repairs_line = 'REPAIRS %d %d' % (1 if r63 == 'ERR' else 0, 1 if reof == 'ERR' else 0)
        nvalid = 250 if tier == 'quick' else 8000
        cases = []          # dict(kind, schema|None, path, bytes, tags, chunks)
        schemas = []
        for i in range(nvalid):
            big = 0
            if i == 0:
                big = 540000         # bytes: > 2 default chunks of header
            elif i < 4:
                big = rng.range(600, 3000)
            schemas.append(gen_schema(rng, big=big))
        # files that end exactly where the header ends, header length swept in steps of 4
        nsweep = 27 if tier == 'quick' else 54
        for fmt in (1, 2, 5):
            for variant in ('rec-only', 'no-vars'):
                for k in range(nsweep):
                    schemas.append(gen_ends_at_header(rng, fmt, variant, k % 27))
        # variables with more than 16 dimensions among other variables (dispatcher shape cache)
        for fmt in (1, 2, 5):
            for variant in range(6 if tier == 'quick' else 24):
                schemas.append(gen_many_dims(rng, fmt, variant))
        # corpus of past failing schemas (token lines) runs first
        corpus = os.path.join(VERIF, 'corpus', 'C04', 'schemas.txt')
        ncorpus = 0
        if os.path.exists(corpus):
            for l in open(corpus):
                l = l.strip()
                if l and not l.startswith('#'):
                    try:
                        s, _ = parse_schema(l.split())
                        s['unlim'] = next((i for i, d in enumerate(s['dims']) if d['size'] == 0), -1)
                        s['preset'] = True
                        schemas.insert(0, s)
                        ncorpus += 1
                    except Exception:
                        pass
        # pass 1: header length (independent of the begin values)
        r1 = lean_batch(drv, ['ENC ' + ' '.join(schema_tokens(s)) for s in schemas])
        for s, l in zip(schemas, r1):
            t = l.split()
            if len(t) != 5:
                V.broken_tie('Lean encoder rejected a generated schema', dict(line=' '.join(schema_tokens(s))[:2000], answer=l[:200]))
                return V.finish()
            s['xsz'] = int(t[1])
            if s.get('preset'):
                s['tags'] = {'corpus'}
                fixed = [v for v in s['vars'] if not is_rec(s, v)]
                recs = [v for v in s['vars'] if is_rec(s, v)]
                s['recsize'] = sum(var_len(s, v) for v in recs) if len(recs) != 1 else nelems(s, recs[0]) * TSIZE[recs[0]['type']]
                s['begin_rec'] = recs[0]['begin'] if recs else 0
                ef = max([v['begin'] + var_len(s, v) for v in fixed] + [s['xsz']])
                s['file_end'] = max(ef, s['begin_rec'] + s['numrecs'] * s['recsize'] if recs else ef)
                s['has_rec'] = bool(recs)
            else:
                s['tags'] = layout(rng, s, s['xsz'], exotic=(rng.below(6) != 0 and s.get('family') != 'ends-at-header'))
                if s.get('family'):
                    s['tags'].add(s['family'])
        r2 = lean_batch(drv, ['ENC ' + ' '.join(schema_tokens(s)) for s in schemas])
        dist = {}
        for k, (s, l) in enumerate(zip(schemas, r2)):
            t = l.split()
            hdr = unhx(t[0])
            s['tagoff'] = [int(x) for x in t[2:5]]
            if len(hdr) != s['xsz'] or int(t[1]) != s['xsz']:
                V.broken_tie('Lean encoder: length of encodeRaw differs from Hdr.len', dict(schema=' '.join(schema_tokens(s))[:2000]))
                return V.finish()
            body = bytearray(rng.below(256) for _ in range(max(0, s['file_end'] - s['xsz'])))
            data = bytes(hdr) + bytes(body)
            if rng.chance(1, 4) and not s['has_rec'] and not s.get('family'):
                data += bytes(rng.below(256) for _ in range(rng.range(1, 40)))     # trailing bytes after the data
                s['tags'].add('trailing-bytes')
            path = os.path.join(wd, 'v%d.nc' % k)
            open(path, 'wb').write(data)
            chunks = CHUNKS if (tier == 'thorough' or k < 12) else [36, rng.choice([40, 52, 64, 100]), rng.choice([4096, 262144])]
            if s.get('family') == 'ends-at-header':
                chunks = list(range(36, 101, 4)) + [4096]        # every small chunk size
            if s['xsz'] > 100000:
                chunks = [4096, 262144]       # (the model's copy loop appends per refill: keep the big case to large chunks)
                s['tags'].add('header>2-default-chunks')
            cases.append(dict(kind='valid', schema=s, path=path, data=data, tags=set(s['tags']), chunks=chunks))
        # ---- malformed / truncated derivatives (tie only)
        nmal = 0
        for k, c in enumerate(list(cases)):
            s, data = c['schema'], c['data']
            if s['xsz'] > 20000:
                continue
            outl = []
            # truncations inside the header
            for _ in range(2 if tier == 'quick' else 4):
                cut = rng.below(s['xsz'])
                outl.append(('truncated', data[:cut]))
            # damaged magic / tags
            r = rng.below(6)
            d = bytearray(data)
            if r == 0:
                d[3] = rng.choice([0, 3, 4, 6, 255])
            elif r == 1:
                d[rng.below(3)] ^= 0x20
            elif r == 2:
                d[0:12] = b'\x89HDF\x89HDF\r\n\x1a\n'
            else:
                o = s['tagoff'][r - 3]
                d[o + 3] = rng.choice([0, 10, 11, 12, 13])
            outl.append(('damaged-tag-or-magic', bytes(d)))
            for j, (kind, dd) in enumerate(outl):
                path = os.path.join(wd, 'm%d_%d.nc' % (k, j))
                open(path, 'wb').write(dd)
                cases.append(dict(kind=kind, schema=None, path=path, data=dd, tags={kind},
                                  chunks=[36, rng.choice([40, 52, 64, 100, 4096])]))
                nmal += 1
        # semantically invalid schemas through the Lean encoder: every kind x every format
        sem2 = []
        reps = 2 if tier == 'quick' else 8
        for kind in range(NBREAK):
            for fmt in (1, 2, 5):
                for rep in range(reps):
                    for attempt in range(40):
                        s = gen_schema(rng, fmt=fmt)
                        s['xsz'] = 0
                        k = break_schema(rng, s, kind, rep, pre=True)
                        if k:
                            s['broken'] = k
                            s['kindno'], s['rep'] = kind, rep
                            sem2.append(s)
                            break
        rs = lean_batch(drv, ['ENC ' + ' '.join(schema_tokens(s)) for s in sem2])
        for s, l in zip(sem2, rs):
            s['xsz'] = int(l.split()[1])
            layout(rng, s, s['xsz'], exotic=False)
            break_schema(rng, s, s['kindno'], s['rep'], pre=False)
        rs = lean_batch(drv, ['ENC ' + ' '.join(schema_tokens(s)) for s in sem2])
        for k, (s, l) in enumerate(zip(sem2, rs)):
            hdr = unhx(l.split()[0])
            if 'badtype' in s:
                vk, code = s['badtype']
                s2 = dict(s)
                s2['vars'] = s['vars'][:vk + 1]
                end = int(lean_batch(drv, ['ENC ' + ' '.join(schema_tokens(s2))])[0].split()[1])
                w, o = (8, 8) if s['fmt'] == 5 else (4, 8 if s['fmt'] == 2 else 4)
                pos = end - o - w - 4
                hdr = hdr[:pos] + code.to_bytes(4, 'big') + hdr[pos + 4:]
            dd = hdr + bytes(64)
            path = os.path.join(wd, 's%d.nc' % k)
            open(path, 'wb').write(dd)
            cases.append(dict(kind='invalid:' + s['broken'], schema=None, path=path, data=dd, tags={'invalid:' + s['broken']},
                              chunks=[36, rng.choice([40, 52, 64, 100, 4096])]))
        # ---- Lean side
        t1 = Timer()
        lines, idx = [], []
        for ci, c in enumerate(cases):
            lines.append('FILE ' + hx(c['data'])); idx.append((ci, 'F'))
            for ch in c['chunks']:
                lines.append('DEC %d' % ch); idx.append((ci, ch))
            lines.append('DEC W'); idx.append((ci, 'W'))
            if c['kind'] == 'valid':
                lines.append('SPEC'); idx.append((ci, 'S'))
        lo = lean_batch(drv, [variant_line, repairs_line] + lines)[2:]
        lean = {k: v for k, v in zip(idx, lo)}
        log('[S4] Lean model: %d decode requests in %.1fs' % (len(lines), t1.s()))
        # ---- C unit harness
        t1 = Timer()
        unit_reqs = [(ci, ch) for ci, c in enumerate(cases) for ch in c['chunks']]
        ranks = [1, 2] if tier == 'quick' else [1, 2, 4]
        unit_out, notes = {}, []
        for n in ranks:
            unit_out[n], note = run_harness(unit, n, ['%s %d %d %d' % (cases[ci]['path'], ch, (ci + ch) % 2, 1 if (ci * 7 + ch // 4) % 3 == 0 else 0)
                                                      for ci, ch in unit_reqs], wd, 'unit%d' % n)
            if note:
                notes.append('c04_unit ranks=%d: %s' % (n, note))
        log('[S4] C unit harness: %d requests x ranks %s in %.1fs' % (len(unit_reqs), ranks, t1.s()))
        # ---- public API harness (valid files only)
        t1 = Timer()
        valid = [ci for ci, c in enumerate(cases) if c['kind'] == 'valid']
        # every valid file is opened without hints and under several random hint settings
        nset = 3 if tier == 'quick' else 6
        api_reqs, hint_dist = [], {}
        for ci in valid:
            for hs_ in [''] + [gen_hints(rng) for _ in range(nset)]:
                api_reqs.append((ci, hs_))
                for kv in (hs_.split() or ['(no hints)']):
                    hint_dist[kv] = hint_dist.get(kv, 0) + 1
        api_out = {}
        for n in ranks:
            api_out[n], note = run_harness(api, n, [(cases[ci]['path'] + ' ' + hs_).strip() for ci, hs_ in api_reqs], wd, 'api%d' % n)
            if note:
                notes.append('c04_api ranks=%d: %s' % (n, note))
        log('[S4] public API harness: %d opens (%d files x %d hint settings) x ranks %s in %.1fs' % (len(api_reqs), len(valid), nset + 1, ranks, t1.s()))
        if notes:
            log('[S4] harness restarts:', notes[:4])
        V.cov['harness_restarts'] = notes[:10]
        # ---- compare
        tie_diffs, prop_fail, distinct = [], [], set()
        evals = 0
        for ri, (ci, ch) in enumerate(unit_reqs):
            c = cases[ci]
            m = lean[(ci, ch)]
            for n in ranks:
                for r in range(n):
                    evals += 1
                    got = unit_out[n][r][ri]
                    if got != m:
                        tie_diffs.append(dict(stream='unit', file=c['path'], kind=c['kind'], chunk=ch, ranks=n, rank=r,
                                              impl=got[:600], model=m[:600], hex=hx(c['data'])[:200000]))
            if lean[(ci, 'W')] != m:
                tie_diffs.append(dict(stream='model-chunk-vs-whole', file=c['path'], chunk=ch, whole=lean[(ci, 'W')][:600], chunked=m[:600]))
            xs = c['schema']['xsz'] if c['schema'] else len(c['data'])
            spans = xs > max(36, (ch + 3) // 4 * 4)
            feats = c['tags'] - {'rec-var', 'no-dims'}
            key = 'spans-chunks' if spans else 'one-chunk'
            dist[key] = dist.get(key, 0) + 1
            if spans or feats:
                distinct.add((hashlib.sha1(c['data']).hexdigest(), ch))
            # property oracle on the implementation's own output (rank 0, 1 process)
            if c['kind'] == 'valid':
                exp = expected_unit(c['schema'])
                got = unit_out[1][0][ri]
                if not same_unit(got, exp):
                    prop_fail.append(('unit:chunk=%d' % ch, c, got, exp))
        for c in cases:
            for tg in c['tags']:
                dist[tg] = dist.get(tg, 0) + 1
        for vi, ci in enumerate(valid):
            c = cases[ci]
            s = c['schema']
            sp = lean[(ci, 'S')]
            exp_spec = 'OK ' + ' '.join(schema_tokens(s)) + ' | true'
            if sp != exp_spec:
                tie_diffs.append(dict(stream='spec-decoder', file=c['path'], spec=sp[:600], expected=exp_spec[:600]))
        for ai, (ci, hs_) in enumerate(api_reqs):
            c = cases[ci]
            s = c['schema']
            for n in ranks:
                for r in range(n):
                    evals += 1
                    got = api_out[n][r][ai]
                    why = api_mismatch(got, s, c['data'])
                    if why:
                        prop_fail.append(('api:ranks=%d:rank=%d:%s:hints=%s' % (n, r, why, hs_ or '-'), c, got, None))
        V.cov['evaluations'] = evals
        V.cov['distinct_nontrivial'] = len(distinct)
        V.cov['traces_validated_against_impl'] = evals - len(tie_diffs)
        V.cov['rule'] = ('case = (file, read chunk size); valid files come from random schemas (names incl. UTF-8 and up to 256 bytes, every attribute '
                         'type, zero-length and multi-chunk attributes, fixed + record variables, CDF-1/2/5) laid out by the harness with gaps, unaligned '
                         'begins, stale/saturated vsize and trailing bytes, encoded by the Lean specification encoder; each is read by ncmpio_hdr_get_NC with '
                         'several chunk sizes on 1..n ranks (safe mode and collective header read varied) and through the public API under several MPI_Info settings (hash table sizes in '
                         'unequal combinations, header read chunk, alignments, romio_no_indep_rw, nc_num_aggrs_per_node, PNETCDF_SAFE_MODE) with every by-id and by-name inquiry '
                         'and all data compared; derived truncated, tag/magic-damaged and semantically invalid files '
                         'are compared model-vs-implementation only. non-trivial = header spans more than one read chunk, or the file carries an exotic/invalid '
                         'feature tag; distinct = distinct (sha1(file), chunk)')
        V.cov['distribution'] = dist
        V.cov['files'] = dict(valid=len(valid), derived_malformed=nmal, semantic_invalid=len(sem2), corpus=ncorpus)
        V.cov['ranks'] = ranks
        V.cov['open_hint_settings'] = dict(opens=len(api_reqs), per_file=nset + 1, distribution=hint_dist,
                                           unit_reader='chunk x safe_mode x NC_HCOLL (collective header read) vary per request')
        V.cov['samples'] = [dict(kind=c['kind'], chunk=c['chunks'][0], file_hex=hx(c['data'])[:400], model=lean[(i, c['chunks'][0])][:300])
                            for i, c in list(enumerate(cases))[1:len(cases):max(1, len(cases) // 4)]][:5]
        # ---- S5
        nfail = 0
        for sig, c, got, exp in prop_fail:
            s = c['schema']
            if V.failing_input('C04:' + sig.split(':')[0], 'a specification-valid file is not read back exactly (%s)' % sig,
                               dict(how=sig, schema=' '.join(schema_tokens(s)), file_hex=hx(c['data'])[:200000], implementation=(got or '')[:3000],
                                    expected=str(exp or '')[:3000], harness='harness/c04_unit.c / harness/c04_api.c'), tag='in%d' % nfail):
                nfail += 1
                if nfail >= 5:
                    break
        if nfail == 0:
            if tie_diffs:
                V.broken_tie('correspondence: model Header.decodeChunked / Spec.specDecode and implementation differ', tie_diffs[:8])
            if proof_broken:
                V.broken_tie('proof obligations no longer check',
                             dict(failed_theorems=sorted(failed_thms), axiom_audit=bad[:10], forbidden=forb[:10],
                                  lake_tail=out[-1500:] if not ok else ''))
        return V.finish()
    finally:
        cleanup(wd)


NBREAK = 10


def break_schema(rng, s, r, rep, pre):
    """make a valid schema semantically invalid in way number r.  Called twice: pre=True before the
    layout (changes that alter the header length or the shapes), pre=False after it (changes of the
    layout itself).  Returns the kind, or None if the schema has no place for this kind."""
    vs, ds = s['vars'], s['dims']
    if r == 0:
        if not (vs and ds):
            return None
        if pre:
            v = rng.choice(vs)
            v['dimids'] = v['dimids'] + [len(ds) + [0, 1, 1000][rep % 3]]      # rep 0: the boundary value
        return 'dimid-out-of-range'
    if r == 1:
        if len(ds) < 2:
            return None
        if pre:
            a, b = rng.shuffle(list(range(len(ds))))[:2]
            ds[a]['size'] = 0
            ds[b]['size'] = 0
        return 'two-record-dims'
    if r == 2:
        if not (vs and s['unlim'] >= 0 and len(ds) >= 2):
            return None
        if pre:
            v = rng.choice(vs)
            other = rng.choice([i for i in range(len(ds)) if i != s['unlim']])
            v['dimids'] = [other, s['unlim']]
        return 'record-dim-not-first'
    if r == 3:
        pool = all_atts(s) + vs
        if rep % 2 == 1 or s['fmt'] == 5:
            # a type code outside 1..11 (or 1..6): patched into the bytes after encoding (the Lean
            # encoder cannot express it), at the type field of variable k
            if not vs:
                return None
            if pre:
                s['badtype'] = (rng.below(len(vs)), [12, 0, 255, 7][rep % 4] if s['fmt'] == 5 else [7, 0, 12, 11][rep % 4])
                if s['fmt'] == 5 and s['badtype'][1] == 7:
                    s['badtype'] = (s['badtype'][0], 13)
            return 'bad-type-code'
        if not pool:
            return None
        if pre:
            x = rng.choice(pool)
            x['type'] = [7, 11, 9, 10][rep % 4]
            if 'nelems' in x:
                x['value'] = x['value'][:x['nelems']] + bytes(x['nelems'] * TSIZE[x['type']])
                x['value'] = x['value'][:x['nelems'] * TSIZE[x['type']]]
        return 'extended-type-in-cdf12'
    if r == 4:
        pool = ds + all_atts(s) + vs
        if not pool:
            return None
        if pre:
            rng.choice(pool)['name'] = bytes(97 + rng.below(26) for _ in range([257, 258, 300][rep % 3]))
        return 'name-too-long'
    if r == 5:
        if len(vs) < 2:
            return None
        if not pre:
            i = rng.below(len(vs) - 1)
            vs[i]['begin'], vs[i + 1]['begin'] = vs[i + 1]['begin'], vs[i]['begin']
        return 'begins-swapped'
    if r == 6:
        if not vs:
            return None
        if not pre:
            v = rng.choice(vs)
            v['begin'] = [max(0, v['begin'] - 1), s['xsz'] - 1, 0, max(0, v['begin'] - 4)][rep % 4]
        return 'begin-too-small'
    if r == 7:
        cand = [d for d in ds if d['size']]
        if not (vs and cand):
            return None
        if pre:
            rng.choice(cand)['size'] = rng.choice([2**31 - 1, 2**31, 2**32 - 1, 2**29, 2**30, 2**31 - 4, 2**32 - 4])
        return 'huge-dimension'
    if r == 8:
        if pre:
            s['numrecs'] = [2**31 - 1, 2**32 - 1, 2**31][rep % 3]
        return 'huge-numrecs'
    if r == 9:
        if not vs:
            return None
        if pre:
            rng.choice(vs)['name'] = b''
        return 'empty-name'
    return None


def expected_unit(s):
    """answer expected from ncmpio_hdr_get_NC for a valid laid-out schema: schema with vsize := len, xsz, recsize"""
    return dict(tokens=schema_tokens(s, vsize_of=lambda v: var_len(s, v)), xsz=s['xsz'], recsize=s['recsize'] if s['has_rec'] else None)


def same_unit(got, exp):
    t = got.split()
    if not t or t[0] != 'OK' or '|' not in t:
        return False
    k = t.index('|')
    if t[1:k] != exp['tokens']:
        return False
    tail = t[k + 1:]
    if len(tail) != 5 or int(tail[0]) != exp['xsz']:
        return False
    if exp['recsize'] is not None and int(tail[3]) != exp['recsize']:
        return False
    return True


def api_mismatch(got, s, data):
    """None if the public-API dump equals what was encoded, else a short reason"""
    t = got.split()
    if 'APIERR' in t:
        k = t.index('APIERR')
        return 'inquiry-failed(%s)' % '/'.join(t[k + 1:k + 3])
    if not t or t[0] != 'OK':
        return 'open-failed(%s)' % ' '.join(t[:2])
    try:
        k1 = t.index('|')
        k2 = t.index('|', k1 + 1)
        g, _ = parse_schema(t[1:k1])
    except Exception:
        return 'unparsable'
    if logical(g) != logical(s):
        return 'schema'
    if s['unlim'] >= 0 and g['numrecs'] != s['numrecs']:
        return 'numrecs'
    hs, he, rs, ul, nrecv, nfixv = [int(x) for x in t[k1 + 1:k2]]
    if nrecv != sum(1 for v in s['vars'] if is_rec(s, v)) or nfixv != sum(1 for v in s['vars'] if not is_rec(s, v)):
        return 'num_rec_vars/num_fix_vars(%d/%d)' % (nrecv, nfixv)
    if hs != s['xsz']:
        return 'header-size'
    if ul != s['unlim']:
        return 'unlimdim'
    if s['has_rec'] and rs != s['recsize']:
        return 'recsize'
    k3 = t.index('|', k2 + 1)
    dv = t[k2 + 1:k3]
    sub = t[k3 + 1:]
    if len(dv) != len(s['vars']) or len(sub) != len(s['vars']):
        return 'data-count'
    for v, h in zip(s['vars'], dv):
        if is_rec(s, v):
            per = nelems(s, v) * TSIZE[v['type']]
            exp = b''.join(data[v['begin'] + r * s['recsize']: v['begin'] + r * s['recsize'] + per] for r in range(s['numrecs']))
        else:
            exp = data[v['begin']: v['begin'] + nelems(s, v) * TSIZE[v['type']]]
        if unhx(h) != exp:
            return 'data'
        # the upper-half block read with get_vara
        shape = [(s['numrecs'] if s['dims'][i]['size'] == 0 else s['dims'][i]['size']) for i in v['dimids']]
        ts = TSIZE[v['type']]
        idx = [0]
        for sz in shape:
            idx = [i * sz + j for i in idx for j in range(sz // 2, sz)]
        if unhx(sub[s['vars'].index(v)]) != b''.join(exp[i * ts:(i + 1) * ts] for i in idx):
            return 'vara-data'
    return None


def replay_file(path):
    """./check C04 --replay <replays/C04-*.json>: run the stored file(s) again through the unit harness
    (every chunk size, 1 and 2 ranks), the public API and the Lean model, and print the comparison"""
    obj = json.load(open(path))
    files = []
    r = obj.get('replay')
    if isinstance(r, dict) and r.get('file_hex'):
        files.append((unhx(r['file_hex']), r.get('schema')))
    for dct in (obj.get('detail') if isinstance(obj.get('detail'), list) else []):
        if isinstance(dct, dict) and dct.get('hex'):
            files.append((unhx(dct['hex']), None))
    if not files:
        log('nothing to replay in', path)
        return 2
    tree = build_impl('plain')
    wd = workdir('c04r')
    try:
        ok, out = lake_build(['c04drv'])
        drv = os.path.join(LEAN, '.lake/build/bin/c04drv')
        inc = ['-DHAVE_CONFIG_H', '-DPNC_MALLOC_TRACE', '-I' + os.path.join(tree, 'src/drivers/ncmpio'),
               '-I' + os.path.join(tree, 'src/drivers/include'), '-I' + os.path.join(tree, 'src/include')]
        unit = cc(tree, [os.path.join(VERIF, 'harness/c04_unit.c')], os.path.join(wd, 'c04_unit'), extra=inc)
        api = cc(tree, [os.path.join(VERIF, 'harness/c04_api.c')], os.path.join(wd, 'c04_api'))
        bad = 0
        for k, (data, schema) in enumerate(files[:8]):
            fpath = os.path.join(wd, 'r%d.nc' % k)
            open(fpath, 'wb').write(data)
            lean = lean_batch(drv, ['FILE ' + hx(data)] + ['DEC %d' % ch for ch in CHUNKS] + ['DEC W', 'SPEC'])
            log('file %d: %d bytes; specification decoder: %s' % (k, len(data), lean[-1][:200]))
            for n in (1, 2):
                outs, note = run_harness(unit, n, ['%s %d 0' % (fpath, ch) for ch in CHUNKS], wd, 'ru%d' % n)
                for i, ch in enumerate(CHUNKS):
                    for rnk in range(n):
                        same = outs[rnk][i] == lean[1 + i]
                        bad += 0 if same else 1
                        log('  chunk %-6d ranks %d rank %d: %s' % (ch, n, rnk, 'model = implementation' if same else
                                                                 'DIFFER impl=%s model=%s' % (outs[rnk][i][:300], lean[1 + i][:300])))
            hints = ''
            if isinstance(r, dict) and 'hints=' in str(r.get('how', '')):
                hints = str(r['how']).split('hints=', 1)[1]
                hints = '' if hints == '-' else hints
            outs, note = run_harness(api, 1, [(fpath + ' ' + hints).strip()], wd, 'ra')
            log('  hints: ' + (hints or '(none)'))
            log('  public API: ' + outs[0][0][:400])
            if schema:
                s, _ = parse_schema(schema.split())
                s['unlim'] = next((i for i, d in enumerate(s['dims']) if d['size'] == 0), -1)
                recs = [v for v in s['vars'] if is_rec(s, v)]
                s['has_rec'] = bool(recs)
                s['recsize'] = sum(var_len(s, v) for v in recs) if len(recs) != 1 else nelems(s, recs[0]) * TSIZE[recs[0]['type']]
                s['xsz'] = int(lean_batch(drv, ['ENC ' + schema])[0].split()[1])
                why = api_mismatch(outs[0][0], s, data)
                log('  property oracle (public API): ' + (why or 'read back exactly'))
                bad += 1 if why else 0
        return 1 if bad else 0
    finally:
        cleanup(wd)


if __name__ == '__main__':
    tier, seed, replay = args(sys.argv[1:])
    if replay:
        sys.exit(replay_file(replay))
    sys.exit(run_check(tier, seed))
