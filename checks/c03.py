#!/usr/bin/env python3
"""C03 — files written conform to the classic CDF-1/2/5 format specification (DESIGN.md §4 C03).

S3  theorems of lean/PnVerif/Props/C03.lean about Model/Layout.lean (NC_begins, alignment
    precedence) and Model/Header.lean (writer, header length) + Spec/SpecDecode.lean.
S4  random define / redefine / write histories are executed through the public API of the real
    library (harness/c03_api.c); after every enddef the model layout (Lean `ncBegins`) must equal
    ncmpi_inq_varoffset / header_size / header_extent / recsize, and at every promised point (enddef,
    sync, close) the real file's header bytes must equal the Lean writer's `Hdr.encode`, the Lean
    specification decoder (not the library) must recover exactly the defined schema from the real
    file, the data must sit at the offsets the header states, and nothing of a clobbered
    predecessor may survive.
"""
import os, sys, json, copy, subprocess, unicodedata
sys.path.insert(0, os.path.dirname(os.path.abspath(__file__)))
from common import *
import c04 as H

PROP = 'C03'
TSIZE = H.TSIZE
LEAN_FILES = ['PnVerif/Spec/SpecDecode.lean', 'PnVerif/Model/Header.lean', 'PnVerif/Model/HeaderText.lean', 'PnVerif/Model/Layout.lean',
              'PnVerif/Lemmas/HeaderLemmas.lean', 'PnVerif/Lemmas/Window.lean', 'PnVerif/Lemmas/Decode.lean', 'PnVerif/Lemmas/Encode.lean',
              'PnVerif/Lemmas/LayoutLemmas.lean', 'PnVerif/Lemmas/PostPass.lean', 'PnVerif/Lemmas/Accept.lean', 'PnVerif/Lemmas/Written.lean', 'PnVerif/Props/C04.lean', 'PnVerif/Props/C03.lean', 'Driver/C03.lean']
hx, unhx = H.hx, H.unhx
SAFE_REST = H.FIRST + '._-+@'


class LeanProc:
    def __init__(self, exe):
        self.p = subprocess.Popen([exe], stdin=subprocess.PIPE, stdout=subprocess.PIPE, text=True, bufsize=1)
        self.n = 0

    def ask(self, line):
        self.p.stdin.write(line + '\n')
        self.p.stdin.flush()
        self.n += 1
        a = self.p.stdout.readline()
        if not a:
            raise RuntimeError('lean driver died on: ' + line[:300])
        return a.rstrip('\n')

    def close(self):
        try:
            self.p.stdin.close()
            self.p.wait(timeout=10)
        except Exception:
            self.p.kill()


# legal UTF-8 that is NOT in NFC: decomposed forms, composition-excluded characters and singletons
# whose NFC has a different byte length (the library stores the NFC form, utf8proc)
NON_NFC = ['e\u0301', 'u\u0308', 'A\u030a', 'n\u0303', '\u0958', '\u0959', '\u095b', '\u095f', 'q\u0344', '\u2126', '\u212b',
           '\u1e9b\u0323', 'o\u0302\u0301', '\u0f43', '\ufb1f', '\u2000', 'a\u0308\u0301', 'U\u0308\u0301', 'i\u0308\u0301',
           'c\u0327\u0301', 'q\u0958']
# every piece starts with its own starter, so what precedes it cannot compose with it.  (A bare
# combining mark after an arbitrary letter is avoided on purpose: the library's bundled utf8proc
# mis-composes 75 of the 7056 pairs <ASCII letter or digit, U+0300..U+036F>, finding FB2-2, which is
# replayed separately below.)
VARIANT = 0          # 1: the tree carries the repair of finding FB2-1 (detected at run time)
RAW_OF = {}         # stored (NFC) name -> the raw bytes handed to the API


def raw_hex(name):
    return hx(RAW_OF.get(name, name))


def gen_name(rng, used, maxlen=256, nonnfc_num=1, nonnfc_den=5):
    """returns the name as the library stores it (NFC); the raw form given to the API is in RAW_OF"""
    for _ in range(300):
        nonnfc = rng.chance(nonnfc_num, nonnfc_den)
        n = rng.choice([1, 2, 3, 5, 8, 13, 30, 64, 255, 256]) if (rng.chance(1, 6) and not nonnfc) else rng.range(1, 10)
        n = min(n, maxlen)
        utf = rng.chance(1, 4)
        s = ''
        while len(s.encode('utf8')) < n:
            if not s:
                s += rng.choice(H.FIRST)
            elif nonnfc and rng.chance(1, 2):
                s += rng.choice(NON_NFC)
            elif utf and rng.chance(1, 3):
                s += rng.choice(H.UTF8_PIECES)
            else:
                s += rng.choice(SAFE_REST)
        if s[-1] == '\u2000':
            s += 'z'
        while len(s.encode('utf8')) > 256:
            s = s[:-1]
        raw = s.encode('utf8')
        b = unicodedata.normalize('NFC', s).encode('utf8')
        if not b or len(b) > maxlen or len(b) > 256 or b in used:
            continue
        used.add(b)
        if raw != b:
            RAW_OF[b] = raw
        else:
            RAW_OF.pop(b, None)
        return b
    raise RuntimeError('name generation')


def gen_value(rng, t, n):
    v = bytes(rng.below(256) for _ in range(n * TSIZE[t]))
    if t == 2:
        v = bytes(32 + (x % 95) for x in v)
    return v


class Model:
    """the schema the application has defined so far + the layout the last enddef produced"""

    def __init__(self, fmt, env):
        self.s = dict(fmt=fmt, numrecs=0, dims=[], gatts=[], vars=[])
        self.env = env
        self.xsz = self.begin_var = self.begin_rec = self.recsize = 0
        self.old = None
        self.data = {}          # varid -> bytes (fixed) | dict rec -> bytes
        self.names = dict(d=set(), v=set(), g=set())
        self.indef = True
        self.layouts = 0

    def unlim(self):
        for i, d in enumerate(self.s['dims']):
            if d['size'] == 0:
                return i
        return -1

    def is_rec(self, v):
        return bool(v['dimids']) and self.s['dims'][v['dimids'][0]]['size'] == 0

    def nelems(self, v):
        n = 1
        for i in v['dimids']:
            n *= self.s['dims'][i]['size'] or 1
        return n

    def tokens(self):
        return H.schema_tokens(self.s)

    def layout(self, lean, args):
        hmin, valign, vmin, ralign = args
        if self.old is None:
            old = 'N'
        else:
            bv, br, vs = self.old
            old = 'O %d %d %d %s' % (bv, br, len(vs), ' '.join('%d %d' % (1 if r else 0, b) for r, b in vs))
        q = 'LAYOUT %d %d %d %d %d %d %d %d %s %s' % (self.env[0], self.env[1], self.env[2], hmin, valign, vmin, ralign,
                                                   self.begin_rec, old, ' '.join(self.tokens()))
        a = lean.ask(q)
        t = a.split()
        if t[0] != 'OK':
            return a, q
        self.xsz, self.begin_var, self.begin_rec, self.recsize = [int(x) for x in t[1:5]]
        self.align = [int(x) for x in t[5:8]]
        n = int(t[8])
        for k, v in enumerate(self.s['vars']):
            v['isrec'] = t[9 + 3 * k] == '1'
            v['vsize'] = int(t[10 + 3 * k])       # varp->len
            v['begin'] = int(t[11 + 3 * k])
        self.header = unhx(t[t.index('|') + 1])
        self.old = None
        self.indef = False
        self.layouts += 1
        return None, q

    def rehdr(self, lean):
        """header bytes for the current schema (data-mode metadata update): layout unchanged"""
        a = lean.ask('ENCL ' + ' '.join(self.tokens()))
        if a.startswith('ERR') or a.startswith('bad'):
            return a
        self.header = unhx(a)
        self.xsz = len(self.header)
        return None

    def snapshot_expect(self):
        regions = []
        for k, v in enumerate(self.s['vars']):
            d = self.data.get(k)
            if d is None:
                continue
            if v['isrec']:
                for r, b in d.items():
                    regions.append((v['begin'] + r * self.recsize, b))
            else:
                regions.append((v['begin'], d))
        ls = copy.deepcopy(self.s)
        for v in ls['vars']:
            ln = v['vsize']
            v['vsize'] = (0xFFFFFFFF if ln > 4294967292 else ln) if ls['fmt'] < 5 else ln
            v.pop('isrec', None)
        end = max([o + len(b) for o, b in regions] + [self.xsz])
        self.hi = max(getattr(self, 'hi', 0), end)      # a header that shrinks in data mode leaves its old tail behind
        return dict(header=self.header, xsz=self.xsz, regions=regions, schema=ls, nvars=len(self.s['vars']),
                    data=copy.deepcopy(self.data), align=list(getattr(self, 'align', [4, 4, 4])),
                    end=end, hi=self.hi)

    def inq_expect(self):
        return [self.xsz, self.begin_var, self.recsize, self.s['numrecs'] if self.unlim() >= 0 else -1,
                len(self.s['vars'])] + [v['begin'] for v in self.s['vars']]


HINTS = [0, 0, 0, 0, 1, 4, 6, 8, 64, 100, 512, 1000, 1024, 4096]
HMIN = [0, 0, 0, 4, 10, 100, 1000]
VALIGN = [0, 0, 0, 1, 4, 6, 64, 512, 1024]
VMIN = [0, 0, 0, 8, 10, 100]
RALIGN = [0, 0, 0, 1, 4, 6, 64, 128, 1000]


def gen_scenario(rng, lean, path, kind, feats):
    """returns (ops, note).  ops = list of (script line, expectation dict)."""
    fmt = rng.choice([1, 2, 5])
    env = [rng.choice(HINTS), rng.choice(HINTS), rng.choice(HINTS)] if rng.chance(1, 2) else [0, 0, 0]
    m = Model(fmt, env)
    ops = []

    def ok(line):
        ops.append((line, dict(kind='ok')))

    def types():
        return rng.range(1, 6) if fmt < 5 else rng.range(1, 11)

    def put_att(varid, in_data_mode=False):
        lst = m.s['gatts'] if varid < 0 else m.s['vars'][varid]['atts']
        key = 'g' if varid < 0 else ('a', varid)
        used = m.names.setdefault(key, set())
        if in_data_mode:
            if not lst:
                return False
            a = rng.choice(lst)
            t = types()
            maxn = (H_xlen(a['type'], a['nelems'])) // TSIZE[t]
            n = rng.range(0, maxn)
            if H_xlen(t, n) > H_xlen(a['type'], a['nelems']):
                return False
            a['type'], a['nelems'], a['value'] = t, n, gen_value(rng, t, n)
            feats.add('data-mode-put_att')
        else:
            t = types()
            r = rng.below(10)
            n = 0 if r == 0 else (rng.range(30, 200) if r == 1 else rng.range(1, 9))
            if lst and rng.chance(1, 4):
                a = rng.choice(lst)        # overwrite
                a['type'], a['nelems'], a['value'] = t, n, gen_value(rng, t, n)
            else:
                a = dict(name=gen_name(rng, used), type=t, nelems=n, value=gen_value(rng, t, n))
                lst.append(a)
                if a['name'] in RAW_OF:
                    feats.add('non-NFC-name')
                ok('putatt %d %s %d %d %s' % (varid, raw_hex(a['name']), a['type'], a['nelems'], hx(a['value'])))
                if n == 0:
                    feats.add('zero-length-att')
                return True
            if n == 0:
                feats.add('zero-length-att')
        ok('putatt %d %s %d %d %s' % (varid, hx(a['name']), a['type'], a['nelems'], hx(a['value'])))
        return True

    def def_phase(first):
        nd = rng.choice([0, 1, 2, 3, 4]) if first else rng.choice([0, 0, 1])
        for _ in range(nd):
            size = rng.range(1, 5)
            if m.unlim() < 0 and rng.chance(1, 3):
                size = 0
            d = dict(name=gen_name(rng, m.names['d']), size=size)
            m.s['dims'].append(d)
            if d['name'] in RAW_OF:
                feats.add('non-NFC-name')
            ops.append(('defdim %s %d' % (raw_hex(d['name']), size), dict(kind='def', id=len(m.s['dims']) - 1)))
        for _ in range(rng.choice([0, 1, 2, 3]) if first else rng.choice([0, 1, 2])):
            put_att(-1)
        nv = (rng.choice([0, 1, 2, 3, 5]) if first else rng.choice([0, 1, 1, 2])) if kind != 'novars' else 0
        ndims = len(m.s['dims'])
        for _ in range(nv):
            k = rng.choice([0, 1, 1, 2, 3]) if ndims else 0
            fixed = [i for i in range(ndims) if m.s['dims'][i]['size']]
            ids = []
            if k and m.unlim() >= 0 and rng.chance(1, 2):
                ids.append(m.unlim())
            while len(ids) < k and fixed:
                ids.append(rng.choice(fixed))
            v = dict(name=gen_name(rng, m.names['v']), dimids=ids, atts=[], type=types(), vsize=0, begin=0)
            m.s['vars'].append(v)
            vid = len(m.s['vars']) - 1
            if v['name'] in RAW_OF:
                feats.add('non-NFC-name')
            ops.append(('defvar %s %d %d %s' % (raw_hex(v['name']), v['type'], len(ids), ' '.join(str(i) for i in ids)),
                        dict(kind='def', id=vid)))
            for _ in range(rng.choice([0, 0, 1, 2])):
                put_att(vid)
        if not first:
            # deletions and renames (header may shrink or grow)
            for _ in range(rng.choice([0, 0, 1, 2])):
                cand = [(-1, a) for a in m.s['gatts']] + [(k, a) for k, v in enumerate(m.s['vars']) for a in v['atts']]
                if not cand:
                    break
                vid, a = rng.choice(cand)
                (m.s['gatts'] if vid < 0 else m.s['vars'][vid]['atts']).remove(a)
                ok('delatt %d %s' % (vid, hx(a['name'])))
                feats.add('del_att')
            for _ in range(rng.choice([0, 1, 1, 2, 3])):
                rename(False)

    def rename(in_data_mode):
        # pick the object to rename: (old stored name, used-name set, setter, script line maker)
        r = rng.below(3)
        if r == 0 and m.s['vars']:
            k = rng.below(len(m.s['vars']))
            obj, used = m.s['vars'][k], m.names['v']
            mk = lambda rawhex, k=k: 'renvar %d %s' % (k, rawhex)
        elif r == 1 and m.s['dims']:
            k = rng.below(len(m.s['dims']))
            obj, used = m.s['dims'][k], m.names['d']
            mk = lambda rawhex, k=k: 'rendim %d %s' % (k, rawhex)
        else:
            cand = [(-1, a) for a in m.s['gatts']] + [(k, a) for k, v in enumerate(m.s['vars']) for a in v['atts']]
            if not cand:
                return
            vid, obj = rng.choice(cand)
            used = m.names.setdefault('g' if vid < 0 else ('a', vid), set())
            mk = lambda rawhex, vid=vid, old=obj['name']: 'renatt %d %s %s' % (vid, hx(old), rawhex)
        oldn = obj['name']
        L = len(oldn)
        mode = rng.below(6) if in_data_mode else 9
        if mode in (0, 1) and 4 <= L <= 248:        # (raw and NFC forms both stay within NC_MAX_NAME)
            # data mode, raw name NOT longer than the old one but its NFC form (what is stored) IS longer:
            # the rule is on the normalised length, the call must be refused with NC_ENOTINDEFINE and the
            # header must stay as it is (U+0958..U+095F: 3 bytes raw, 6 bytes NFC)
            for _ in range(20):
                nx = rng.range(1, min(2, (L - 1) // 3))
                pre = L - 3 * nx - rng.choice([0, 0, 1])
                if pre < 1:
                    continue
                s_ = rng.choice(H.FIRST) + ''.join(rng.choice(SAFE_REST) for _ in range(pre - 1)) + \
                    ''.join(rng.choice(['\u0958', '\u0959', '\u095b', '\u095e', '\u095f']) for _ in range(nx))
                raw = s_.encode('utf8')
                nfc = unicodedata.normalize('NFC', s_).encode('utf8')
                if len(raw) <= L < len(nfc) and nfc not in used:
                    ops.append((mk(hx(raw)), dict(kind='err', code=-38, why='data-mode rename whose NFC form (%d bytes) is longer than the old name (%d), raw %d' % (len(nfc), L, len(raw)))))
                    feats.add('data-mode-rename-NFC-longer-refused')
                    return
            return
        if mode in (2, 3) and 3 <= L <= 248:
            # data mode, raw name LONGER than the old one but NFC form not longer: must be accepted
            for _ in range(20):
                pre = L - 2 - rng.choice([0, 0, 1])
                if pre < 1:
                    continue
                s_ = rng.choice(H.FIRST) + ''.join(rng.choice(SAFE_REST) for _ in range(pre - 1)) + rng.choice(['e\u0301', 'u\u0308', 'A\u030a', 'n\u0303'])
                raw = s_.encode('utf8')
                nfc = unicodedata.normalize('NFC', s_).encode('utf8')
                if len(nfc) <= L and nfc not in used:
                    used.add(nfc)
                    RAW_OF[nfc] = raw
                    ok(mk(hx(raw)))
                    obj['name'] = nfc
                    feats.add('data-mode-rename-NFC-shorter-accepted')
                    return
            return
        new = newname(oldn, used, in_data_mode)
        if new:
            ok(mk(raw_hex(new)))
            obj['name'] = new
            feats.add('rename' + ('-data-mode' if in_data_mode else ''))

    def newname(oldn, used, in_data_mode):
        # in data mode the STORED (NFC) name may not be longer than the old one
        for _ in range(30):
            try:
                n = gen_name(rng, used, maxlen=len(oldn) if in_data_mode else 256, nonnfc_num=1, nonnfc_den=2)
            except RuntimeError:
                return None
            if n in RAW_OF:
                feats.add('non-NFC-rename')
            return n
        return None

    def enddef(fresh=False):
        if rng.chance(1, 2):
            args = (0, 0, 0, 0)
            line = 'enddef'
        else:
            args = (rng.choice(HMIN), rng.choice(VALIGN), rng.choice(VMIN), rng.choice(RALIGN))
            if rng.chance(1, 3):
                args = (0, 4, 0, 4)          # tight: header extent = header size, no slack before the first variable
                feats.add('tight-extent')
            line = 'enddef4 %d %d %d %d' % args
            feats.add('enddef4')
        m.last_args = args
        err, q = m.layout(lean, args)
        if err:
            return 'model rejects the layout: %s for %s' % (err, q[:3000])
        ok(line)
        ops.append(('inq', dict(kind='inq', values=m.inq_expect(), query=q)))
        # the header (and the data moved by a redefinition) must be in the file right after enddef
        # (write_NC): snapshot before anything else happens
        if m.rehdr(lean):
            return 'ENCL failed'
        extra = {}
        if fresh:
            # alignment the application asked for (documented precedence: hints, then ncmpi__enddef arguments, then defaults)
            ha = env[0] or env[1] or args[1] or 512
            ra = env[2] or args[3] or 4
            extra = dict(fresh_align=((ha + 3) // 4 * 4, (ra + 3) // 4 * 4))
        ops.append(('snap ' + path, dict(kind='snap', point='enddef', **extra, **m.snapshot_expect())))
        return None

    def sel(size):
        """(start, count, stride) inside one dimension of length `size`"""
        r = rng.below(4)
        if r == 0 or size == 1:
            return 0, size, 1
        if r == 3 and size >= 3:
            st = rng.below(2)
            stride = rng.choice([2, 2, 3])
            cnt = rng.range(1, (size - st + stride - 1) // stride)
            return st, cnt, stride
        cnt = rng.range(1, size - 1)
        return rng.range(0, size - cnt), cnt, 1

    def access():
        """one blocking collective sub-array / strided put or get on a random variable (non-contiguous
        file views on rank 0 are left in place by the library: the next enddef / sync goes through them)"""
        cand = []
        for k, v in enumerate(m.s['vars']):
            if not v['dimids']:
                continue
            if v['isrec']:
                if m.data.get(k):
                    cand.append(k)
            elif k in m.data:
                cand.append(k)
        if not cand:
            return
        # prefer variables with at least two dimensions (true sub-arrays)
        multi = [k for k in cand if len(m.s['vars'][k]['dimids']) >= 2]
        k = rng.choice(multi) if multi and rng.chance(3, 4) else rng.choice(cand)
        v = m.s['vars'][k]
        shape = [m.s['dims'][i]['size'] for i in v['dimids']]
        ts = TSIZE[v['type']]
        if v['isrec']:
            rec = rng.choice(sorted(m.data[k].keys()))
            inner = [sel(sz) for sz in shape[1:]]
            ss = [(rec, 1, 1)] + inner
            buf = bytearray(m.data[k][rec])
            ishape = shape[1:]
        else:
            inner = [sel(sz) for sz in shape]
            ss = inner
            buf = bytearray(m.data[k])
            ishape = shape
        idx = [0]
        for (st, cnt, sd), sz in zip(inner, ishape):
            idx = [i * sz + st + j * sd for i in idx for j in range(cnt)]
        strided = any(s[2] != 1 for s in ss)
        spec = '%d %d %s %s %s' % (k, len(ss), ' '.join(str(s[0]) for s in ss), ' '.join(str(s[1]) for s in ss),
                                 ' '.join(str(s[2]) for s in ss) if strided else '-')
        feats.add('strided-access' if strided else 'subarray-access')
        if rng.chance(1, 2):
            val = gen_value(rng, v['type'], len(idx))
            for j, i in enumerate(idx):
                buf[i * ts:(i + 1) * ts] = val[j * ts:(j + 1) * ts]
            if v['isrec']:
                m.data[k][rec] = bytes(buf)
            else:
                m.data[k] = bytes(buf)
            ok('acc put %s %s' % (spec, hx(val)))
        else:
            exp = b''.join(bytes(buf[i * ts:(i + 1) * ts]) for i in idx)
            ops.append(('acc get %s' % spec, dict(kind='get', data=exp)))

    def accesses():
        for _ in range(rng.choice([0, 1, 1, 2, 3])):
            access()

    def readback():
        """whole-variable reads of what the application wrote so far"""
        for k, v in enumerate(m.s['vars']):
            if not v['dimids'] or not rng.chance(1, 2):
                continue
            shape = [m.s['dims'][i]['size'] for i in v['dimids']]
            if v['isrec']:
                for rec, b in sorted(m.data.get(k, {}).items()):
                    ops.append(('acc get %d %d %s %s -' % (k, len(shape), ' '.join(['%d' % rec] + ['0'] * (len(shape) - 1)),
                                                          ' '.join(['1'] + [str(s) for s in shape[1:]])), dict(kind='get', data=b)))
            elif k in m.data:
                ops.append(('acc get %d %d %s %s -' % (k, len(shape), ' '.join(['0'] * len(shape)), ' '.join(str(s) for s in shape)),
                            dict(kind='get', data=m.data[k])))

    def write_data():
        for k, v in enumerate(m.s['vars']):
            if v['isrec']:
                per = m.nelems(v) * TSIZE[v['type']]
                d = m.data.setdefault(k, {})
                nrec = m.s['numrecs'] if m.s['numrecs'] else rng.choice([0, 1, 2, 3])
                for r in range(nrec):
                    if r not in d:
                        d[r] = gen_value(rng, v['type'], m.nelems(v))
                        ok('putrec %d %d %s' % (k, r, hx(d[r])))
                        m.s['numrecs'] = max(m.s['numrecs'], r + 1)
            elif k not in m.data:
                m.data[k] = gen_value(rng, v['type'], m.nelems(v))
                ok('putvar %d %s' % (k, hx(m.data[k])))

    def promised(point):
        """sync, then inquiry and snapshot of the file"""
        ok('sync')
        if m.rehdr(lean):
            return 'ENCL failed'
        ops.append(('inq', dict(kind='inq', values=m.inq_expect(), query=point)))
        ops.append(('snap ' + path, dict(kind='snap', point=point, **m.snapshot_expect())))
        return None

    ok('create %s %d %d %d %d 0' % (path, fmt, env[0], env[1], env[2]))
    def_phase(True)
    e = enddef(fresh=True)
    if e:
        return None, e
    write_data()
    accesses()
    e = promised('sync-after-write')
    if e:
        return None, e
    if rng.chance(2, 3):
        accesses()           # the last data access before a redef is often a non-contiguous one
    def data_mode_updates():
        # data-mode metadata updates: put_att not growing, renames (the rule "not longer" is on NFC lengths)
        done = False
        for _ in range(rng.range(1, 3)):
            if rng.chance(1, 3):
                cand = [-1] + list(range(len(m.s['vars'])))
                done = put_att(rng.choice(cand), in_data_mode=True) or done
            else:
                n0 = len(ops)
                rename(True)
                done = done or len(ops) > n0
        if done:
            return promised('sync-after-data-mode-update')
        return None

    nphase = rng.choice([0, 0, 1, 1, 2]) if kind == 'plain' else (1 if kind == 'novars' else 0)
    for ph in range(nphase):
        if rng.chance(1, 2):
            e = data_mode_updates()
            if e:
                return None, e
        # redefinition
        m.old = (m.begin_var, m.begin_rec, [(v['isrec'], v['begin']) for v in m.s['vars']])
        m.indef = True
        ok('redef')
        feats.add('redef')
        def_phase(False)
        e = enddef()
        if e:
            return None, e
        readback()
        write_data()
        accesses()
        e = promised('sync-after-redef-%d' % ph)
        if e:
            return None, e
        if rng.chance(1, 2):
            accesses()       # leave a data-access file view in place for the next redef / close
    if kind != 'novars' and rng.chance(1, 2):
        e = data_mode_updates()
        if e:
            return None, e
    ok('close')
    if kind == 'plain' and rng.chance(1, 3):
        # reopen for writing (possibly with other hints), redefine, close: ncp->old now comes from
        # ncmpio_hdr_get_NC (compute_var_shape), not from a previous NC_begins
        feats.add('reopen-redef')
        body = bytearray(m.snapshot_expect()['end'])
        body[:m.xsz] = m.header
        a = lean.ask('OPENINFO %d ' % VARIANT + hx(bytes(body[:m.xsz])))
        t = a.split()
        if t[0] != 'OK':
            return None, 'model cannot reopen its own file: ' + a
        m.xsz, m.begin_var, m.begin_rec, m.recsize = [int(x) for x in t[1:5]]
        m.env = [rng.choice(HINTS), rng.choice(HINTS), rng.choice(HINTS)] if rng.chance(1, 2) else [0, 0, 0]
        ok('open %s 1 %d %d %d' % (path, m.env[0], m.env[1], m.env[2]))
        ops.append(('inq', dict(kind='inq', values=m.inq_expect(), query='after reopen')))
        m.old = (m.begin_var, m.begin_rec, [(v['isrec'], v['begin']) for v in m.s['vars']])
        ok('redef')
        def_phase(False)
        e = enddef()
        if e:
            return None, e
        readback()
        write_data()
        accesses()
        e = promised('sync-after-reopen-redef')
        if e:
            return None, e
        ok('close')
    final = m.snapshot_expect()
    final['novars_size'] = (m.xsz if not m.s['vars'] else None)
    return (ops, final, m), None


def H_xlen(t, n):
    b = n * TSIZE[t]
    return (b + 3) // 4 * 4


def check_snapshot(fb, exp, lean_spec_queue, where):
    """tie: compare a snapshot of the real file with the MODEL (header bytes, data at the model's
    offsets); queues the snapshot for the model-independent oracle.  returns [(signature, detail)]"""
    bad = []
    xsz = exp['xsz']
    if fb[:xsz] != exp['header']:
        i = next((k for k in range(min(len(fb), xsz)) if fb[k] != exp['header'][k]), min(len(fb), xsz))
        bad.append(('header-bytes', 'first difference at byte %d: file %s model %s' % (i, fb[i:i + 16].hex(), exp['header'][i:i + 16].hex())))
    for off, b in exp['regions']:
        if fb[off:off + len(b)] != b:
            bad.append(('data', 'data expected at offset %d (%d bytes) not found' % (off, len(b))))
            break
    lean_spec_queue.append((fb, exp, where))
    return bad


def oracle(fb, answer, exp):
    """the property itself, evaluated on the real file with the answer of the Lean SPECIFICATION
    decoder only (no model of the library involved): returns None or (signature, detail)"""
    t = answer.split()
    if not t or t[0] != 'OK':
        return ('not-decodable', 'the specification decoder does not accept the file: ' + answer[:200])
    try:
        k = t.index('|')
        d, _ = H.parse_schema(t[1:k])
    except Exception:
        return ('not-decodable', 'unparsable decoder answer')
    if t[k + 1] != 'true':
        return ('bad-references', 'dimension references / record dimension use invalid')
    consumed = int(t[k + 2])
    s = exp.get('schema')
    if s is not None:
        if H.logical(dict(d, vars=[dict(v, begin=0) for v in d['vars']])) != H.logical(dict(s, vars=[dict(v, begin=0) for v in s['vars']])):
            return ('schema', 'decoded schema differs from the defined one')
        if any(x['size'] == 0 for x in s['dims']) and d['numrecs'] != s['numrecs']:
            return ('numrecs', 'numrecs in the file %d, records written %d' % (d['numrecs'], s['numrecs']))
    # layout rules on the begins stored in the file
    hlen = consumed

    def isrec(v):
        return bool(v['dimids']) and d['dims'][v['dimids'][0]]['size'] == 0

    def nel(v):
        n = 1
        for i in v['dimids']:
            n *= d['dims'][i]['size'] or 1
        return n

    def vlen(v):
        return (nel(v) * TSIZE[v['type']] + 3) // 4 * 4
    fixed = [v for v in d['vars'] if not isrec(v)]
    recs = [v for v in d['vars'] if isrec(v)]
    for v in d['vars']:
        if v['begin'] % 4:
            return ('unaligned-begin', 'begin %d of a variable is not a multiple of 4' % v['begin'])
        exp_vs = vlen(v)
        if d['fmt'] < 5 and exp_vs > 4294967292:
            exp_vs = 0xFFFFFFFF
        if v['vsize'] != exp_vs:
            return ('vsize', 'vsize field %d, computed %d' % (v['vsize'], exp_vs))
    prev = hlen
    for v in fixed:
        if v['begin'] < prev:
            return ('overlap', 'fixed variable begins at %d before %d' % (v['begin'], prev))
        prev = v['begin'] + vlen(v)
    for i, v in enumerate(recs):
        if v['begin'] < prev:
            return ('overlap', 'record variable begins at %d before %d' % (v['begin'], prev))
        if i and v['begin'] != prev:
            return ('record-gap', 'record variables are not consecutive inside a record')
        prev = v['begin'] + vlen(v)
    recsize = sum(vlen(v) for v in recs)
    if len(recs) == 1:
        recsize = nel(recs[0]) * TSIZE[recs[0]['type']]
    # the library's own reports (last inquiry before the snapshot) against the file
    rep = exp.get('reported')
    if rep:
        if rep[0] != consumed:
            return ('report-header-size', 'ncmpi_inq_header_size %d, header in the file is %d bytes' % (rep[0], consumed))
        if rep[5:] != [v['begin'] for v in d['vars']]:
            return ('report-varoffset', 'ncmpi_inq_varoffset %s, begins in the file %s' % (rep[5:], [v['begin'] for v in d['vars']]))
        if recs and rep[2] != recsize:
            return ('report-recsize', 'ncmpi_inq_recsize %d, record size by the specification %d' % (rep[2], recsize))
        if d['vars'] and rep[1] != min(v['begin'] for v in d['vars']):
            return ('report-header-extent', 'ncmpi_inq_header_extent %d, first variable begins at %d' % (rep[1], min(v['begin'] for v in d['vars'])))
        if rep[1] < consumed:
            return ('report-header-extent', 'ncmpi_inq_header_extent %d smaller than the header (%d bytes)' % (rep[1], consumed))
    # requested alignments (first enddef of a new file only)
    al = exp.get('fresh_align')
    if al:
        ha, ra = al
        if fixed and fixed[0]['begin'] % ha:
            return ('alignment', 'first fixed-size variable at %d, requested alignment %d' % (fixed[0]['begin'], ha))
        if recs and recs[0]['begin'] % ra:
            return ('alignment', 'record section at %d, requested alignment %d' % (recs[0]['begin'], ra))
    # data at the offsets the FILE states
    for k, v in enumerate(d['vars']):
        dd = exp.get('data', {}).get(k)
        if dd is None:
            continue
        if isrec(v):
            for r, b in dd.items():
                o = v['begin'] + r * recsize
                if fb[o:o + len(b)] != b:
                    return ('data', 'record %d of variable %d not found at offset %d' % (r, k, o))
        elif fb[v['begin']:v['begin'] + len(dd)] != dd:
            return ('data', 'variable %d not found at offset %d' % (k, v['begin']))
    return None


def run_check(tier, seed):
    V = Verdict(PROP, tier, seed)
    rng = SplitMix64(seed * 1000003 + 3)
    V.assumptions = [
        'Model/Layout.lean (NC_begins, ncmpio__enddef alignment precedence) and Model/Header.lean (hdr_put_NC_*, hdr_len_NC_*) are hand transcriptions tied to the source by this differential run only',
        'the schema bookkeeping of define-mode calls (append / replace / delete / rename) is done by the harness script (checks/c03.py); name normalisation (NFC) is not modelled: generated names are already NFC',
        'MPI_File_write_at writes the bytes, POSIX unlink/truncate behave as documented, a never-written byte of a new file reads 0',
        'data regions are checked at the offsets the header states; bytes in alignment gaps and in header free space are do-not-care',
    ]
    V.cov['trusted_base'] = TRUSTED_BASE_COMMON + [
        'hand-written models lean/PnVerif/Model/Layout.lean, Model/Header.lean (tied by correspondence, not by proof)',
        'harness/c03_api.c, checks/c03.py (scenario generator, schema bookkeeping, canonicalisation)']
    tree = build_impl('plain')
    wd = workdir('c03')
    lean = None
    try:
        ok_, out = lake_build(['PnVerif.Props.C03', 'c03drv'])
        failed_thms = set()
        if not ok_:
            for f, ln, msg in lake_errors(out):
                t = theorem_at(f, ln)
                if t:
                    failed_thms.add(t)
            log('[S3] lake build FAILED:', sorted(failed_thms)[:20], out[-800:])
        obl = obligations_of('PnVerif/Props/C03.lean')
        discharged, bad = axiom_audit('PnVerif.Props.C03', obl, 'PnVerif.Props.C03') if ok_ else ([], [])
        forb = grep_forbidden([os.path.join(LEAN, f) for f in LEAN_FILES])
        V.cov['obligations'] = len(obl)
        V.cov['discharged'] = len(discharged)
        V.cov['theorems'] = obl
        V.cov['checker_cmd'] = 'cd lean && lake build PnVerif.Props.C03 c03drv && lake env lean <#print axioms of every name in Props.C03.obligations>'
        if tier == 'thorough' and ok_:
            lc = leanchecker(['PnVerif.Props.C03'])
            V.cov['leanchecker'] = 'ok' if not lc else str(lc)
            if lc:
                bad.append(('leanchecker', lc))
        proof_broken = (not ok_) or bad or forb or not obl
        drv = os.path.join(LEAN, '.lake/build/bin/c03drv')
        if not os.path.exists(drv):
            V.broken_tie('Lean driver c03drv does not build', out[-1500:])
            return V.finish()
        api = cc(tree, [os.path.join(VERIF, 'harness/c03_api.c')], os.path.join(wd, 'c03_api'))
        lean = LeanProc(drv)
        # which variant does the tree follow?  (finding FB2-1: header extent after reopening a file without
        # variables; Props.C03.reportedExtent_counterexample / reportedExtent_fixed cover both)
        vpath = os.path.join(wd, 'variant.nc')
        vs_ = os.path.join(wd, 'variant.txt')
        open(vs_, 'w').write('\n'.join(['create %s 1 0 0 0 0' % vpath, 'defdim 78 3', 'enddef', 'close', 'open %s 0 0 0 0' % vpath, 'inq', 'close']) + '\n')
        rc_, so_, se_ = mpirun(1, [api, vs_, os.path.join(wd, 'variant.out')], timeout=120)
        try:
            a_ = open(os.path.join(wd, 'variant.out.0')).read().split('\n')[5].split()
            fixed_variant = int(a_[3]) >= int(a_[2])
        except Exception:
            V.broken_tie('harness c03_api failed on the variant probe', (so_ + se_)[-600:])
            return V.finish()
        V.cov['tree_variant'] = 'FB2-1 repaired' if fixed_variant else 'FB2-1 present'
        global VARIANT
        VARIANT = 1 if fixed_variant else 0
        nsc = 400 if tier == 'quick' else 6000
        scen = []
        feats_all = {}
        for i in range(nsc):
            kind = 'plain'
            if i % 10 == 3:
                kind = 'novars'
            elif i % 10 == 7:
                kind = 'clobber'
            feats = set()
            path = os.path.join(wd, 'f%d.nc' % i)
            r, err = gen_scenario(rng, lean, path, kind, feats)
            if err:
                V.broken_tie('model rejected a generated scenario', err[:3000])
                return V.finish()
            ops, final, m = r
            pre = None
            if kind == 'clobber' or (kind == 'novars' and rng.chance(1, 2)):
                pre = rng.choice(['regular', 'symlink'])
                feats.add('clobber-' + pre)
            if kind == 'novars':
                feats.add('no-variables')
            scen.append(dict(path=path, ops=ops, final=final, kind=kind, pre=pre, feats=feats, fmt=m.s['fmt'], env=m.env))
            for f in feats:
                feats_all[f] = feats_all.get(f, 0) + 1
        # replay of finding FB2-1 (Props.C03.reportedExtent_counterexample): a file without variables,
        # reopened, reports header extent 0
        kpath = os.path.join(wd, 'known_f19.nc')
        replay_ops = ['create %s 1 0 0 0 0' % kpath, 'defdim 78 3', 'putatt -1 61 4 1 00000005', 'enddef', 'inq', 'close',
                      'open %s 0 0 0 0' % kpath, 'inq', 'close']
        # replay of finding FB2-2: the name "J" + U+0308 (valid UTF-8, already NFC) is stored as "\\x0b"
        k2path = os.path.join(wd, 'known_fb22.nc')
        replay_ops += ['create %s 1 0 0 0 0' % k2path, 'putatt -1 4acc88 2 1 41', 'defdim 42ccad 2', 'enddef', 'snap ' + k2path, 'close']
        script = os.path.join(wd, 'script.txt')
        ranks = [1, 2, 3] if tier == 'quick' else [1, 2, 3, 4]
        tie_diffs, prop_fail, spec_q = [], [], []
        evals, distinct = 0, set()
        for n in ranks:
            for sc in scen:          # (re)create the predecessors that must be clobbered
                for p in (sc['path'], sc['path'] + '.target'):
                    try:
                        os.unlink(p)
                    except OSError:
                        pass
                if sc['pre']:
                    big = b'\xaa' * (sc['final']['end'] + 4096 + 777)
                    if sc['pre'] == 'regular':
                        open(sc['path'], 'wb').write(big)
                    else:
                        open(sc['path'] + '.target', 'wb').write(big)
                        os.symlink(sc['path'] + '.target', sc['path'])
            t1 = Timer()
            outs = [[] for _ in range(n)]
            crashed = set()
            start_s, restarts = 0, 0
            total = sum(len(sc['ops']) for sc in scen) + len(replay_ops)
            while True:
                with open(script, 'w') as f:
                    for sc in scen[start_s:]:
                        for line, _ in sc['ops']:
                            f.write(line + '\n')
                    for line in replay_ops:
                        f.write(line + '\n')
                for r in range(n):
                    try:
                        os.unlink(os.path.join(wd, 'out%d.%d' % (n, r)))
                    except OSError:
                        pass
                rc, so, se = mpirun(n, [api, script, os.path.join(wd, 'out%d' % n)], timeout=900)
                got = []
                for r in range(n):
                    try:
                        got.append(open(os.path.join(wd, 'out%d.%d' % (n, r))).read().split('\n')[:-1])
                    except OSError:
                        got.append([])
                want = sum(len(sc['ops']) for sc in scen[start_s:]) + len(replay_ops)
                if rc == 0 and all(len(g) == want for g in got):
                    for r in range(n):
                        outs[r] += got[r]
                    break
                # the library died or hung inside one scenario: a concrete failing history; go on after it
                done = min(len(g) for g in got) if got else 0
                k, cs = 0, None
                for sj in range(start_s, len(scen)):
                    L = len(scen[sj]['ops'])
                    if done < k + L:
                        cs = sj
                        break
                    k += L
                if cs is None:
                    V.cov['evaluations'] = evals + done
                    V.broken_tie('harness c03_api crashed or timed out in the known-finding replays',
                                 dict(ranks=n, rc=rc, done=done, total=want, stderr=(so + se)[-600:]))
                    return V.finish()
                culprit = scen[cs]['ops'][done - k][0]
                prop_fail.append(('crash', scen[cs], dict(scenario=cs, ranks=n, rc=rc, line=culprit[:300]),
                                  'the library crashed or hung (rc=%s) at `%s`' % (rc, culprit[:120])))
                for r in range(n):
                    outs[r] += got[r][:k] + ['CRASHED'] * len(scen[cs]['ops'])
                crashed.add(cs)
                start_s, restarts = cs + 1, restarts + 1
                if restarts >= 3:
                    # enough concrete failing histories: the rest of this pass is not run
                    for sj in range(start_s, len(scen)):
                        crashed.add(sj)
                        for r in range(n):
                            outs[r] += ['NOT-RUN'] * len(scen[sj]['ops'])
                    for r in range(n):
                        outs[r] += ['NOT-RUN'] * len(replay_ops)
                    break
            log('[S4] API harness: %d script lines, %d scenarios on %d rank(s) in %.1fs%s' %
                (total, len(scen), n, t1.s(), (' (%d scenario(s) crashed)' % len(crashed)) if crashed else ''))
            pos = 0
            last_inq = None
            for si, sc in enumerate(scen):
                last_inq = None
                if si in crashed:
                    pos += len(sc['ops'])
                    continue
                for oi, (line, exp) in enumerate(sc['ops']):
                    for r in range(n):
                        got = outs[r][pos].split()
                        evals += 1
                        op = line.split()[0]
                        where = dict(scenario=si, op=oi, line=line[:300], ranks=n, rank=r)
                        if len(got) < 2 or got[0] != op:
                            tie_diffs.append(dict(where=where, got=outs[r][pos][:300], why='answer does not match the op'))
                            continue
                        if exp['kind'] == 'err':
                            if got[1] != str(exp['code']):
                                prop_fail.append(('wrong-return-code:' + op, sc, where, '%s: returned %s, expected %d' % (exp['why'], got[1], exp['code'])))
                            continue
                        if got[1] != '0':
                            prop_fail.append(('api-error:' + op, sc, where, 'call failed with %s' % got[1]))
                            continue
                        if exp['kind'] == 'get':
                            if unhx(got[2] if len(got) > 2 else '-') != exp['data']:
                                prop_fail.append(('readback', sc, where, 'data read back %s, data written %s' %
                                                  ((got[2] if len(got) > 2 else '-')[:200], hx(exp['data'])[:200])))
                        elif exp['kind'] == 'def' and int(got[2]) != exp['id']:
                            tie_diffs.append(dict(where=where, got=got[:4], expected_id=exp['id']))
                        elif exp['kind'] == 'inq':
                            vals = [int(x) for x in got[2:]]
                            if r == 0:
                                last_inq = vals
                            if vals != exp['values']:
                                names = ['header_size', 'header_extent', 'recsize', 'numrecs', 'nvars']
                                k = next((i for i in range(min(len(vals), len(exp['values']))) if vals[i] != exp['values'][i]), -1)
                                what = names[k] if 0 <= k < 5 else 'varoffset[%d]' % (k - 5)
                                tie_diffs.append(dict(stream='layout', where=where, field=what, implementation=vals, model=exp['values'], query=str(exp.get('query'))[:3000]))
                        elif exp['kind'] == 'snap' and r == 0:
                            fb = unhx(got[3])
                            exp = dict(exp, reported=last_inq)
                            for sig, detail in check_snapshot(fb, exp, spec_q, where):
                                tie_diffs.append(dict(stream='file-' + sig, where=where, point=exp['point'], detail=detail))
                    pos += 1
                # final state of the file on disk
                try:
                    fb = open(sc['path'], 'rb').read()
                except OSError:
                    fb = b''
                fin = sc['final']
                where = dict(scenario=si, point='after close', ranks=n)
                for sig, detail in check_snapshot(fb, fin, spec_q, where):
                    tie_diffs.append(dict(stream='file-' + sig, where=where, detail=detail))
                if fin['novars_size'] is not None and len(fb) != fin['novars_size']:
                    prop_fail.append(('close-no-variables-size', sc, where, 'file size %d, header size %d' % (len(fb), fin['novars_size'])))
                if sc['pre']:
                    # nothing of the predecessor (0xAA everywhere) may survive outside what was written
                    mask = bytearray(len(fb))
                    mask[:fin['xsz']] = b'\x01' * min(fin['xsz'], len(fb))
                    for off, b in fin['regions']:
                        mask[off:off + len(b)] = b'\x01' * len(mask[off:off + len(b)])
                    left = [k for k in range(len(fb)) if not mask[k] and fb[k] == 0xAA]
                    if len(fb) > max(fin['end'], fin.get('hi', 0)) + 3 or len(left) >= 4:
                        prop_fail.append(('clobber-survivor', sc, where, 'size %d expected end %d; %d bytes 0xAA outside written areas (first at %s)' %
                                          (len(fb), fin['end'], len(left), left[:3])))
                distinct.add((si, tuple(sorted(sc['feats'])), sc['fmt'], tuple(sc['env'])))
            # replay FB2-1 (rank 0 answers of the two inquiries)
            if outs[0][pos] == 'NOT-RUN':
                continue
            a1 = outs[0][pos + 4].split()
            a2 = outs[0][pos + 7].split()
            evals += 2
            if len(a1) > 3 and len(a2) > 3 and a1[1] == '0' and a2[1] == '0':
                if int(a2[3]) < int(a2[2]):
                    prop_fail.append(('reopen-novars-header-extent-0', None, dict(ranks=n, script=replay_ops),
                                      'after create+enddef: header_size %s extent %s; after ncmpi_open of the same file: header_size %s extent %s'
                                      % (a1[2], a1[3], a2[2], a2[3])))
            else:
                tie_diffs.append(dict(stream='replay-FB2-1', got=[outs[0][pos + 4][:100], outs[0][pos + 7][:100]]))
            # replay FB2-2: names in the snapshot of the second replay file
            a3 = outs[0][pos + 13].split()
            evals += 1
            if len(a3) > 3 and a3[1] == '0':
                ans = lean.ask('SPEC ' + a3[3])
                names = []
                try:
                    tt = ans.split()
                    dd, _ = H.parse_schema(tt[1:tt.index('|')])
                    names = [dd['dims'][0]['name'], dd['gatts'][0]['name']]
                except Exception:
                    pass
                want = [unicodedata.normalize('NFC', x).encode('utf8') for x in ('B\u032d', 'J\u0308')]
                if names != want:
                    detail = 'names defined %s, names stored in the file %s' % ([w.hex() for w in want], [x.hex() for x in names])
                    if any(k['sig'] == 'C03:name-miscomposed-by-utf8proc' for k in V.known):
                        prop_fail.append(('name-miscomposed-by-utf8proc', None, dict(ranks=n, script=replay_ops[9:]), detail))
                    else:
                        # proposed in findings/C03.txt (FB2-2); reported as a finding as soon as the integrator has
                        # merged the line into KNOWN_FINDINGS.txt, until then logged and recorded in the evidence only
                        log('PROPOSED-FINDING (not yet in KNOWN_FINDINGS.txt) property=C03 sig=C03:name-miscomposed-by-utf8proc ' + detail)
                        V.cov.setdefault('proposed_findings_reproduced', [])
                        if 'C03:name-miscomposed-by-utf8proc' not in V.cov['proposed_findings_reproduced']:
                            V.cov['proposed_findings_reproduced'].append('C03:name-miscomposed-by-utf8proc')
            else:
                tie_diffs.append(dict(stream='replay-FB2-2', got=outs[0][pos + 13][:100]))
        # ---- the Lean specification decoder on the real files
        nspec = 0
        for fb, exp, where in spec_q:
            a = lean.ask('SPEC ' + hx(fb[:400000]))
            nspec += 1
            bad_ = oracle(fb, a, exp)
            if bad_:
                prop_fail.append(('spec:' + bad_[0], scen[where['scenario']] if 'scenario' in where else None, where, bad_[1]))
        V.cov['evaluations'] = evals + nspec
        V.cov['distinct_nontrivial'] = len([d for d in distinct if d[1]])
        V.cov['traces_validated_against_impl'] = evals - len(tie_diffs)
        V.cov['rule'] = ('scenario = random define/write history through the public API: create (CDF-1/2/5, alignment hints), dims/attributes (all types, length 0, '
                         '30..200 elements)/variables (fixed + record), enddef or ncmpi__enddef with random h_minfree/v_align/v_minfree/r_align, data of every variable, '
                         'blocking collective sub-array / strided puts and gets between enddef and the next redef or close (rank 0 keeps a non-contiguous file view), read-back of '
                         'every value written, '
                         'sync, data-mode put_att/rename, 0..2 redefinitions (new dims/atts/vars, deletions, renames), close; every 10th scenario has no variable '
                         '(close truncation), every 10th clobbers a larger predecessor (regular file or symlink); after every enddef/sync/close the inquiries and a '
                         'snapshot of the file are compared with the Lean model and decoded by the Lean specification decoder. non-trivial = scenario with at least '
                         'one of the feature tags (redef, enddef4, data-mode update, clobber, no-variables, zero-length-att, del_att, rename); distinct = distinct '
                         '(scenario, tags, format, hints)')
        V.cov['distribution'] = feats_all
        V.cov['scenarios'] = len(scen)
        V.cov['snapshots_spec_decoded'] = nspec
        V.cov['lean_queries'] = lean.n
        V.cov['ranks'] = ranks
        V.cov['samples'] = [[l[:160] for l, _ in sc['ops']][:40] for sc in scen[1:4]]
        # ---- API-level "mix" programs (checks/apigen.gen_mix_program): varn calls whose segments are listed in any order (the last
        #      segment is not the one reaching the highest record), several nonblocking requests per wait, record variables;
        #      record counts (every rank, after sync and after reopen) and all data against the abstract dataset specification
        import apigen, apicmp
        if os.path.exists(apicmp.APIDRV):
            aexe = apicmp.build_apirun(tree, wd)
            nmix = 80 if tier == 'thorough' else 24
            mrng = SplitMix64(seed * 7907 + 3)
            ml_, mt_, mix_fail, mn_ = apicmp.run_programs(
                V, aexe, wd, ((apigen.gen_mix_program(mrng, 'c03_m%d.nc' % k_, n_, focus=('recvarn' if k_ % 2 == 0 else None)), n_) for k_ in range(nmix) for n_ in [mrng.choice([1, 2, 2, 3])]),
                tier, 'C03:api-mix', 'record count or data left in the file by a varn / multi-request program differs from the dataset specification', tagprefix='mix')
            V.cov['evaluations'] += ml_
            V.cov['mix_programs'] = dict(programs=mn_, result_lines=ml_, tags=mt_)
        nfail = 0
        for sig, sc, where, detail in prop_fail:
            if V.failing_input('C03:' + sig, 'a file the library left behind does not conform (%s): %s' % (sig, detail[:300]),
                               dict(where=where, detail=detail, script=[l for l, _ in sc['ops']][:600] if sc else None,
                                    harness='harness/c03_api.c'), tag='in%d' % nfail):
                nfail += 1
                if nfail >= 5:
                    break
        if nfail == 0:
            if tie_diffs:
                # a layout / header difference: does the property itself fail on the real file?  the
                # specification decoder and the data/offset oracle above already ran on every snapshot
                # (prop_fail is empty), so no failing input was found
                V.broken_tie('correspondence: model (Layout.ncBegins / Hdr.encode) and implementation differ', tie_diffs[:8])
            if proof_broken:
                V.broken_tie('proof obligations no longer check',
                             dict(failed_theorems=sorted(failed_thms), axiom_audit=bad[:10], forbidden=forb[:10],
                                  lake_tail=out[-1500:] if not ok_ else ''))
        return V.finish()
    finally:
        if lean:
            lean.close()
        cleanup(wd)


def replay_file(path):
    """./check C03 --replay <replays/C03-*.json>: execute the stored script again (1 and 2 ranks) and
    evaluate on every snapshot the part of the oracle that needs no model: the file is decodable by
    the specification decoder, its layout obeys the format rules, the library's reports match it"""
    obj = json.load(open(path))
    r = obj.get('replay') or {}
    script = r.get('script') or (r.get('where') or {}).get('script')
    if not script:
        log('nothing to replay in', path)
        return 2
    tree = build_impl('plain')
    wd = workdir('c03r')
    lean = None
    try:
        lake_build(['c03drv'])
        lean = LeanProc(os.path.join(LEAN, '.lake/build/bin/c03drv'))
        api = cc(tree, [os.path.join(VERIF, 'harness/c03_api.c')], os.path.join(wd, 'c03_api'))
        import re as _re
        lines = [_re.sub(r'/\S*/([A-Za-z0-9_]+\.nc)', lambda mm: os.path.join(wd, mm.group(1)), l) for l in script]
        sf = os.path.join(wd, 'script.txt')
        open(sf, 'w').write(''.join(l + '\n' for l in lines))
        bad = 0
        for n in (1, 2):
            for f in os.listdir(wd):
                if f.endswith('.nc'):
                    os.unlink(os.path.join(wd, f))
            rc, so, se = mpirun(n, [api, sf, os.path.join(wd, 'out%d' % n)], timeout=300)
            outs = open(os.path.join(wd, 'out%d.0' % n)).read().split('\n')[:-1]
            log('--- %d rank(s): rc=%s, %d of %d answers' % (n, rc, len(outs), len(lines)))
            last_inq = None
            for l, a in zip(lines, outs):
                t = a.split()
                show = a if len(a) < 160 else a[:160] + '...'
                if t and t[0] == 'inq' and t[1] == '0':
                    last_inq = [int(x) for x in t[2:]]
                if t and t[0] == 'snap' and t[1] == '0':
                    fb = unhx(t[3])
                    ans = lean.ask('SPEC ' + hx(fb[:400000]))
                    tt = ans.split()
                    consumed = int(tt[-1]) if tt and tt[0] == 'OK' else 0
                    v = oracle(fb, ans, dict(schema=None, data={}, xsz=consumed, reported=last_inq))
                    show += '   oracle: ' + ('ok' if not v else 'FAIL %s: %s' % v)
                    bad += 1 if v else 0
                elif len(t) > 1 and t[1] != '0':
                    bad += 1
                    show += '   <-- API error'
                log('%-60s -> %s' % (l[:60], show))
            if rc != 0 or len(outs) < len(lines):
                bad += 1
        return 1 if bad else 0
    finally:
        if lean:
            lean.close()
        cleanup(wd)


if __name__ == '__main__':
    tier, seed, replay = args(sys.argv[1:])
    if replay:
        sys.exit(replay_file(replay))
    sys.exit(run_check(tier, seed))
