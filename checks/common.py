"""
Shared machinery for the /verif checks (see DESIGN.md §1, §2).

  S1  build_impl()      scratch build of /repo's *working tree* (content-hash keyed, so the
                        20 checks of one sweep share one build; a changed tree gets a new build)
  S2  regen (per check) translators under tools/ write lean/PnVerif/Gen/*.lean
  S3  lake_build(), axiom_audit()
  S4  harness helpers   cc(), run(), SplitMix64
  S5  Evidence, violation(), known findings
"""
import os, sys, json, hashlib, subprocess, time, shutil, fcntl, re, glob

VERIF = os.path.dirname(os.path.dirname(os.path.abspath(__file__)))
REPO = os.environ.get('VERIF_REPO', '/repo')
LEAN = os.path.join(VERIF, 'lean')
SCRATCH_ROOT = os.environ.get('VERIF_SCRATCH', '/var/tmp/pnverif')
MPI_INC = '/usr/lib/x86_64-linux-gnu/openmpi/include'
ALLOWED_AXIOMS = {'propext', 'Classical.choice', 'Quot.sound'}
NPROC = os.cpu_count() or 4
# OpenMPI 4.1.4's default MPI-IO component (OMPIO, fcoll dynamic/vulcan) returns wrong data for a collective
# read in which one rank's request ends exactly at end-of-file (reproduced with a 20-line pure MPI-IO
# program, no PnetCDF involved: 3 ranks read_at_all 8/12/4 bytes of a 524-byte file -> the rank reading up to
# EOF gets zeros for its last element).  ROMIO is correct.  All harness runs therefore use ROMIO, so that an
# MPI library defect is not reported as a PnetCDF violation (DESIGN.md, "False alarms corrected").
os.environ.setdefault('OMPI_MCA_io', 'romio321')

SRC_EXT = ('.c', '.h', '.m4', '.am', '.in', '.y', '.l', '.inc', '.f', '.f90', '.F90', '.cpp', '.hpp', '.ac', '.sh', '.fh', '.def')


def log(*a):
    print(*a, flush=True)


class Timer:
    def __init__(self):
        self.t0 = time.time()

    def s(self):
        return round(time.time() - self.t0, 2)


# ---------------------------------------------------------------------------------------
# S1  scratch build of the working tree
# ---------------------------------------------------------------------------------------
def tree_hash():
    h = hashlib.sha256()
    roots = [os.path.join(REPO, 'src')]
    files = []
    for r in roots:
        for dp, dn, fn in os.walk(r):
            dn[:] = [d for d in dn if d not in ('.libs', '.deps', 'autom4te.cache')]
            for f in fn:
                if f.endswith(SRC_EXT) or f in ('Makefile',):
                    files.append(os.path.join(dp, f))
    for f in ('config.status', 'libtool', 'Makefile', 'configure.ac'):
        files.append(os.path.join(REPO, f))
    for f in sorted(files):
        try:
            with open(f, 'rb') as fh:
                data = fh.read()
        except OSError:
            continue
        h.update(os.path.relpath(f, REPO).encode())
        h.update(b'\0')
        h.update(hashlib.sha256(data).digest())
    return h.hexdigest()[:20]


VARIANTS = {
    # name: (CFLAGS, reconfigure-args or None)
    'plain': ('-g -O1 -Wno-error -DPNC_MALLOC_TRACE -DPNETCDF_VERIF', None),
    'asan': ('-g -O1 -Wno-error -fno-omit-frame-pointer -fsanitize=address,undefined '
             '-fno-sanitize-recover=undefined -DPNC_MALLOC_TRACE -DPNETCDF_VERIF', None),
    'bb': ('-g -O1 -Wno-error -DPNC_MALLOC_TRACE -DPNETCDF_VERIF',
           '--enable-burst-buffering --disable-fortran --disable-cxx'),
}


# developer aid (tools/coverage.py): VERIF_COVERAGE=1 builds the plain variants with gcov instrumentation, into the
# scratch root named by VERIF_SCRATCH, so that the line coverage the checks reach in the library can be measured
if os.environ.get('VERIF_COVERAGE') == '1':
    for _k in ('plain', 'bb'):
        VARIANTS[_k] = (VARIANTS[_k][0].replace('-O1', '-O0') + ' --coverage', VARIANTS[_k][1])


def _lock(name):
    os.makedirs(SCRATCH_ROOT, exist_ok=True)
    fh = open(os.path.join(SCRATCH_ROOT, name + '.lock'), 'w')
    fcntl.flock(fh, fcntl.LOCK_EX)
    return fh


_INUSE = []     # shared locks on the scratch builds this process uses (held until exit)


def _hold(dest):
    try:
        fh = open(os.path.join(dest, '.inuse'), 'a')
        fcntl.flock(fh, fcntl.LOCK_SH)
        _INUSE.append(fh)
    except OSError:
        pass


def _evictable(d):
    """a scratch build may be removed only if no running check holds it"""
    try:
        fh = open(os.path.join(d, '.inuse'), 'a')
    except OSError:
        return True
    try:
        fcntl.flock(fh, fcntl.LOCK_EX | fcntl.LOCK_NB)
        fh.close()
        return True
    except OSError:
        fh.close()
        return False


def build_impl(variant='plain', keep=2):
    """Build /repo's current working tree in a scratch directory; returns its path.
    Keyed by the content hash of the sources, so an edited tree is always rebuilt."""
    th = tree_hash()
    root = os.path.join(SCRATCH_ROOT, 'build')
    os.makedirs(root, exist_ok=True)
    dest = os.path.join(root, '%s-%s' % (th, variant))
    lk = _lock('build-' + variant)
    try:
        if os.path.exists(os.path.join(dest, '.ok')):
            os.utime(dest, None)
            _hold(dest)
            return dest
        # evict old builds (keep the most recent few; this one may flip between clean/mutated)
        olds = sorted([d for d in glob.glob(os.path.join(root, '*-' + variant)) if os.path.isdir(d)],
                      key=lambda d: os.path.getmtime(d))
        for d in olds[:max(0, len(olds) - (keep - 1))]:
            if _evictable(d):
                shutil.rmtree(d, ignore_errors=True)
        shutil.rmtree(dest, ignore_errors=True)
        t = Timer()
        cflags, reconf = VARIANTS[variant]
        ex = ['--exclude', '.git', '--exclude', '*.o', '--exclude', '*.lo', '--exclude', '*.la',
              '--exclude', '.libs', '--exclude', '/MUT']
        if not reconf:      # a fresh ./configure needs every Makefile.in of the tree
            ex += ['--exclude', '/test', '--exclude', '/examples', '--exclude', '/benchmarks', '--exclude', '/doc']
        else:
            ex += ['--exclude', '/test/*/*.nc', '--exclude', '/doc/*.pdf']
        subprocess.check_call(['rsync', '-a'] + ex + [REPO + '/', dest + '/'])
        logf = os.path.join(dest, 'verif_build.log')
        with open(logf, 'w') as lf:
            if reconf:
                rc = subprocess.call('./configure %s CFLAGS="%s" %s > /dev/null' % (reconf, cflags, 'LDFLAGS=--coverage' if '--coverage' in cflags else ''), shell=True, cwd=dest,
                                     stdout=lf, stderr=subprocess.STDOUT)
                if rc != 0:
                    raise BuildFailed('configure failed, see ' + logf)
                # fresh configure: no stale objects were copied, build everything
                rc = subprocess.call(['make', '-s', '-C', 'src', '-j%d' % NPROC], cwd=dest, stdout=lf, stderr=subprocess.STDOUT)
            else:
                rc = subprocess.call(['make', '-s', '-C', 'src', '-j%d' % NPROC, 'CFLAGS=' + cflags] +
                                     (['LDFLAGS=--coverage'] if '--coverage' in cflags else []),
                                     cwd=dest, stdout=lf, stderr=subprocess.STDOUT)
        if rc != 0 or not os.path.exists(os.path.join(dest, 'src/libs/.libs/libpnetcdf.a')):
            tail = open(logf).read()[-3000:]
            raise BuildFailed('library build failed:\n' + tail)
        open(os.path.join(dest, '.ok'), 'w').write('%s %s %.1fs\n' % (th, variant, t.s()))
        log('[S1] built %s variant of tree %s in %.1fs' % (variant, th, t.s()))
        _hold(dest)
        return dest
    finally:
        lk.close()


class BuildFailed(Exception):
    pass


def libflags(tree):
    return ['-I' + os.path.join(tree, 'src/include'), os.path.join(tree, 'src/libs/.libs/libpnetcdf.a'), '-lm']


def cc(tree, srcs, out, extra=(), mpi=True, asan=False):
    """compile a harness against the scratch library"""
    cmd = ['mpicc' if mpi else 'gcc', '-g', '-O1', '-w']
    if asan:
        cmd += ['-fsanitize=address,undefined', '-fno-omit-frame-pointer']
    if os.environ.get('VERIF_COVERAGE') == '1' and mpi:
        cmd += ['-lgcov']
    cmd += list(extra) + list(srcs) + ['-o', out] + (libflags(tree) if mpi else ['-lm'])
    if os.environ.get('VERIF_COVERAGE') == '1' and mpi:
        cmd += ['-lgcov']
    p = subprocess.run(cmd, stdout=subprocess.PIPE, stderr=subprocess.STDOUT, text=True)
    if p.returncode != 0:
        raise BuildFailed('harness compile failed: %s\n%s' % (' '.join(cmd), p.stdout[-3000:]))
    return out


def mpirun(n, argv, timeout=300, env=None, cwd=None, stdin=None):
    cmd = ['mpiexec', '--allow-run-as-root', '--oversubscribe', '-n', str(n)] + list(argv)
    e = dict(os.environ)
    e.setdefault('OMPI_MCA_btl_vader_single_copy_mechanism', 'none')
    e.setdefault('OMPI_MCA_rmaps_base_oversubscribe', '1')
    if env:
        e.update(env)
    try:
        p = subprocess.run(cmd, stdout=subprocess.PIPE, stderr=subprocess.PIPE, text=True, timeout=timeout,
                           env=e, cwd=cwd, input=stdin)
        return p.returncode, p.stdout, p.stderr
    except subprocess.TimeoutExpired as ex:
        return -999, (ex.stdout or b'').decode('utf8', 'replace') if isinstance(ex.stdout, bytes) else (ex.stdout or ''), 'TIMEOUT'


def workdir(tag):
    """per-run scratch directory (removed by the caller through cleanup())"""
    d = os.path.join(SCRATCH_ROOT, 'run', '%s-%d' % (tag, os.getpid()))
    shutil.rmtree(d, ignore_errors=True)
    os.makedirs(d)
    return d


def cleanup(d):
    shutil.rmtree(d, ignore_errors=True)


# ---------------------------------------------------------------------------------------
# S2/S3  Lean
# ---------------------------------------------------------------------------------------
def write_if_changed(path, text):
    try:
        if open(path).read() == text:
            return False
    except OSError:
        pass
    os.makedirs(os.path.dirname(path), exist_ok=True)
    with open(path, 'w') as f:
        f.write(text)
    return True


def lean_lock():
    return _lock('lake')


def lake_build(targets, timeout=3000):
    """returns (ok, output).  Serialised across concurrent checks."""
    lk = lean_lock()
    try:
        p = subprocess.run(['lake', 'build'] + list(targets), cwd=LEAN, stdout=subprocess.PIPE,
                           stderr=subprocess.STDOUT, text=True, timeout=timeout)
        return p.returncode == 0, p.stdout
    finally:
        lk.close()


def lake_errors(output):
    """[(file, line, message-first-line)] of a failed lake build"""
    errs = []
    for m in re.finditer(r'^error: ([^:\n]+\.lean):(\d+):(\d+): (.*)$', output, re.M):
        errs.append((m.group(1), int(m.group(2)), m.group(4)))
    return errs


def theorem_at(leanfile, line):
    """name of the theorem/def enclosing a line of a Lean file"""
    try:
        L = open(os.path.join(LEAN, leanfile)).read().split('\n')
    except OSError:
        return None
    for i in range(min(line, len(L)) - 1, -1, -1):
        m = re.match(r'\s*(?:private\s+)?(?:theorem|lemma|def|example|instance)\s+([^\s:(\[{]+)?', L[i])
        if m:
            return m.group(1) or 'example@%d' % (i + 1)
    return None


FORBIDDEN = re.compile(r'\b(sorry|admit|native_decide|bv_decide|implemented_by|unsafe)\b|^\s*axiom\s|maxHeartbeats\s+0\b')


def strip_lean_comments(text):
    out, i, n, depth = [], 0, len(text), 0
    while i < n:
        if text.startswith('/-', i):
            depth += 1
            i += 2
            continue
        if depth and text.startswith('-/', i):
            depth -= 1
            i += 2
            continue
        if depth:
            if text[i] == '\n':
                out.append('\n')
            i += 1
            continue
        if text.startswith('--', i):
            j = text.find('\n', i)
            i = n if j < 0 else j
            continue
        out.append(text[i])
        i += 1
    return ''.join(out)


def grep_forbidden(files):
    hits = []
    for f in files:
        try:
            t = strip_lean_comments(open(f).read())
        except OSError:
            continue
        # string literals may mention the words (e.g. obligations list): drop them
        t = re.sub(r'"(?:[^"\\]|\\.)*"', '""', t)
        for ln, line in enumerate(t.split('\n'), 1):
            if FORBIDDEN.search(line):
                hits.append('%s:%d: %s' % (os.path.relpath(f, VERIF), ln, line.strip()[:120]))
    return hits


def axiom_audit(module, names, namespace=None, chunk=400):
    """#print axioms for each name; returns (discharged:list, bad:list[(name, axioms|error)])"""
    discharged, bad = [], []
    wd = os.path.join(SCRATCH_ROOT, 'audit')
    os.makedirs(wd, exist_ok=True)
    for k in range(0, len(names), chunk):
        part = names[k:k + chunk]
        src = 'import %s\n' % module
        if namespace:
            src += 'open %s\n' % namespace
        for nm in part:
            src += '#print axioms %s\n' % nm
        f = os.path.join(wd, 'audit_%d_%d.lean' % (os.getpid(), k))
        open(f, 'w').write(src)
        p = subprocess.run(['lake', 'env', 'lean', f], cwd=LEAN, stdout=subprocess.PIPE, stderr=subprocess.STDOUT, text=True)
        os.unlink(f)
        out = p.stdout
        seen = {}
        for m in re.finditer(r"'([^']+)' depends on axioms: \[([^\]]*)\]", out.replace('\n ', ' ')):
            seen[m.group(1).split('.')[-1]] = set(a.strip() for a in m.group(2).split(',') if a.strip())
        for m in re.finditer(r"'([^']+)' does not depend on any axioms", out):
            seen[m.group(1).split('.')[-1]] = set()
        for nm in part:
            key = nm.split('.')[-1]
            if key not in seen:
                bad.append((nm, 'not found / not checked'))
            elif not seen[key] <= ALLOWED_AXIOMS:
                bad.append((nm, sorted(seen[key] - ALLOWED_AXIOMS)))
            else:
                discharged.append(nm)
    return discharged, bad


def leanchecker(modules):
    bad = []
    for m in modules:
        p = subprocess.run(['lake', 'env', 'leanchecker', m], cwd=LEAN, stdout=subprocess.PIPE, stderr=subprocess.STDOUT, text=True)
        if p.returncode != 0:
            bad.append((m, p.stdout[-500:]))
    return bad


def obligations_of(leanfile):
    """parse `def obligations : List String := [ "a", "b", ... ]` from a Lean file"""
    t = open(os.path.join(LEAN, leanfile)).read()
    m = re.search(r'def obligations\s*:\s*List String\s*:=\s*\[(.*?)\]', t, re.S)
    if not m:
        return []
    return re.findall(r'"([^"]+)"', m.group(1))


# ---------------------------------------------------------------------------------------
# randomness
# ---------------------------------------------------------------------------------------
class SplitMix64:
    def __init__(self, seed):
        self.s = seed & 0xFFFFFFFFFFFFFFFF

    def next(self):
        self.s = (self.s + 0x9E3779B97F4A7C15) & 0xFFFFFFFFFFFFFFFF
        z = self.s
        z = ((z ^ (z >> 30)) * 0xBF58476D1CE4E5B9) & 0xFFFFFFFFFFFFFFFF
        z = ((z ^ (z >> 27)) * 0x94D049BB133111EB) & 0xFFFFFFFFFFFFFFFF
        return z ^ (z >> 31)

    def below(self, n):
        return self.next() % n if n > 0 else 0

    def range(self, lo, hi):
        return lo + self.below(hi - lo + 1)

    def choice(self, xs):
        return xs[self.below(len(xs))]

    def chance(self, num, den):
        return self.below(den) < num

    def shuffle(self, xs):
        xs = list(xs)
        for i in range(len(xs) - 1, 0, -1):
            j = self.below(i + 1)
            xs[i], xs[j] = xs[j], xs[i]
        return xs


# ---------------------------------------------------------------------------------------
# S5  verdicts, evidence, known findings
# ---------------------------------------------------------------------------------------
def known_findings(prop):
    """-> list of dict(sig=..., text=...) for `finding:` lines of KNOWN_FINDINGS.txt"""
    res = []
    try:
        for line in open(os.path.join(VERIF, 'KNOWN_FINDINGS.txt')):
            line = line.strip()
            m = re.match(r'finding:\s+property=(\S+)\s+sig=(\S+)\s+(.*)$', line)
            if m and m.group(1) == prop:
                res.append(dict(sig=m.group(2), text=m.group(3)))
    except OSError:
        pass
    return res


class Verdict:
    """collects what a check saw; prints VIOLATION / KNOWN-FINDING lines; writes evidence"""

    def __init__(self, prop, tier, seed):
        self.prop, self.tier, self.seed = prop, tier, seed
        self.t = Timer()
        self.known = known_findings(prop)
        self.known_hit = {}
        self.violations = []          # (replay_path, suffix)
        self.cov = dict(evaluations=0, distinct_nontrivial=0, samples=[], obligations=0, discharged=0,
                        checker_cmd='', trusted_base=[])
        self.assumptions = []
        self.replay_dir = os.path.join(VERIF, 'replays')

    def replay_file(self, tag, obj):
        os.makedirs(self.replay_dir, exist_ok=True)
        p = os.path.join(self.replay_dir, '%s-%s-%s.json' % (self.prop, self.seed, tag))
        with open(p, 'w') as f:
            json.dump(obj, f, indent=1, default=str)
        return p

    def failing_input(self, sig, description, replay_obj, tag=None):
        """a concrete input on which the PROPERTY fails on the real code"""
        for k in self.known:
            if k['sig'] == sig:
                self.known_hit.setdefault(sig, k['text'])
                return False
        tag = tag or ('v%d' % (len(self.violations) + 1))
        p = self.replay_file(tag, dict(property=self.prop, signature=sig, what=description, replay=replay_obj))
        self.violations.append((p, ''))
        return True

    def broken_tie(self, what, detail):
        """a proof obligation or the correspondence no longer checks and no failing input was found"""
        p = self.replay_file('tie%d' % (len(self.violations) + 1),
                             dict(property=self.prop, broken=what, detail=detail,
                                  note='no failing input found by the search; the property is no longer shown to hold'))
        self.violations.append((p, ' no-failing-input-found'))

    def finish(self, level='proof'):
        for sig, text in sorted(self.known_hit.items()):
            log('KNOWN-FINDING: property=%s %s [%s]' % (self.prop, text, sig))
        seen = set()
        for p, suf in self.violations[:20]:
            if p in seen:
                continue
            seen.add(p)
            log('VIOLATION property=%s replay=%s%s' % (self.prop, p, suf))
        ev = dict(property_id=self.prop, tier=self.tier, seed=int(self.seed), level=level, coverage=self.cov,
                  assumptions=self.assumptions, wall_s=self.t.s(), violations=len(self.violations))
        ev['coverage']['known_findings_replayed'] = sorted(self.known_hit.keys())
        os.makedirs(os.path.join(VERIF, 'evidence'), exist_ok=True)
        with open(os.path.join(VERIF, 'evidence', '%s.json' % self.prop), 'w') as f:
            json.dump(ev, f, indent=1, default=str)
        log('[%s] tier=%s seed=%s obligations=%d discharged=%d evaluations=%d distinct_nontrivial=%d violations=%d wall=%.1fs'
            % (self.prop, self.tier, self.seed, self.cov['obligations'], self.cov['discharged'],
               self.cov['evaluations'], self.cov['distinct_nontrivial'], len(self.violations), self.t.s()))
        return 1 if self.violations else 0


TRUSTED_BASE_COMMON = [
    'Lean 4.33.0 kernel; axioms limited to propext, Classical.choice, Quot.sound (audited with #print axioms on every obligation)',
    'no sorry/admit/native_decide/bv_decide/axiom in lean/ (grep on every run)',
    'C compiler, libc, OpenMPI 4.1.4, file system: not modelled',
]


def args(argv):
    tier = os.environ.get('VERIF_TIER', 'quick')
    seed = int(os.environ.get('VERIF_SEED', '1'))
    replay = None
    i = 0
    while i < len(argv):
        if argv[i] == '--tier':
            tier = argv[i + 1]; i += 2
        elif argv[i] == '--seed':
            seed = int(argv[i + 1]); i += 2
        elif argv[i] == '--replay':
            replay = argv[i + 1]; i += 2
        else:
            i += 1
    if tier not in ('quick', 'thorough'):
        tier = 'quick'
    return tier, seed, replay
