#!/usr/bin/env python3
"""C02 — nonblocking request aggregation is equivalent to blocking execution (DESIGN.md §4 C02).

S3  Lean: Model/Merge.lean (sort/merge/coalesce of off-len segments), Model/ReqQueue.lean (pending
    queues: post / extract_reqs / req_commit clean-up / cancel), theorems in Props/C02.lean.
S4  two correspondence streams against the real library
      unit : merge_requests() + type_create_off_len() called directly (harness/c02_unit.c)
      nb   : random pending multisets completed by random partitions into wait / wait_all / cancel
             (harness/c02_nb.c); the pending queues of `struct NC` are dumped after every op and
             diffed with the model; the property oracle = the same requests as blocking calls on a
             second file + per-request status + id reset + pending count.
"""
import os, sys, json, subprocess
sys.path.insert(0, os.path.dirname(os.path.abspath(__file__)))
from common import *

PROP = 'C02'
NVARS = 8
VND = [2, 1, 2, 3, 1, 2, 0, 1]
VISREC = [0, 0, 1, 1, 0, 0, 0, 0]
VDIMS = [[6, 8], [12], [None, 8], [None, 6, 8], [12], [6, 8], [], [4]]
VNATIVE = [1, 3, 2, 1, 5, 4, 1, 1]        # mt code of the native memory type (int, short, double, int, schar, float, int, int)
NREC0 = 3
MAXREC = 6


# ----------------------------------------------------------------------------------------------
# generator (spec side: knows only which requests are pending, never the queue layout)
# ----------------------------------------------------------------------------------------------
class CaseGen:
    def __init__(self, rng, idx, nranks, allow_read_overlap, misuse):
        self.rng, self.idx, self.nranks = rng, idx, nranks
        self.allow_read_overlap, self.misuse = allow_read_overlap, misuse
        self.lines = []
        self.written = [set() for _ in range(NVARS)]     # elements ever written in this case
        self.readpend = [dict() for _ in range(nranks)]  # rank -> h -> set((var,elem)) of pending gets
        self.pending = [dict() for _ in range(nranks)]   # rank -> h -> info
        self.nexth = [0] * nranks
        self.numrecs = NREC0                             # spec value (single-rank cases only)
        self.indep = False
        self.abuf = 0
        self.meta = []                                   # per script line: dict for the oracle

    def band(self, rank, n):
        lo = rank * n // self.nranks
        hi = (rank + 1) * n // self.nranks
        return lo, hi

    def elems(self, var, start, count, stride):
        """flattened (rec, idx) element ids of a subarray"""
        dims = VDIMS[var]
        out = []

        def rec(d, acc):
            if d == len(dims):
                out.append(tuple(acc))
                return
            for k in range(count[d]):
                rec(d + 1, acc + [start[d] + k * stride[d]])
        if all(c > 0 for c in count):
            rec(0, [])
        return out

    def gen_sub(self, rank, var, kind, want_stride):
        """one (start,count,stride) inside the rank's band"""
        rng = self.rng
        dims = VDIMS[var]
        nd = len(dims)
        start, count, stride = [], [], []
        banddim = (1 if VISREC[var] else 0) if nd > (1 if VISREC[var] else 0) else None
        for d in range(nd):
            if dims[d] is None:     # record dimension
                # with several ranks the record count is a cross-rank quantity (property C05): stay inside the
                # existing records there, so that every numrecs deviation is attributed to the wait that caused it
                hi = MAXREC if (kind != 'get' and self.nranks == 1) else NREC0
                lo = 0
            elif d == banddim:
                lo, hi = self.band(rank, dims[d])
            else:
                lo, hi = 0, dims[d]
            if hi - lo <= 0:
                return None
            st = 1
            if want_stride and rng.chance(1, 2):
                st = rng.range(1, 3)
            s = rng.range(lo, hi - 1)
            maxc = (hi - 1 - s) // st + 1
            c = rng.range(1, min(maxc, 4))
            start.append(s); count.append(c); stride.append(st)
        return start, count, stride

    def post(self, rank):
        rng = self.rng
        kind = rng.choice(['put', 'put', 'get', 'get', 'bput'])
        var = rng.choice([0, 0, 1, 2, 2, 3, 3, 4, 5, 6, 7])
        if var == 7 and kind != 'get':
            kind = 'get'
        if var == 6 and rank != 0:
            var = 0
        nd = VND[var]
        api = rng.choice(['a', 'a', 's', 'm', 'n']) if nd > 0 else 'a'
        mt = 0 if rng.chance(3, 5) else rng.choice([1, 2, 3, 4, 6])
        if kind == 'get' and self.allow_read_overlap:
            # an overlapped read buffer stays unfilled (known finding F13); converting that garbage would make the
            # return code unpredictable (NC_ERANGE or not), so reads that may overlap use the native type
            mt = 0
        bl = rng.choice([0, 0, 1, 2, 3])
        if bl == 1 and mt != 0:
            bl = 0
        eff = mt if mt != 0 else VNATIVE[var]
        if bl == 3 and (api != 'a' or eff not in (1, 2, 3) or nd == 0):
            bl = 0
        if bl == 3:
            mt = eff
        imap = 1 if (api == 'm' and nd >= 2 and rng.chance(2, 3)) else 0
        erange = 1 if (var == 7 and kind == 'get' and eff == 3) else 0
        nreq = rng.range(1, 4) if api == 'n' else 1
        subs, allel = [], []
        zero = 0
        for i in range(nreq):
            for attempt in range(20):
                g = self.gen_sub(rank, var, kind, api in ('s', 'm')) if nd > 0 else ([], [], [])
                if g is None:
                    return False
                s, c, st = g
                if api == 'n':
                    st = [1] * nd
                el = [(var,) + e for e in self.elems(var, s, c, st)] if nd > 0 else [(var,)]
                if kind != 'get':
                    if any(e in self.written[var] for e in el) or any(e in allel for e in el):
                        continue
                    if any(e in rp for rp in self.readpend[rank].values() for e in el):
                        continue     # keep reads and writes of one rank apart while both are pending
                else:
                    if any(e in self.written[var] for e in el):
                        continue     # read only data that is never written in this case (no ordering question)
                    if not self.allow_read_overlap and (any(e in rp for rp in self.readpend[rank].values() for e in el)
                                                        or any(e in allel for e in el)):
                        continue
                break
            else:
                return False
            if api == 'n' and nreq > 1 and rng.chance(1, 8) and nd > 0:
                c = list(c); c[rng.below(nd)] = 0; el = []       # a zero-length sub-request
            subs.append((s, c, st)); allel += el
        if api != 'n' and nd > 0 and rng.chance(1, 25):
            s, c, st = subs[0]; c = list(c); c[rng.below(nd)] = 0; subs = [(s, c, st)]; allel = []; zero = 1
        if api == 'n' and not allel:
            zero = 1
        bad = 0
        if nd > 0 and zero == 0 and rng.chance(1, 30):
            # an out-of-range start in a fixed dimension (the record dimension may legally grow for a put)
            s, c, st = subs[0]; s = list(s)
            d = rng.choice([k for k in range(nd) if VDIMS[var][k] is not None])
            s[d] = VDIMS[var][d] + 5; subs[0] = (s, c, st); zero = 2; bad = 1
        h = self.nexth[rank]
        if h >= 120:
            return False
        self.nexth[rank] += 1
        nsubs = 0
        for (s, c, st) in subs:
            ne = 1
            for x in c:
                ne *= x
            if ne == 0 and nd > 0:
                continue
            nsubs += (c[0] if VISREC[var] else 1)
        start0 = subs[0][0][0] if nd > 0 else 0
        with_stride = False
        if api == 's' or (api == 'm' and rng.chance(1, 2)):
            with_stride = True
        elif api == 'm' and any(x != 1 for x in subs[0][2]):
            with_stride = True       # varm without stride argument only when all strides are 1
        maxrec = -1
        if VISREC[var] and zero == 0:
            if api == 'n':
                for (s, c, st) in subs:
                    ne = 1
                    for x in c:
                        ne *= x
                    if ne:
                        maxrec = max(maxrec, s[0] + c[0])
            else:
                s, c, st = subs[0]
                if with_stride and any(x > 1 for x in st):
                    maxrec = s[0] + st[0] * (c[0] - 1) + 1
                else:
                    maxrec = s[0] + c[0]
        toks = ['P', rank, h, kind, var, api, zero, nsubs, start0, erange, maxrec, mt, bl, imap, nreq]
        for (s, c, st) in subs:
            toks += list(s) + list(c)
        if with_stride:
            toks += list(subs[0][2])
        self.lines.append(' '.join(str(t) for t in toks))
        info = dict(h=h, kind=kind, var=var, erange=erange, el=set(allel), zero=zero, api=api, nsubs=nsubs, maxrec=maxrec,
                    selfoverl=(len(set(allel)) != len(allel)))
        self.meta.append(dict(op='P', rank=rank, info=info))
        if zero == 0:
            self.pending[rank][h] = info
            if kind == 'get':
                self.readpend[rank][h] = set(allel)
            else:
                self.written[var] |= set(allel)
                if kind == 'bput':
                    pass
        return True

    def complete(self, rank, hs):
        for h in hs:
            self.pending[rank].pop(h, None)
            self.readpend[rank].pop(h, None)

    def wait(self, rank, cancel=False):
        rng = self.rng
        pend = sorted(self.pending[rank].keys())
        hasst = 1 if rng.chance(3, 4) else 0
        form = rng.below(10)
        toks, exp, misuse = [], [], None
        if form == 0:
            num = -1; exp = pend
        elif form == 1:
            num = -2; exp = [h for h in pend if self.pending[rank][h]['kind'] == 'get']
        elif form == 2:
            num = -3; exp = [h for h in pend if self.pending[rank][h]['kind'] != 'get']
        else:
            if form <= 4:
                sub = pend
            else:
                sub = [h for h in pend if rng.chance(1, 2)]
            sub = rng.shuffle(sub)
            toks = ['h%d' % h for h in sub]
            exp = list(sub)
            if self.misuse:
                if rng.chance(1, 3):
                    for _ in range(rng.range(1, 2)):
                        toks.insert(rng.below(len(toks) + 1), 'N')
                if rng.chance(1, 10):
                    toks.insert(rng.below(len(toks) + 1), 'U%d' % (9000 + rng.below(40)))
                    misuse = 'unknown'
                if sub and rng.chance(1, 12):
                    toks.insert(rng.below(len(toks) + 1), 'h%d' % rng.choice(sub))
                    misuse = 'repeat'
            num = len(toks)
        expn = len(pend) - len(set(exp))
        shortcut = None
        ngets = sum(1 for h in pend if self.pending[rank][h]['kind'] == 'get')
        nputs = len(pend) - ngets
        if num >= 0 and not cancel:
            if ngets == 0 and num == nputs:
                shortcut = 'put_all'
            elif nputs == 0 and num == ngets:
                shortcut = 'get_all'
            elif num == nputs + ngets and not hasst:
                shortcut = 'all'
        if cancel:
            self.lines.append('X %d %d %d %d %d %s' % (rank, num, hasst, expn, len(toks), ' '.join(toks)))
        else:
            mode = 'i' if self.indep else 'c'
            self.lines.append('W %d %s %d %d %d %d %s %d %s' % (rank, mode, num, hasst, expn, len(toks), ' '.join(toks),
                                                               len(exp), ' '.join(str(h) for h in exp)))
        # overlapping gets completed together (F13 trigger)
        overl = set(self._overl(rank, exp))
        if not cancel:
            for h in exp:
                if self.pending[rank][h]['kind'] != 'get':
                    self.numrecs = max(self.numrecs, self.pending[rank][h]['maxrec'])
        self.meta.append(dict(op='X' if cancel else 'W', rank=rank, num=num, hasst=hasst, toks=list(toks), exp=list(exp),
                              expn=expn, misuse=misuse, shortcut=shortcut, overl=sorted(overl),
                              erange={h: self.pending[rank][h]['erange'] for h in exp},
                              pend_before=len(pend), numrecs=self.numrecs if self.nranks == 1 else None))
        self.complete(rank, exp)
        return misuse

    def build(self, nops):
        rng = self.rng
        self.lines.append(None)      # CASE line placeholder
        self.meta.append(dict(op='CASE'))
        dead = [False] * self.nranks
        for step in range(nops):
            for rank in range(self.nranks):
                if dead[rank]:
                    continue
                r = rng.below(10)
                if r < 6 or not self.pending[rank]:
                    self.post(rank)
            # waits: in multi-rank cases every rank takes part in the collective wait
            r = rng.below(10)
            if self.nranks == 1:
                if dead[0]:
                    break
                if r < 4:
                    if rng.chance(1, 6) and not self.indep:
                        self.lines.append('B 0'); self.meta.append(dict(op='B', rank=0)); self.indep = True
                    elif self.indep and rng.chance(1, 3):
                        self.lines.append('E 0'); self.meta.append(dict(op='E', rank=0)); self.indep = False
                    m = self.wait(0, cancel=rng.chance(1, 6))
                    if m:
                        dead[0] = True     # after a misused wait the case is over (probes are made by the harness)
            else:
                if r < 4:
                    for rank in range(self.nranks):
                        self.wait(rank)
        # finish: complete what is left
        if self.nranks > 1 or not dead[0]:
            if self.indep:
                for rank in range(self.nranks):
                    self.lines.append('E %d' % rank); self.meta.append(dict(op='E', rank=rank))
                self.indep = False
            for rank in range(self.nranks):
                pend = sorted(self.pending[rank].keys())
                self.lines.append('W %d c -1 0 0 0  %d %s' % (rank, len(pend), ' '.join(str(h) for h in pend)))
                for h in pend:
                    if self.pending[rank][h]['kind'] != 'get':
                        self.numrecs = max(self.numrecs, self.pending[rank][h]['maxrec'])
                self.meta.append(dict(op='W', rank=rank, num=-1, hasst=0, toks=[], exp=pend, expn=0, misuse=None, shortcut=None,
                                      overl=self._overl(rank, pend), erange={h: self.pending[rank][h]['erange'] for h in pend},
                                      pend_before=len(pend), numrecs=self.numrecs if self.nranks == 1 else None))
                self.complete(rank, pend)
        for rank in range(self.nranks):
            self.lines.append('END %d' % rank); self.meta.append(dict(op='END', rank=rank))
        self.lines[0] = 'CASE %d %d %d' % (self.idx, self.nranks, 1 << 16)
        return self.lines, self.meta

    def _overl(self, rank, hs):
        gets = [h for h in hs if self.pending[rank][h]['kind'] == 'get']
        o = set(h for h in gets if self.pending[rank][h].get('selfoverl'))   # overlapping sub-requests of one varn
        for i, a in enumerate(gets):
            for b in gets[i + 1:]:
                if self.pending[rank][a]['el'] & self.pending[rank][b]['el']:
                    o.add(a); o.add(b)
        return sorted(o)


def _w(num, hasst, toks, exp, expn, pend_before, shortcut=None, misuse=None, overl=(), erange=None, numrecs=NREC0):
    return dict(op='W', rank=0, num=num, hasst=hasst, toks=list(toks), exp=list(exp), expn=expn, misuse=misuse, shortcut=shortcut,
                overl=list(overl), erange=erange or {h: 0 for h in exp}, pend_before=pend_before, numrecs=numrecs)


_P = dict(op='P', rank=0)
_END = dict(op='END', rank=0)
# every known finding of C02 is replayed on the real library by one fixed case (single rank)
FIXED_CASES = [
    # F4a: statuses returned by queue position, not by req_ids order (get_all shortcut)
    (['P 0 0 get 7 a 0 1 0 1 -1 3 0 0 1 0 4', 'P 0 1 get 0 a 0 1 0 0 -1 0 0 0 1 0 0 2 3', 'W 0 c 2 1 0 2 h1 h0 2 0 1', 'END 0'],
     [_P, _P, _w(2, 1, ['h1', 'h0'], [1, 0], 0, 2, shortcut='get_all', erange={0: 1, 1: 0}), _END], {}),
    # F4b: wait_all(2,[A,NC_REQ_NULL]) with two pending puts completes both
    (['P 0 0 put 0 a 0 1 0 0 -1 0 0 0 1 0 0 2 3', 'P 0 1 put 1 a 0 1 0 0 -1 0 0 0 1 2 3', 'W 0 c 2 1 1 2 h0 N 1 0', 'W 0 c 1 1 0 1 h1 1 1', 'END 0'],
     [_P, _P, _w(2, 1, ['h0', 'N'], [0], 1, 2, shortcut='put_all'), _w(1, 1, ['h1'], [1], 0, 1), _END], {}),
    # F13: two identical iget_vara in one wait_all, a pending put keeps the subset path
    (['P 0 0 get 0 a 0 1 0 0 -1 0 0 0 1 1 1 2 3', 'P 0 1 get 0 a 0 1 0 0 -1 0 0 0 1 1 1 2 3', 'P 0 2 put 1 a 0 1 0 0 -1 0 0 0 1 2 3',
      'W 0 c 2 1 1 2 h0 h1 2 0 1', 'W 0 c -1 0 0 0  1 2', 'END 0'],
     [_P, _P, _P, _w(2, 1, ['h0', 'h1'], [0, 1], 1, 3, overl=[0, 1]), _w(-1, 0, [], [2], 0, 1), _END], {}),
    # F19: stale NC_REQ_TO_FREE after a refused wait
    (['P 0 0 put 0 a 0 1 0 0 -1 0 0 0 1 0 0 2 3', 'P 0 1 put 1 a 0 1 0 0 -1 0 0 0 1 2 3', 'P 0 2 get 0 a 0 1 0 0 -1 0 0 0 1 1 1 2 3',
      'W 0 c 2 1 1 2 h0 U998 1 0', 'END 0'],
     [_P, _P, _P, _w(2, 1, ['h0', 'U998'], [0], 2, 3, misuse='unknown'), _END], {}),
    # regression case for F20 (fixed in /repo by e413b55d): iput_varn with one sub-request spanning two records;
    # the queue dump shows the per-record element counts / xbuf offsets (Model.ReqQueue.splitVarn, theorem record_split)
    (['P 0 0 put 2 n 0 2 0 0 2 0 0 0 1 0 0 2 8', 'W 0 c -1 0 0 0  1 0', 'END 0'],
     [_P, _w(-1, 0, [], [0], 0, 1), _END], {}),
    # F21: subset wait completing a record put that is not at the front of the put queue: numrecs not raised
    (['P 0 0 put 5 a 0 1 0 0 -1 0 0 0 1 0 0 1 2', 'P 0 1 put 2 a 0 1 3 0 4 0 0 0 1 3 0 1 2', 'P 0 2 get 0 a 0 1 0 0 -1 0 0 0 1 1 1 2 3',
      'W 0 c 1 1 2 1 h1 1 1', 'W 0 c -1 0 0 0  2 0 2', 'END 0'],
     [_P, _P, _P, _w(1, 1, ['h1'], [1], 2, 3, numrecs=4), _w(-1, 0, [], [0, 2], 0, 2, numrecs=4), _END], {}),
    # directed: sorted insertion of a MULTI-RECORD request in front of a pending one (the displaced lead's nonlead_off must
    # move by the number of per-record requests), then a wait on the strict subset {displaced request}, then the inserted
    # one; data compared with the blocking calls.  iput, bput, and iget_varn (the get queue is sorted for varn only).
    (['P 0 0 put 3 a 0 1 0 0 1 0 0 0 1 0 0 0 1 1 4', 'P 0 1 put 2 a 0 3 0 0 3 0 0 0 1 0 0 3 8', 'P 0 2 get 0 a 0 1 0 0 -1 0 0 0 1 1 1 2 3',
      'W 0 c 1 1 2 1 h0 1 0', 'W 0 c 1 1 1 1 h1 1 1', 'W 0 c -1 0 0 0  1 2', 'END 0'],
     [_P, _P, _P, _w(1, 1, ['h0'], [0], 2, 3), _w(1, 1, ['h1'], [1], 1, 2), _w(-1, 0, [], [2], 0, 1), _END], {}),
    (['P 0 0 bput 3 a 0 1 1 0 2 0 0 0 1 1 2 0 1 2 8', 'P 0 1 put 1 a 0 1 0 0 -1 0 0 0 1 0 6', 'P 0 2 bput 2 s 0 2 0 0 3 0 0 0 1 0 1 2 3 2 2',
      'P 0 3 get 0 a 0 1 0 0 -1 0 0 0 1 1 1 2 3', 'W 0 c 2 1 2 2 h0 h1 2 0 1', 'W 0 c 1 0 1 1 h2 1 2', 'W 0 c -1 0 0 0  1 3', 'END 0'],
     [_P, _P, _P, _P, _w(2, 1, ['h0', 'h1'], [0, 1], 2, 4), _w(1, 0, ['h2'], [2], 1, 2), _w(-1, 0, [], [3], 0, 1), _END], {}),
    (['P 0 0 get 3 n 0 1 0 0 1 0 0 0 1 0 2 3 1 1 4', 'P 0 1 get 2 n 0 3 0 0 3 0 0 0 2 0 0 2 4 2 4 1 4', 'P 0 2 put 1 a 0 1 0 0 -1 0 0 0 1 0 6',
      'W 0 c 1 1 2 1 h0 1 0', 'W 0 c 1 1 1 1 h1 1 1', 'W 0 c -1 0 0 0  1 2', 'END 0'],
     [_P, _P, _P, _w(1, 1, ['h0'], [0], 2, 3), _w(1, 1, ['h1'], [1], 1, 2), _w(-1, 0, [], [2], 0, 1), _END], {}),
]


# ----------------------------------------------------------------------------------------------
# oracle on the implementation's output (first deviation per case)
# ----------------------------------------------------------------------------------------------
def parse_res(line):
    """'W err=0 ids=-1,-1 st=0,0 n=1 | ...' -> dict"""
    d = {}
    head = line.split(' | ')[0].split()
    d['tag'] = head[0]
    for t in head[1:]:
        if '=' in t:
            k, v = t.split('=', 1)
            d[k] = v
    return d


def ints(s):
    return [] if s in ('-', '', None) else [int(x) for x in s.split(',')]


def numrecs_of(line):
    try:
        return int(line.rsplit(' R:', 1)[1])
    except Exception:
        return None


def judge_case(lines_out, metas):
    """lines_out: the harness output lines of one rank for one case (in order, incl. D lines);
       metas: the script meta entries of that rank for that case (in script order).
       returns (signature, description) of the first property deviation, or None"""
    it = iter(lines_out)
    pos = 0
    out = list(lines_out)
    i = 0

    def take_d():
        nonlocal i
        ds = []
        while i < len(out) and out[i].startswith('D '):
            ds.append(out[i]); i += 1
        return ds

    def take_de():
        nonlocal i
        ds = []
        while i < len(out) and out[i].startswith('DE '):
            ds.append(out[i]); i += 1
        return ds
    flags = metas[0] if metas and metas[0]['op'] == 'CASE' else {}
    for m in metas:
        if m['op'] == 'CASE':
            # CASE line printed once per rank
            if i < len(out) and out[i].startswith('CASE'):
                i += 1
            ds = take_d()
            if ds:
                return ('harness-setup', ds[0])
            continue
        if m['op'] == 'END':
            ds = take_de()
            if i < len(out) and out[i] == 'END':
                i += 1
            for d in ds:
                if d.startswith('DE file-compare equal'):
                    continue
                return ('end-of-case', d)
            continue
        if i >= len(out):
            return ('harness-output-truncated', 'no answer for %s' % m['op'])
        line = out[i]; i += 1
        if line == 'DEAD':
            continue
        if m['op'] in ('B', 'E'):
            if 'err=0' not in line:
                return ('mode-switch', line)
            continue
        if m['op'] == 'P':
            ds = take_d()
            continue
        r = parse_res(line)
        err = int(r['err'])
        ids, st, n = ints(r.get('ids')), ints(r.get('st')), int(r['n'])
        extra = []
        while i < len(out) and (out[i].startswith('R ') or out[i].startswith('K ')):
            extra.append(out[i]); i += 1
        ds = take_d()
        if m['op'] == 'X':
            if m['num'] >= 0:
                want_ids = [(-1 if (t[0] in 'hN') else int(t[1:])) for t in m['toks']]
                # a handle named twice: second occurrence is unknown by then -> keeps its value; accept either
                if m['misuse'] is None and ids != want_ids:
                    return ('cancel-ids', line)
            if n != m['expn'] and m['misuse'] is None:
                return ('cancel-pending-count', '%s expected n=%d' % (line, m['expn']))
            if ds:
                return ('cancel-data', ds[0])
            continue
        # ---- W
        if m['misuse']:
            # the spec does not say what a wait naming an unknown/repeated id returns; whatever it does, the pending
            # requests it named must be completed now or still completable (probe lines R)
            if err == -212:
                lastr = None
                for e in extra:
                    if e.startswith('R '):
                        rr = parse_res(e)
                        if int(rr['err']) == -212:
                            return ('refused-wait-leaves-request-uncompletable',
                                    'after %s the pending request is refused: %s' % (line.split(' | ')[0], e.split(' | ')[0]))
                        lastr = e
                # every probe (a wait on the single id) succeeded: the record count must be what the blocking calls give
                if lastr is not None and m.get('numrecs') is not None:
                    nrec = numrecs_of(lastr)
                    if nrec is not None and nrec < m['numrecs']:
                        return ('subset-wait-numrecs-not-updated', '%s R:%d expected numrecs=%d' % (lastr.split(' | ')[0], nrec, m['numrecs']))
                continue
            if n != m['expn']:
                sig = 'extract-shortcut-ignores-idlist' if m['shortcut'] else 'wait-pending-count'
                return (sig, '%s expected n=%d' % (line.split(' | ')[0], m['expn']))
            continue
        want_err = -60 if any(m['erange'].values()) else 0
        if n != m['expn']:
            sig = 'extract-shortcut-ignores-idlist' if m['shortcut'] else 'wait-pending-count'
            return (sig, '%s expected n=%d' % (line.split(' | ')[0], m['expn']))
        if m['num'] >= 0:
            if any(x != -1 for x in ids):
                sig = 'extract-shortcut-ignores-idlist' if m['shortcut'] else 'wait-id-not-reset'
                return (sig, line.split(' | ')[0])
            if m['hasst']:
                want = [(-60 if (t[0] == 'h' and m['erange'].get(int(t[1:]))) else 0) for t in m['toks']]
                if st != want:
                    if m['shortcut'] and sorted(st) == sorted(want):
                        return ('extract-shortcut-status-by-position', '%s expected st=%s' % (line.split(' | ')[0], want))
                    if m['overl'] and len(st) == len(want) and all(a == b or (a == -60 and b == 0) for a, b in zip(st, want)):
                        # an overlapped read buffer stays unfilled (F13); converting the garbage may raise NC_ERANGE
                        return ('overlapping-iget-unfilled', '%s expected st=%s (NC_ERANGE from an unfilled overlapped read)' % (line.split(' | ')[0], want))
                    return ('wait-status', '%s expected st=%s' % (line.split(' | ')[0], want))
        if err != want_err:
            if m['overl'] and err == -60:
                return ('overlapping-iget-unfilled', '%s expected err=%d (NC_ERANGE from an unfilled overlapped read)' % (line.split(' | ')[0], want_err))
            return ('wait-return-code', '%s expected err=%d' % (line.split(' | ')[0], want_err))
        nrec = numrecs_of(line)
        if m.get('numrecs') is not None and nrec is not None and nrec != m['numrecs']:
            if m['num'] >= 0 and nrec < m['numrecs']:
                return ('subset-wait-numrecs-not-updated', '%s R:%d expected numrecs=%d' % (line.split(' | ')[0], nrec, m['numrecs']))
            return ('wait-numrecs', '%s R:%d expected numrecs=%d' % (line.split(' | ')[0], nrec, m['numrecs']))
        for d in ds:
            if d.startswith('D getbuf-differs'):
                h = int(d.split()[2][1:])
                if h in m['overl']:
                    return ('overlapping-iget-unfilled', d)
                return ('getbuf-differs', d)
            return ('data-oracle', d)
    return None


def split_cases(lines):
    cases, cur = [], None
    for l in lines:
        if l.startswith('CASE '):
            cur = []
            cases.append(cur)
        if cur is not None:
            cur.append(l)
    return cases


def gen_flatten(rng, n):
    """F lines: vars_flatten on random shapes / subarrays (1-4 dims, strides, element sizes), any buffer address"""
    lines = []
    for _ in range(n):
        nd = rng.range(1, 4)
        el = rng.choice([1, 2, 4, 8])
        dl = [rng.range(1, 9) for _ in range(nd)]
        st, ct, sr = [], [], []
        ones = rng.chance(1, 3)
        for d in range(nd):
            k = 1 if ones else rng.range(1, 3)
            s = rng.below(dl[d]) if rng.chance(1, 2) else 0
            c = rng.range(1, (dl[d] - 1 - s) // k + 1)
            if rng.chance(1, 2):
                c = (dl[d] - 1 - s) // k + 1          # as many planes as fit (>= 3 planes with a stride are common)
            st.append(s); ct.append(c); sr.append(k)
        lines.append('F %d %d %d %d %s' % (nd, el, rng.below(5000), rng.range(-300, 300),
                                           ' '.join(str(x) for x in dl + st + ct + sr)))
    return lines


def gen_bufruns(rng, n):
    """G lines: requests (buffer address, size) for the buffer-type loop of mgetput: runs of adjacent buffers,
    jumps forwards and backwards, a buffer adjacent to the START of the current run, equal addresses"""
    lines = []
    for _ in range(n):
        m = rng.range(2, 9)
        a = rng.range(-2000, 2000)
        reqs = []
        runstart = a
        for i in range(m):
            sz = rng.choice([1, 2, 4, 4, 8, 16, 24])
            reqs.append((a, sz))
            r = rng.below(10)
            if r < 5:
                a = a + sz                       # adjacent: extends the run
            elif r < 7:
                a = a + sz + rng.range(1, 64); runstart = a
            elif r < 8:
                a = runstart + sz; runstart = a   # where the run would end if it had only its first request
            elif r < 9:
                a = a - rng.range(1, 200); runstart = a
            else:
                a = runstart                      # back to the run start
        lines.append('G %d %s' % (m, ' '.join('%d %d' % r for r in reqs)))
    return lines


def unit_spec_check(req, ans):
    """F: the segments must expand to the row-major element offsets of the subarray, with consecutive buffer addresses;
       G: the blocks must cover the bytes of the requests' buffers in request order.  Returns a description or None."""
    tk = req.split()
    try:
        if tk[0] == 'F':
            nd, el, offset, baddr = int(tk[1]), int(tk[2]), int(tk[3]), int(tk[4])
            v = [int(x) for x in tk[5:]]
            dl, st, ct, sr = v[:nd], v[nd:2 * nd], v[2 * nd:3 * nd], v[3 * nd:4 * nd]
            want = []

            def rec(d, lin):
                if d == nd:
                    want.append(offset + lin * el); return
                for i in range(ct[d]):
                    rec(d + 1, lin * dl[d] + st[d] + i * sr[d])
            rec(0, 0)
            segs = [tuple(int(x) for x in s.split(',')) for s in ans.split()[2:]]
            got, bufs = [], []
            for (o, ln, b) in segs:
                for j in range(ln // el):
                    got.append(o + j * el); bufs.append(b + j * el)
            if got != want:
                return 'vars_flatten: element offsets %s..., specified %s...' % (got[:8], want[:8])
            if bufs != [baddr + j * el for j in range(len(want))]:
                return 'vars_flatten: buffer addresses of the segments are not consecutive: %s...' % bufs[:8]
        elif tk[0] == 'G':
            v = [int(x) for x in tk[2:]]
            reqs = list(zip(v[0::2], v[1::2]))
            want = [a + j for a, sz in reqs for j in range(sz)]
            blocks = [tuple(int(x) for x in s.split(',')) for s in ans.split()[2:]]
            got = [reqs[0][0] + d + j for d, ln in blocks for j in range(ln)]
            if got != want:
                return 'mgetput buffer type covers bytes %s..., the requests own %s...' % (got[:10], want[:10])
    except Exception as ex:
        return 'unparsable answer %r (%s)' % (ans, ex)
    return None


def gen_unit(rng, n):
    lines = []
    for k in range(n):
        m = rng.range(1, 10)
        segs = []
        mode = rng.below(4)
        off = rng.below(5)
        buf = 0
        for i in range(m):
            ln = rng.range(1, 6)
            if mode == 0:      # disjoint increasing, sometimes adjacent with contiguous buffers
                off += rng.choice([0, 0, 1, 3])
                segs.append([off, ln, buf]); off += ln; buf += ln + rng.choice([0, 0, 2])
            elif mode == 1:    # heavy overlap
                segs.append([rng.below(12), ln, rng.below(200) if i else 0])
            elif mode == 2:    # interleaved columns: two requests with stride
                segs.append([(i % 2) * 2 + (i // 2) * 8, 2, (i % 2) * 40 + (i // 2) * 2])
            else:
                segs.append([rng.below(40), ln, (rng.below(30) * 4) if i else 0])
        if mode in (1, 3) and rng.chance(1, 2):
            segs = rng.shuffle(segs)
        if rng.chance(1, 6) and m >= 2:
            segs[1] = list(segs[0]); segs[1][2] = segs[0][2] + 100       # identical range, other buffer
        lines.append('M %d %s' % (len(segs), ' '.join('%d %d %d' % tuple(s) for s in segs)))
    return lines


LEAN_FILES = ['PnVerif/Model/Merge.lean', 'PnVerif/Model/ReqQueue.lean', 'PnVerif/Lemmas/MergeLemmas.lean',
              'PnVerif/Lemmas/ReqQueueLemmas.lean', 'PnVerif/Lemmas/ReqQueueWait.lean', 'PnVerif/Lemmas/ReqQueueInv.lean',
              'PnVerif/Lemmas/ReqQueueFixed.lean', 'PnVerif/Model/Flatten.lean', 'PnVerif/Lemmas/FlattenLemmas.lean',
              'PnVerif/Props/C02.lean', 'Driver/C02.lean']


def run_check(tier, seed):
    V = Verdict(PROP, tier, seed)
    rng = SplitMix64(seed * 1000003 + 2)
    V.assumptions = [
        'MPI semantics assumed (Model/Merge.lean `transfer`): a read/write with an hindexed file type and an hindexed buffer type moves the k-th byte of the flattened buffer type to/from the k-th byte of the flattened file type',
        'the queue model abstracts the fields of NC_lead_req/NC_req that the queue code only copies (buffers, start/count arrays, datatypes) to opaque tags; the put and the get copy of every loop share one model function and both are driven by the harness',
        'glibc qsort is stable for the array sizes used (merge sort); the merge theorems hold for any order of equal offsets',
        'grouping of requests into interleaved / non-interleaved groups (req_aggregation) and the FILE-type construction of non-interleaved groups (construct_filetypes) are covered by the blocking-call oracle only; vars_flatten and the buffer-type loop of mgetput are modelled (Model/Flatten.lean) under the side conditions stated in the theorems (all counts >= 1, no request flagged NC_REQ_SKIP)',
        'file layout (variable begin offsets, record size) is an input of the queue model, read from the implementation and checked against the script header',
    ]
    V.cov['trusted_base'] = TRUSTED_BASE_COMMON + ['harness/c02_nb.c, harness/c02_unit.c and the generators in checks/c02.py (differential, not proof)',
                                                   'Lean driver lean/Driver/C02.lean (parsing/printing only)']
    tree = build_impl('plain')
    wd = workdir('c02')
    try:
        # ---- S3
        ok, out = lake_build(['PnVerif.Props.C02', 'c02drv'])
        failed_thms = set()
        if not ok:
            for f, ln, msg in lake_errors(out):
                t = theorem_at(f, ln)
                if t:
                    failed_thms.add(t)
            log('[S3] lake build FAILED; theorems that no longer check:', sorted(failed_thms)[:20])
        obl = obligations_of('PnVerif/Props/C02.lean')
        discharged, bad = axiom_audit('PnVerif.Props.C02', obl, 'PnVerif.Props.C02') if ok else ([], [])
        forb = grep_forbidden([os.path.join(LEAN, f) for f in LEAN_FILES])
        V.cov['obligations'] = len(obl)
        V.cov['discharged'] = len(discharged)
        V.cov['checker_cmd'] = 'cd lean && lake build PnVerif.Props.C02 c02drv && lake env lean <#print axioms of every name in Props.C02.obligations>'
        if tier == 'thorough' and ok:
            lc = leanchecker(['PnVerif.Props.C02'])
            V.cov['leanchecker'] = 'ok' if not lc else str(lc)
            if lc:
                bad.append(('leanchecker', lc))
        proof_broken = (not ok) or bad or forb or not obl
        drv = os.path.join(LEAN, '.lake/build/bin/c02drv')
        inc = ['-DHAVE_CONFIG_H', '-I' + os.path.join(tree, 'src/drivers/ncmpio'), '-I' + os.path.join(tree, 'src/drivers/include'),
               '-I' + os.path.join(tree, 'src/include')]
        tie_diffs, fails = [], []
        dist = {}
        nontrivial = set()
        evaluations = 0
        # ---- S4 unit stream
        try:
            uexe = cc(tree, [os.path.join(VERIF, 'harness/c02_unit.c')], os.path.join(wd, 'c02_unit'), extra=inc)
        except BuildFailed as ex:
            V.broken_tie('harness c02_unit.c no longer compiles against the tree (static function signature changed?)', str(ex)[-1500:])
            return V.finish()
        ulines = ['M 2 0 4 0 0 4 100', 'M 3 0 10 0 2 10 50 5 8 200', 'M 3 10 4 0 0 4 4 4 6 8', 'M 4 0 4 0 4 4 4 8 4 100 12 4 104']
        ulines += gen_unit(rng, 3000 if tier == 'thorough' else 400)
        ulines += ['F 2 4 100 0 3 5 0 1 2 2 2 2', 'F 3 2 1000 -16 4 3 5 1 0 1 2 2 3 2 2 1', 'G 5 1000 8 1008 4 2000 4 1012 4 1016 4']
        ulines += gen_flatten(rng, 3000 if tier == 'thorough' else 400)
        ulines += gen_bufruns(rng, 2000 if tier == 'thorough' else 300)
        uin = '\n'.join(ulines) + '\n'
        rc, uo, ue = mpirun(1, [uexe, wd], stdin=uin, timeout=300)
        pl = subprocess.run([drv, 'unit'], input=uin, stdout=subprocess.PIPE, stderr=subprocess.PIPE, text=True) if os.path.exists(drv) else None
        uo_l = [l for l in uo.split('\n') if l[:2] in ('M ', 'F ', 'G ') or l.startswith('bad')]
        ul_l = pl.stdout.split('\n') if pl else []
        if rc != 0 or len(uo_l) < len(ulines):
            tie_diffs.append(('unit', 'harness rc=%s lines=%d/%d %s' % (rc, len(uo_l), len(ulines), ue[-300:])))
        else:
            for k, l in enumerate(ulines):
                evaluations += 1
                a = uo_l[k].strip(); b = ul_l[k].strip() if k < len(ul_l) else '<missing>'
                op = l[0]
                nin = int(l.split()[1]); nout = int(a.split()[1]) if a[:2] in ('M ', 'F ', 'G ') else -1
                if op == 'M':
                    if nout != nin:
                        nontrivial.add(l); dist['unit-merged'] = dist.get('unit-merged', 0) + 1
                    else:
                        dist['unit-unchanged'] = dist.get('unit-unchanged', 0) + 1
                elif op == 'F':
                    dist['flatten'] = dist.get('flatten', 0) + 1
                    if nin >= 2 and nout >= 2:
                        nontrivial.add(l); dist['flatten-multidim-multiseg'] = dist.get('flatten-multidim-multiseg', 0) + 1
                else:
                    dist['bufruns'] = dist.get('bufruns', 0) + 1
                    if 1 < nout < nin:
                        nontrivial.add(l); dist['bufruns-partly-fused'] = dist.get('bufruns-partly-fused', 0) + 1
                if a != b:
                    tie_diffs.append(('unit', l, a, b))
                # the property's own oracle on the implementation's answer (specification side, computed here)
                why = unit_spec_check(l, a)
                if why:
                    fails.append(('unit-' + ('vars_flatten' if op == 'F' else 'mgetput-buftype') + '-wrong', why,
                                  dict(request=l, implementation=a, model=b, harness='harness/c02_unit.c')))
        log('[S4] unit stream: %d requests (merge_requests, vars_flatten, mgetput buffer type), %d differences' % (len(ulines), len(tie_diffs)))
        # ---- S4 nb stream
        try:
            nexe = cc(tree, [os.path.join(VERIF, 'harness/c02_nb.c')], os.path.join(wd, 'c02_nb'), extra=inc)
        except BuildFailed as ex:
            V.broken_tie('harness c02_nb.c no longer compiles against the tree', str(ex)[-1500:])
            return V.finish()
        # layout probe
        probe = os.path.join(wd, 'probe.txt')
        open(probe, 'w').write('CASE 0 1 0\nEND 0\n')
        rc, so, se = mpirun(1, [nexe, probe, os.path.join(wd, 'probe.out'), wd], timeout=60)
        try:
            lay = open(os.path.join(wd, 'probe.out.0')).readline().split()
            layout = [int(x) for x in lay[3:]]
            assert len(layout) == NVARS + 1
        except Exception as ex:
            V.broken_tie('harness c02_nb failed on the layout probe', 'rc=%s %s %s' % (rc, se[-500:], ex))
            return V.finish()
        # which variant of the three repairable code sites does this tree have?  Replay the witnesses of F21, F19, F4b.
        vlines = ['L %d %s' % (NVARS, ' '.join(str(x) for x in layout))]
        for k, (fc, fm, ff) in enumerate(FIXED_CASES):
            vlines.append('CASE %d 1 65536' % k); vlines += fc
        open(probe, 'w').write('\n'.join(vlines) + '\n')
        rc, so, se = mpirun(1, [nexe, probe, os.path.join(wd, 'vprobe.out'), wd], timeout=120)
        flags = ''
        try:
            pc = split_cases([l for l in open(os.path.join(wd, 'vprobe.out.0')).read().split('\n') if l])
            w21 = [l for l in pc[5] if l.startswith('W ')][0]
            if numrecs_of(w21) == 4:
                flags += 'n'
            w19 = [l for l in pc[3] if l.startswith('W ')][0]
            if '[0.0.1.0 ' in w19:
                flags += 'r'
            w4 = [l for l in pc[1] if l.startswith('W ')][0]
            if ' n=1 ' in w4:
                flags += 's'
        except Exception as ex:
            V.broken_tie('variant probe failed', 'rc=%s %s %s' % (rc, (se or '')[-300:], ex))
            return V.finish()
        flags = flags or '-'
        V.cov['code_variant'] = dict(flags=flags, numrecs_all_leads='n' in flags, refusal_clears_marks='r' in flags,
                                     shortcuts_check_ids='s' in flags)
        log('[S4] code variant of the tree: %s (n = F21 repaired, r = F19 repaired, s = F4 repaired)' % flags)
        ncases = {1: 140, 2: 24, 3: 12} if tier == "quick" else {1: 4000, 2: 600, 3: 300}
        samples = []
        caseno = 0
        for nr in (1, 2, 3):
            lines = ['L %d %s' % (NVARS, ' '.join(str(x) for x in layout))]
            metas = []
            if nr == 1:
                for fc, fm, fflags in FIXED_CASES:
                    lines.append('CASE %d 1 65536' % caseno); caseno += 1
                    lines += fc
                    metas.append([dict(op='CASE', **fflags)] + fm)
            for c in range(ncases[nr]):
                g = CaseGen(rng, caseno, nr, allow_read_overlap=rng.chance(1, 4), misuse=(nr == 1 and rng.chance(1, 2)))
                caseno += 1
                cl, cm = g.build(rng.range(3, 14))
                lines += cl
                metas.append(cm)
            script = os.path.join(wd, 'nb%d.txt' % nr)
            open(script, 'w').write('\n'.join(lines) + '\n')
            outp = os.path.join(wd, 'nb%d.out' % nr)
            rc, so, se = mpirun(nr, [nexe, script, outp, wd], timeout=600)
            if rc != 0:
                # the real library crashed / hung / aborted while executing a script of valid API calls: that is a
                # failing input by itself; the case being executed is the replay
                lastcase = -1
                for rank in range(nr):
                    try:
                        for l in open(outp + '.%d' % rank):
                            if l.startswith('CASE '):
                                lastcase = max(lastcase, int(l.split()[1]))
                    except OSError:
                        pass
                first = int(lines[1].split()[1]) if len(lines) > 1 and lines[1].startswith('CASE') else 0
                kind = 'hang' if rc in (142, -999) else 'crash'
                fails.append(('library-%s' % kind, 'harness c02_nb on %d rank(s) ended with rc=%s in case %d: %s'
                              % (nr, rc, lastcase, (se or so)[-300:]),
                              dict(nranks=nr, rc=rc, case=lastcase, script=_case_lines(lines, lastcase - first) if lastcase >= 0 else lines[:50])))
                continue
            if len(samples) < 3:
                samples.append(lines[1:12])
            for rank in range(nr):
                co = [l for l in open(outp + '.%d' % rank).read().split('\n') if l]
                pm = subprocess.run([drv, 'nb', str(rank), flags], input='\n'.join(lines) + '\n', stdout=subprocess.PIPE, stderr=subprocess.PIPE, text=True)
                mo = [l for l in pm.stdout.split('\n') if l]
                cnd = [l for l in co if not l.startswith('D ') and not l.startswith('DE ')]
                evaluations += len(cnd)
                if len(cnd) != len(mo):
                    tie_diffs.append(('nb', 'rank %d/%d: %d implementation lines, %d model lines' % (rank, nr, len(cnd), len(mo))))
                for a, b in zip(cnd, mo):
                    if a != b and not (a.startswith('P ') and 'err=*' in b and a.split(' id=')[1:] == b.split(' id=')[1:]):
                        tie_diffs.append(('nb', 'rank %d/%d' % (rank, nr), a, b))
                # distribution + non-trivial
                for a in cnd:
                    tg = a.split()[0]
                    dist[tg] = dist.get(tg, 0) + 1
                ccases = split_cases(co)
                if len(ccases) != len(metas):
                    tie_diffs.append(('nb', 'rank %d/%d: %d cases in output, %d generated' % (rank, nr, len(ccases), len(metas))))
                    continue
                for ci, (cl_out, cm) in enumerate(zip(ccases, metas)):
                    my = [m for m in cm if m['op'] == 'CASE' or m.get('rank') == rank]
                    v = judge_case(cl_out, my)
                    for m in my:
                        if m['op'] in ('W', 'X') and m['num'] >= 0 and 0 < len(set(m['exp'])) < m['pend_before']:
                            nontrivial.add((nr, rank, ci, 'subset', tuple(m['toks'])))
                            dist['subset-wait'] = dist.get('subset-wait', 0) + 1
                        if m['op'] == 'W' and m.get('shortcut'):
                            dist['shortcut-' + m['shortcut']] = dist.get('shortcut-' + m['shortcut'], 0) + 1
                        if m['op'] == 'P' and m.get('info', {}).get('nsubs', 0) > 1:
                            nontrivial.add((nr, rank, ci, 'split', m['info']['h']))
                            dist['multi-nonlead'] = dist.get('multi-nonlead', 0) + 1
                    if v:
                        fails.append((v[0], v[1], dict(nranks=nr, rank=rank, case=ci, script=[l for l in _case_lines(lines, ci)])))
                        dist['deviation:' + v[0]] = dist.get('deviation:' + v[0], 0) + 1
        log('[S4] nb stream: %d cases, %d result lines, %d tie differences, %d property deviations'
            % (caseno, evaluations, len(tie_diffs), len(fails)))
        V.cov['evaluations'] = evaluations
        V.cov['distinct_nontrivial'] = len(nontrivial)
        V.cov['traces_validated_against_impl'] = evaluations - len(tie_diffs)
        V.cov['rule'] = ('unit: random off-len-buf lists (disjoint, overlapping, interleaved columns, identical ranges, shuffled) through merge_requests+type_create_off_len and the model; vars_flatten on random 1-4 dimensional shapes/subarrays/strides/element sizes; the buffer-type loop of mgetput (called on a scratch file, MPI_Type_create_hindexed intercepted) on random runs of adjacent / non-adjacent buffers; '
                         'nb: type-directed random cases over 8 variables (fixed/record, scalar, 5 external types): iput/iget/bput x vara/vars/varm(imap)/varn x native/converting/derived-type buffers, '
                         'write-disjoint, completed by wait/wait_all/cancel with explicit shuffled id lists (NULL, unknown, repeated ids in single-rank cases), NC_REQ_ALL/GET/PUT, 1-3 ranks; '
                         'every result line (return code, ids, statuses, pending count, full queue dump of struct NC) is diffed with the model, data compared with blocking calls on a second file. '
                         'non-trivial = unit list that the merge changes, a flatten request with >= 2 dimensions and >= 2 segments, a buffer list that is partly fused, wait/cancel of a proper non-empty subset of the pending set, or a request split into several non-lead requests; distinct by (case, op)')
        V.cov['distribution'] = dist
        V.cov['samples'] = samples + [ulines[4], ulines[5]]
        # ---- S4m API-level "mix" programs (checks/apigen.gen_mix_program): several interleaving strided nonblocking requests per
        #      rank completed by one wait, varn calls with many permuted segments, 1-3 ranks, against the abstract dataset
        #      specification (lean/Driver/Api.lean) -- reaches vars_flatten / mgetput coalescing / merge of interleaved lists
        import apigen, apicmp
        mix_fail = 0
        if os.path.exists(apicmp.APIDRV):
            aexe = apicmp.build_apirun(tree, wd)
            nmix = 100 if tier == 'thorough' else 30
            mrng = SplitMix64(seed * 104729 + 17)
            ml_, mt_, mix_fail, mn_ = apicmp.run_programs(
                V, aexe, wd, (((apigen.gen_cancel_program(mrng, 'c02_m%d.nc' % k_, n_) if k_ % 5 == 4 else apigen.gen_mix_program(mrng, 'c02_m%d.nc' % k_, n_, focus=[None, 'burst', None, 'recvarn'][k_ % 4])), n_) for k_ in range(nmix) for n_ in [mrng.choice([1, 1, 2, 3])]),
                tier, 'C02:api-mix', 'several nonblocking requests completed by one wait (or one varn call with many segments) do not give the result of the same requests executed one by one', tagprefix='mix')
            V.cov['evaluations'] += ml_
            V.cov['distribution'] = dict(V.cov['distribution'], mix_programs=mn_, mix_result_lines=ml_, mix_tags=mt_)
            V.cov['distinct_nontrivial'] += len(mt_)
        # ---- S5
        new_fail = 0
        seen_sig = set()
        for sig, desc, rep in fails:
            if V.failing_input(sig, desc, rep, tag='nb%d' % new_fail):
                if sig not in seen_sig:
                    seen_sig.add(sig)
                new_fail += 1
                if new_fail >= 5:
                    break
        if new_fail == 0 and mix_fail == 0:
            if tie_diffs:
                V.broken_tie('correspondence stream %s: model and implementation differ' % tie_diffs[0][0], [list(map(str, t)) for t in tie_diffs[:10]])
            if proof_broken:
                V.broken_tie('proof obligations no longer check',
                             dict(failed_theorems=sorted(failed_thms), axiom_audit=[(a, str(b)) for a, b in bad[:10]], forbidden=forb[:10],
                                  lake_tail=out[-1500:] if not ok else ''))
        return V.finish()
    finally:
        cleanup(wd)


def _case_lines(lines, ci):
    k = -1
    res = [lines[0]]
    for l in lines[1:]:
        if l.startswith('CASE '):
            k += 1
        if k == ci:
            res.append(l)
    return res


if __name__ == '__main__':
    tier, seed, replay = args(sys.argv[1:])
    sys.exit(run_check(tier, seed))
