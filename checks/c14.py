#!/usr/bin/env python3
"""C14 — API mode state machine and error precedence (DESIGN.md §4 C14).

S3  lake build PnVerif.Props.C14 (+ c14drv), axiom audit, forbidden-construct grep.
S4  exhaustive call histories on the REAL library (harness/c14_mode.c, public API, flag words of both layers
    read back after every call) against the two-layer model (Model/Mode.lean) and, independently, against the
    documented automaton (Spec/ModeSpec.lean); both are run by lean/Driver/C14.lean on the same script.
S5  property oracle = documented code / documented mode / "rejected call has no effect" evaluated on the
    implementation's outputs; tie = model vs implementation.
"""
import os, sys, json, subprocess, itertools
sys.path.insert(0, os.path.dirname(os.path.abspath(__file__)))
from common import *

PROP = 'C14'
LEAN_FILES = ['PnVerif/Model/Mode.lean', 'PnVerif/Spec/ModeSpec.lean', 'PnVerif/Lemmas/Mode.lean',
              'PnVerif/Props/C14.lean', 'Driver/C14.lean']

MODE_CALLS = ['enddef', 'redef', 'begin', 'end', 'close', 'abort', 'enddefargs 0']
PREFIXES = [[], ['attach 1'], ['post iput f 0 0 vara'], ['attach 1', 'post bput f 0 0 vara'], ['post iget f 0 0 vara']]
REJECT = {-33, -37, -39, -38, -203, -202}
MINI5 = set(MODE_CALLS) | {'inq inq', 'rw 1 1 f 0 0 vara'}
MINI = set(MODE_CALLS) | {'inq inq', 'rw 1 1 f 0 0 vara', 'post iput f 0 0 vara', 'defdim 0', 'sync', 'detach'}


def probes(has_rec, opened):
    """every API family with every argument class; (line, is_core)"""
    P = []

    def add(s, core=False):
        P.append((s, core))
    for m in MODE_CALLS:
        add(m, True)
    add('enddefargs 1', True)
    # define-mode family
    add('defdim 0', True); add('defdim 1')
    add('defvar 0 0', True); add('defvar 0 1'); add('defvar 1 0')
    for v in 'gbf' + ('r' if has_rec else ''):
        add('defvarfill ' + v, v == 'f')
    add('setfill', True)
    for a in ('g 0 1', 'f 0 1', 'b 0 1', 'g 1 1', 'g 0 0', 'f 0 0'):
        add('delatt ' + a, a == 'g 0 1')
    # attributes: putatt v nameBad typeBad charMix negLen exists oldType oldCount newType newCount name
    #   the attribute overwritten is o<type><count> of the schema (harness/c14_mode.c ATTS); the new value realises
    #   "needs more header space" in every way: same type more / fewer elements, wider type same count, wider type
    #   fewer elements but more bytes, narrower type more elements in the same or less space, text <-> numeric,
    #   and both sides of the 4-byte padding (3 -> 4 chars stays in the padded word, 4 -> 5 does not; 2 -> 3 shorts ...)
    OVER = [('i', 2, 'i', 2), ('i', 2, 'i', 3), ('i', 2, 'i', 1), ('i', 1, 'd', 1), ('i', 3, 'd', 2), ('i', 2, 'd', 1),
            ('i', 2, 's', 4), ('i', 2, 's', 3), ('i', 2, 's', 5), ('i', 1, 's', 2), ('i', 1, 's', 3), ('d', 1, 'i', 2),
            ('d', 1, 'i', 3), ('d', 2, 'i', 4), ('d', 1, 'c', 8), ('i', 1, 'c', 3), ('i', 1, 'c', 4), ('i', 1, 'c', 5),
            ('c', 3, 'c', 4), ('c', 4, 'c', 5), ('c', 5, 'c', 8), ('c', 5, 'c', 3), ('c', 4, 'i', 1), ('c', 4, 'i', 2),
            ('c', 3, 's', 2), ('c', 3, 's', 3), ('s', 2, 's', 3), ('s', 3, 's', 4), ('s', 3, 's', 5), ('s', 3, 'i', 2),
            ('s', 2, 'i', 2), ('b', 3, 'b', 4), ('b', 3, 'b', 5), ('b', 3, 's', 2), ('d', 2, 'd', 2), ('d', 1, 'd', 2),
            ('i', 2, 'f', 2), ('i', 2, 'f', 3), ('i', 1, 'i', 0), ('c', 3, 'c', 0)]
    CORE_OVER = {('i', 2, 'i', 2), ('i', 2, 'i', 3), ('i', 1, 'd', 1), ('i', 3, 'd', 2), ('i', 2, 's', 4), ('c', 3, 'c', 4),
                 ('c', 4, 'c', 5), ('i', 1, 'c', 5)}
    for k, (ot, on, nt, nn) in enumerate(OVER):
        for v in ('g', 'f'):
            if v == 'f' and k % 2:
                continue
            add('putatt %s 0 0 0 0 1 %s %d %s %d o%s%d' % (v, ot, on, nt, nn, ot, on), (ot, on, nt, nn) in CORE_OVER and v == 'g')
    add('putatt g 0 0 0 0 0 i 0 i 2 zz', True)           # new attribute
    add('putatt f 0 0 0 0 0 i 0 c 3 zz')
    add('putatt g 0 0 0 0 0 i 0 i 0 zz')                 # new, empty
    for a in ('b 0 0 0 0 1 i 2 i 2 oi2', 'g 1 0 0 0 1 i 2 i 2 oi2', 'g 0 1 0 0 1 i 2 i 2 oi2', 'g 0 0 1 0 1 i 2 i 2 oi2',
              'g 0 0 0 1 1 i 2 i 2 oi2', 'b 1 1 1 1 1 i 2 i 4 oi2', 'g 1 1 1 1 0 i 0 i 2 zz', 'g 0 1 1 1 1 i 2 i 4 oi2',
              'g 0 0 1 1 1 i 2 i 4 oi2', 'g 0 0 0 1 0 i 0 i 2 zz', 'g 0 0 0 1 1 i 2 i 4 oi2'):
        add('putatt ' + a, a == 'g 0 0 0 1 1 i 2 i 4 oi2')
    for a in ('g 0 1', 'g 0 0', 'f 0 1', 'b 0 1', 'g 1 1'):
        add('getatt ' + a, a == 'g 0 1')
    # copyatt vinBad voutBad nameBad srcExists dstExists srcType srcCount dstType dstCount name   (global -> fv)
    PAIRS = [('i', 3, 'i', 2), ('d', 1, 'i', 1), ('d', 2, 'i', 3), ('s', 4, 'i', 2), ('s', 3, 'i', 2), ('c', 3, 'i', 1),
             ('c', 5, 'i', 1), ('i', 1, 'c', 4), ('i', 2, 'c', 4), ('c', 4, 'c', 3), ('c', 5, 'c', 4), ('i', 2, 'i', 2),
             ('i', 1, 'd', 1)]
    for k, (st, sn, dt, dn) in enumerate(PAIRS):
        add('copyatt 0 0 0 1 1 %s %d %s %d p%d' % (st, sn, dt, dn, k), k in (0, 1, 3, 9))
    add('copyatt 0 0 0 1 0 i 2 i 0 ga', True)             # no attribute of that name at the destination
    add('copyatt 0 0 0 0 0 i 0 i 0 nonexist')
    add('copyatt 1 0 0 1 1 i 2 i 2 p11'); add('copyatt 0 1 0 1 1 i 2 i 2 p11'); add('copyatt 0 0 1 1 1 i 2 i 2 p11')
    add('copyatt 1 1 1 0 0 i 0 i 0 nonexist')
    # renameatt v nameBad exists newInUse oldLen newLen oldname : shorter / equal / longer inside and across the padded word
    for old in ('ga', 'oi1'):
        for nl in (1, 2, 3, 4, 5):
            add('renameatt g 0 1 0 %d %d %s' % (len(old), nl, old), old == 'ga' and nl in (2, 3))
    for nl in (1, 2, 3, 5):
        add('renameatt f 0 1 0 2 %d va' % nl)
    for a in ('g 0 1 1 2 2 ga', 'g 0 0 0 8 2 nonexist', 'g 0 0 1 8 2 nonexist', 'b 0 1 0 2 2 va', 'g 1 1 0 2 2 ga', 'b 1 0 1 8 2 nonexist'):
        add('renameatt ' + a)
    # renamevar v nameBad inUse oldLen newLen (old names have 2 bytes)
    for nl in (1, 2, 3, 4, 5):
        add('renamevar f 0 0 2 %d' % nl, nl in (2, 3))
    for a in ('f 0 1 2 2', 'c 0 0 2 5', 'c 0 0 2 1', 'g 0 0 2 2', 'b 0 0 2 2', 'f 1 0 2 2', 'g 1 1 2 9') + \
            (('r 0 0 2 2', 'r 0 0 2 3') if has_rec else ()):
        add('renamevar ' + a)
    # renamedim nameBad dimBad inUse oldLen newLen (dim x: 1 byte, dim xlong: 5 bytes)
    for ol, nl in ((1, 1), (1, 2), (1, 4), (1, 5), (5, 1), (5, 4), (5, 5), (5, 6), (5, 8), (5, 9)):
        add('renamedim 0 0 0 %d %d' % (ol, nl), (ol, nl) in ((1, 1), (1, 2)))
    for a in ('0 0 1 1 1', '0 1 0 1 1', '1 0 0 1 1', '1 1 1 1 9', '0 1 1 1 1'):
        add('renamedim ' + a)
    # blocking access: isPut coll v text coordBad flavour
    for is_put in (1, 0):
        for coll in (1, 0):
            base = [('f 0 0 vara', True), ('f 0 1 vara', True), ('f 1 0 vara', False), ('c 1 0 vara', False),
                    ('c 0 0 vara', False), ('g 0 0 vara', True), ('b 0 0 vara', False), ('b 1 1 vara', False),
                    ('g 1 1 varn', False),
                    ('f 0 0 var1', False), ('f 0 0 var', False), ('f 0 0 vars', False), ('f 0 0 varm', False),
                    ('f 0 0 varn', False), ('f 0 0 flex', False), ('f 0 0 vard', False), ('f 0 0 mvar', False),
                    ('f 0 1 var1', False), ('f 0 1 varn', False), ('f 0 1 mvar', False), ('f 0 1 vars', False),
                    ('b 0 0 mvar', False), ('b 0 0 vard', False), ('c 1 0 var', False),
                    # zero-length forms (trailing z): num == 0 for varn, a zero in count[], bufcount == 0, null filetype.
                    # The ncid / permission / mode / varid tests still come first.
                    ('f 0 0 varn z', True), ('g 0 0 varn z', False), ('b 0 0 varn z', False), ('f 1 0 varn z', False),
                    ('f 0 0 vara z', True), ('f 0 1 vara z', False), ('g 0 0 vara z', False), ('f 0 0 vars z', False),
                    ('f 0 0 varm z', False), ('f 0 0 flex z', False), ('f 0 1 flex z', False), ('f 0 0 vard z', False),
                    ('b 0 0 vard z', False), ('f 0 0 mvar z', False)]
            if has_rec and (is_put or opened):
                base += [('r 0 0 vara', False), ('r 0 1 vara', False), ('r 0 0 vara z', False), ('r 0 0 varn z', False)]
            for a, core in base:
                add('rw %d %d %s' % (is_put, coll, a), core)
    for k in ('iput', 'iget', 'bput'):
        base = [('f 0 0 vara', True), ('f 0 1 vara', False), ('f 1 0 vara', False), ('g 0 0 vara', False),
                ('b 0 0 vara', False), ('c 1 0 vara', False), ('f 0 0 var1', False), ('f 0 0 varn', False),
                ('b 1 1 varn', False), ('f 0 0 flex', False),
                ('f 0 0 varn z', True), ('g 0 0 varn z', False), ('f 1 0 varn z', False), ('f 0 0 vara z', False),
                ('f 0 1 vara z', False), ('f 0 0 flex z', False), ('f 0 1 flex z', False)]
        if has_rec and (k != 'iget' or opened):
            base += [('r 0 0 vara', False)]
        for a, core in base:
            add('post %s %s' % (k, a), core)
    for a in ('0 0', '0 1', '1 0', '1 1'):
        add('wait ' + a, a in ('0 0', '1 0'))
    add('cancel 0', True); add('cancel 1')
    add('sync', True); add('syncnumrecs', True); add('flush', True)
    for v in 'fc' + ('r' if has_rec else ''):
        add('fillvarrec ' + v, v in 'fr')
    add('attach 1', True); add('attach 0'); add('detach', True)
    for f in ('inq', 'ndims', 'format', 'unlimdim', 'dimlen', 'varid', 'natts', 'attname', 'recsize', 'hdrsize',
              'nrecvars', 'putsize', 'varoffset', 'version'):
        add('inq ' + f, f == 'inq')
    for v in 'fgb':
        add('inqvar ' + v, v == 'f')
    add('inqnreqs', True); add('inqbuf usage', True); add('inqbuf size')
    return P


def gen_script(tier, rng, cfg):
    """-> list of script lines, list of meta (case id, kind) per line"""
    # full probe set up to depth_full, core probes up to depth_core, the mode calls themselves (+ a few probes,
    # with the state read back after every call) up to depth_mini
    depth_full, depth_core, depth_mini = (2, 3, 3) if tier == 'quick' else (3, 4, 5)
    lines, meta = [], []
    ncase = 0
    starts = [('created', 1), ('openrw', 1), ('openro', 1), ('created', 0), ('openrw', 0), ('openro', 0)]
    for kind, has_rec in starts:
        opened = kind != 'created'
        PR = probes(has_rec, opened)
        # deepest histories from `created` (it reaches every mode), one level less from opened-writable, and a
        # read-only file (where redef is refused and little can happen) up to depth 3
        if not has_rec:
            maxd = min(depth_core, 2 if tier == 'quick' else 3)
        elif kind == 'created':
            maxd = depth_mini
        elif kind == 'openrw':
            maxd = depth_core
        else:
            maxd = min(depth_core, 3)
        for d in range(0, maxd + 1):
            for seqc in itertools.product(MODE_CALLS, repeat=d):
                # prefixes: all of them on short histories, a seeded one on the long ones
                if d <= 1 or (tier == 'thorough' and d <= 2):
                    prefs = PREFIXES
                elif d <= depth_full:
                    prefs = [PREFIXES[0], PREFIXES[1 + rng.below(len(PREFIXES) - 1)]]
                else:
                    prefs = [PREFIXES[0]]
                # once the ncid is released every call answers NC_EBADID: a small probe set is enough there
                closed_early = any(c in ('close', 'abort') for c in seqc[:-1])
                closed_last = d > 0 and seqc[-1] in ('close', 'abort')
                for pre in prefs:
                    full = ((d <= depth_full) and has_rec or (d <= 1)) and not closed_last
                    ncase += 1
                    cid = ncase
                    pend = any(c.startswith('post') for c in pre)
                    lines.append('S %s %d %d' % (kind, has_rec, cfg)); meta.append((cid, 'S', pend))
                    for c in pre:
                        lines.append('C ' + c); meta.append((cid, 'C', pend))
                    for c in seqc:
                        lines.append('C ' + c); meta.append((cid, 'C', pend))
                    for p, core in PR:
                        if d > depth_core:
                            take = p in MINI5
                        elif closed_early:
                            take = p in MINI
                        else:
                            take = full or core
                        if take:
                            lines.append('P ' + p); meta.append((cid, 'P', pend))
                    lines.append('E'); meta.append((cid, 'E', pend))
    return lines, meta, ncase


def parse_fields(tokens):
    d = {}
    for t in tokens:
        if '=' in t:
            k, v = t.split('=', 1)
            d[k] = v
        else:
            d[t] = True
    return d


def mode_of(word):
    return 'define' if word & 0x2000 else ('indep' if word & 0x4000 else 'coll')


def run_harness(hexe, script_lines, wd, tag, nranks=1, timeout=1500, safe='0'):
    sp = os.path.join(wd, tag + '.script')
    rp = os.path.join(wd, tag + '.result')
    fd = os.path.join(wd, tag + '.files')
    os.makedirs(fd, exist_ok=True)
    with open(sp, 'w') as f:
        f.write('\n'.join(script_lines) + '\n')
    rc, out, err = mpirun(nranks, [hexe, sp, rp, fd, str(timeout - 20)], timeout=timeout,
                          env={'PNETCDF_SAFE_MODE': safe, 'PNETCDF_HINTS': ''})
    try:
        res = open(rp).read().split('\n')
    except OSError:
        res = []
    return rc, res, err


def run_driver(script_lines):
    drv = os.path.join(LEAN, '.lake/build/bin/c14drv')
    p = subprocess.run([drv], input='\n'.join(script_lines) + '\n', stdout=subprocess.PIPE, stderr=subprocess.PIPE, text=True)
    return p.returncode, p.stdout.split('\n')


def run_robust(hexe, lines, meta, wd, tag, nranks=1, safe='0'):
    """Run a script on the real library.  If the process dies (assert, segfault, deadlock alarm, or a kill from
    outside), the case that was running is re-run alone in a fresh process: if it dies again it is returned as
    `crashed` (a failing input); if not, the run is resumed from the beginning of that case (at most 3 times, and
    never twice for the same case).  -> (result lines for lines[:n], n, crashed or None, restarts)"""
    results, pos, restarts, last_cid, crashed = [], 0, 0, None, None
    while pos < len(lines):
        # the alarm of the harness turns a deadlock into a result; sized to the script (normal speed is > 3000 lines/s)
        tmo = 300 + (len(lines) - pos) // 400
        rc, res, err = run_harness(hexe, lines[pos:], wd, '%s_%d' % (tag, restarts), nranks=nranks, safe=safe, timeout=tmo)
        done = [x for x in res if x and x != 'TIMEOUT']
        if rc == 0 and len(done) >= len(lines) - pos:
            results += done[:len(lines) - pos]
            pos = len(lines)
            break
        k = min(pos + len(done), len(lines) - 1)
        results += done[:k - pos]
        cid = meta[k][0]
        cstart = k
        while cstart > 0 and meta[cstart - 1][0] == cid:
            cstart -= 1
        # the whole case up to the dying line, probes included: the death may come from restoring the state after the
        # probe before it (e.g. closing a file that a wrongly accepted call left inconsistent)
        case = lines[cstart:k + 1]
        rci, resi, erri = run_harness(hexe, case + ['E'], wd, tag + '_isolate', nranks=nranks, safe=safe, timeout=120)
        died = rci != 0 or len([x for x in resi if x]) < len(case) + 1
        info = dict(script=case, died_again=died, rc=rc, isolated_rc=rci, ranks=nranks, stderr=(erri if died else err)[-600:])
        log('[S4] %s: the harness process died at script line %d (rc=%s); the case alone %s' %
            (tag, k, rc, 'dies again' if died else 'survives -> resuming'))
        if died or cid == last_cid or restarts >= 3:
            crashed = info
            results = results[:k]
            pos = k
            break
        last_cid, restarts = cid, restarts + 1
        results = results[:cstart]
        pos = cstart
    return results, pos, crashed, restarts


def compare(lines, meta, cres, lres, V, stats, tag):
    """tie differences and property failures over one run"""
    tie, prop = [], []
    prev_real = None
    hist = {}
    for i, line in enumerate(lines):
        cid, kind = meta[i][0], meta[i][1]
        if i >= len(cres) or i >= len(lres):
            tie.append((tag, i, line, 'missing output', '', ''))
            break
        c, l = cres[i], lres[i]
        if kind == 'E':
            if c != 'ok' or l != 'ok':
                tie.append((tag, i, line, c, l, 'end'))
            continue
        if ' | ' not in l:
            tie.append((tag, i, line, c, l, 'driver'))
            continue
        lm, ls = l.split(' | ', 1)
        cf, mf, sf = parse_fields(c.split()), parse_fields(lm.split()), parse_fields(ls.split())
        if kind == 'S':
            hist[cid] = [line]
            if c.split()[1:] != lm.split()[1:]:
                tie.append((tag, i, line, c, lm, 'initial state'))
            prev_real = cf
            stats['evaluations'] += 1
            continue
        call = line[2:]
        stats['evaluations'] += 1
        stats['by_kind'][call.split()[0]] = stats['by_kind'].get(call.split()[0], 0) + 1
        # ---- tie: implementation vs two-layer model
        keys = ['e', 'val'] if 'closed' in cf or 'closed' in mf else ['e', 'D', 'N', 'old', 'ab', 'g', 'p', 'b', 'rc', 'val']
        bad = [k for k in keys if cf.get(k) != mf.get(k)]
        if ('closed' in cf) != ('closed' in mf):
            bad.append('closed')
        if mf.get('wr') == '0' and cf.get('chg') == '1' and mf.get('del') == '0':
            bad.append('wr')
        gone = prev_real.get('ex', '1') == '1' and cf.get('ex') == '0'     # the file disappeared in this call
        if (mf.get('del') == '1') != gone:
            bad.append('del')
        if bad:
            tie.append((tag, i, hist.get(cid, []) + [line], c, lm, ','.join(bad)))
        # ---- property oracle on the implementation's outputs
        e, se = int(cf['e']), int(sf['se'])
        why = []
        if e != se:
            why.append('returned %d, documented %d' % (e, se))
        is_closer = call.split()[0] in ('close', 'abort')
        if se in REJECT and not is_closer:
            # a call that is not permitted (mode / permission / bad id) may not touch the file nor anything
            # the mode tests read.  (For argument errors the same is checked against the model only: tie.)
            if cf.get('chg') == '1':
                why.append('rejected call changed the file')
            same = all(cf.get(k) == prev_real.get(k) for k in ('D', 'N', 'old', 'ab', 'g', 'p', 'b', 'rc')) and \
                ('closed' in cf) == ('closed' in prev_real)
            if not same:
                why.append('rejected call changed the state')
        if 'closed' not in cf:
            if sf['sopen'] != '1':
                why.append('file still open, documented closed')
            else:
                D, N = int(cf['D'], 16), int(cf['N'], 16)
                if mode_of(D) != sf['sm'] or mode_of(N) != sf['sm']:
                    why.append('mode: dispatcher %s, driver %s, documented %s' % (mode_of(D), mode_of(N), sf['sm']))
                if bool(D & 0x1000) != (sf['sro'] == '1') or bool(N & 0x1000) != (sf['sro'] == '1'):
                    why.append('read-only bit differs from the documented permission')
        elif sf['sopen'] == '1':
            why.append('file closed, documented open')
        if (sf.get('sdel') == '1') != gone:
            why.append('file deletion differs from the documentation')
        if why:
            prop.append((tag, i, hist.get(cid, []) + [line], c, ls, '; '.join(why)))
        # ---- coverage accounting
        key = (prev_state_key(prev_real), call)
        if e != 0 or changed(prev_real, cf):
            stats['nontrivial'].add(key)
        if e != 0:
            stats['errors'][e] = stats['errors'].get(e, 0) + 1
        if kind == 'C':
            hist[cid].append(line)
            prev_real = cf
    return tie, prop


def prev_state_key(cf):
    if cf is None or 'closed' in cf:
        return 'closed'
    return ' '.join('%s=%s' % (k, cf.get(k)) for k in ('D', 'N', 'old', 'ab', 'g', 'p', 'b', 'rc'))


def changed(a, b):
    return prev_state_key(a) != prev_state_key(b)


def signature(call, why):
    w = call.split()
    if w[0] == 'fillvarrec':
        return 'fill_var_rec-dispatcher-error-dropped'
    return 'C14:%s:%s' % (w[0], why.split(';')[0].replace(' ', '_'))


def run_check(tier, seed):
    V = Verdict(PROP, tier, seed)
    rng = SplitMix64(seed * 104729 + 14)
    V.assumptions = [
        'safe mode off (PNETCDF_SAFE_MODE=0, the default build), ncmpio driver, classic CDF format; every rank makes the same call',
        'argument classes (varid in range / NC_GLOBAL / out of range, attribute exists / grows, name in use / longer …) are realised by the harness on one fixed schema; the model does not re-derive them',
        'I/O and memory allocation succeed (fault injection is C11); MPI refuses a write on a file opened MPI_MODE_RDONLY with MPI_ERR_READ_ONLY (the model of the unchecked ncmpi_fill_var_rec path relies on it; exercised)',
        'Cfg.fillChecksErr (does ncmpi_fill_var_rec return the error of its own tests) is calibrated by one call on the real library; theorems exist for both values',
        '"larger than the old one" (put_att / copy_att in data mode) is read as: needs more header space = more bytes after padding the values to 4 (CDF format); 3 -> 4 chars is therefore permitted in data mode, 4 -> 5 is not; proved equal to x_len_NC_attrV for every type class and count (attr_space_is_padded_size); rename: new name longer in bytes',
        'where the documentation fixes no relative order of two argument errors the specification lists them in the implementation order (marked in Spec/ModeSpec.lean)',
    ]
    V.cov['trusted_base'] = TRUSTED_BASE_COMMON + [
        'hand-written model lean/PnVerif/Model/Mode.lean (transcription of dispatchers/*.c, var_getput.m4, ncmpio_file_misc.c, ncmpio_enddef.c, ncmpio_close.c, ncmpio_sync.c, ncmpio_wait.c, ncmpio_bput.c, ncmpio_attr.m4), tied by the exhaustive differential run',
        'harness/c14_mode.c reads PNC.flag / NC.flags / ncp->old / abuf / queue lengths of the real objects through PNC_check_id']
    tree = build_impl('plain')
    wd = workdir('c14')
    try:
        # ---- S3 prove
        ok, out = lake_build(['PnVerif.Props.C14', 'c14drv'])
        failed_thms = set()
        if not ok:
            for f, ln, msg in lake_errors(out):
                t = theorem_at(f, ln)
                if t:
                    failed_thms.add(t)
            log('[S3] lake build FAILED:', sorted(failed_thms)[:20], out[-800:])
        obl = obligations_of('PnVerif/Props/C14.lean')
        discharged, bad = axiom_audit('PnVerif.Props.C14', obl, 'PnVerif.Props.C14') if ok else ([], [])
        forb = grep_forbidden([os.path.join(LEAN, f) for f in LEAN_FILES])
        V.cov['obligations'] = len(obl)
        V.cov['discharged'] = len(discharged)
        V.cov['checker_cmd'] = 'cd lean && lake build PnVerif.Props.C14 c14drv && lake env lean <#print axioms of every name in Props/C14.lean obligations>'
        if tier == 'thorough' and ok:
            lc = leanchecker(['PnVerif.Props.C14'])
            V.cov['leanchecker'] = 'ok' if not lc else str(lc)
            if lc:
                bad.append(('leanchecker', lc))
        proof_broken = (not ok) or bad or forb or len(discharged) != len(obl)
        log('[S3] obligations %d discharged %d forbidden %d' % (len(obl), len(discharged), len(forb)))
        drv = os.path.join(LEAN, '.lake/build/bin/c14drv')
        if not os.path.exists(drv):
            V.broken_tie('Lean driver c14drv does not build', out[-1500:])
            return V.finish()
        # ---- S4 harness
        hexe = os.path.join(wd, 'c14_mode')
        cc(tree, [os.path.join(VERIF, 'harness/c14_mode.c')], hexe,
           extra=['-I' + tree + '/src/drivers/ncmpio', '-I' + tree + '/src/drivers/include', '-I' + tree + '/src/include',
                  '-DHAVE_CONFIG_H'])
        # calibration of Cfg.fillChecksErr: one call on the real library
        cfg = None
        for attempt in range(3):      # (a kill from outside must not look like a broken tie)
            rc, res, err = run_harness(hexe, ['S created 1 0', 'P fillvarrec r', 'E'], wd, 'calib', timeout=120)
            try:
                cfg = 1 if parse_fields(res[1].split())['e'] == '-39' else 0
                break
            except Exception:
                cfg = None
        if cfg is None:
            V.broken_tie('harness calibration run failed three times', dict(rc=rc, result=res[:5], stderr=err[-500:]))
            return V.finish()
        V.cov['cfg_fillChecksErr'] = bool(cfg)
        log('[S4] calibration: ncmpi_fill_var_rec %s the error of its own tests' % ('returns' if cfg else 'DROPS'))
        stats = dict(evaluations=0, by_kind={}, nontrivial=set(), errors={})
        t1 = Timer()
        lines, meta, ncase = gen_script(tier, rng, cfg)
        # corpus of past failing histories first
        corpus = os.path.join(VERIF, 'corpus', 'C14', 'histories.txt')
        if os.path.exists(corpus):
            cl = [l.rstrip('\n') for l in open(corpus) if l.strip() and not l.startswith('#')]
            cm, cid = [], 10 ** 9
            for l in cl:
                if l.startswith('S '):
                    cid += 1
                cm.append((cid, l[0], True))
            lines, meta = cl + lines, cm + meta
        crashes = []
        cres, ndone, crashed, restarts = run_robust(hexe, lines, meta, wd, 'main')
        drc, lres = run_driver(lines)
        log('[S4] %d cases, %d script lines on the real library and on model+spec in %.1fs' % (ncase, len(lines), t1.s()))
        if drc != 0 or len([x for x in lres if x]) < len(lines):
            V.broken_tie('Lean driver crashed', dict(lean_rc=drc, lean_lines=len(lres), script_lines=len(lines)))
            return V.finish()
        V.cov['harness_restarts'] = restarts
        if crashed is not None:
            crashed['documented'] = lres[ndone].split(' | ')[-1] if ndone < len(lres) else ''
            crashes.append(crashed)
            lines, meta, lres = lines[:ndone], meta[:ndone], lres[:ndone]
        tie, prop = compare(lines, meta, cres, lres, V, stats, 'np1')
        # ---- 2-rank sample (every k-th case), same comparison
        t2 = Timer()
        step_k = 23 if tier == 'quick' else 13
        off = rng.below(step_k)
        sl, sm = [], []
        for ln, m in zip(lines, meta):
            if m[0] % step_k == off:
                # cfg bit 1 = more than one process: the model then follows the NC_REQ_ZERO participation of
                # collective calls whose argument tests fail (Drv.waitNull: the extract_reqs shortcut, defect F4 of C02)
                if ln.startswith('S '):
                    w = ln.split()
                    ln = 'S %s %s %d' % (w[1], w[2], int(w[3]) | 2)
                sl.append(ln); sm.append(m)
        # former witness of the extract_reqs shortcut defect (now the regression example after error_is_noop_multi), always replayed on 2 processes: one pending iput, then
        # ncmpi_put_varn_int_all(varid = NC_GLOBAL)
        wit = ['S openrw 1 %d' % (cfg | 2), 'C post iput f 0 0 vara', 'P rw 1 1 g 0 0 varn', 'P rw 1 1 g 0 0 vara', 'E']
        sl = wit + sl
        sm = [(-1, l[0], True) for l in wit] + sm
        if sl:
            cres2, n2, crashed2, r2 = run_robust(hexe, sl, sm, wd, 'np2', nranks=2)
            drc2, lres2 = run_driver(sl)
            V.cov['harness_restarts'] += r2
            if crashed2 is not None:
                crashed2['documented'] = lres2[n2].split(' | ')[-1] if n2 < len(lres2) else ''
                crashes.append(crashed2)
                sl, sm, lres2 = sl[:n2], sm[:n2], lres2[:n2]
            V.cov['witness_pending_iput_then_put_varn_all_NC_GLOBAL_on_2_ranks'] = cres2[2] if len(cres2) > 2 else 'not reached'
            t_, p_ = compare(sl, sm, cres2, lres2, V, stats, 'np2')
            tie += t_; prop += p_
            log('[S4] 2-rank sample: %d lines in %.1fs' % (len(sl), t2.s()))
        V.cov['two_rank_lines'] = len(sl)
        # the witness of flags_agree_bits_counterexample / one_mode_dispatcher_counterexample as seen on the real objects
        try:
            for i in range(len(lines) - 3):
                if lines[i] == 'S created 1 %d' % cfg and lines[i + 1:i + 4] == ['C enddef', 'C begin', 'C redef']:
                    f = parse_fields(cres[i + 3].split())
                    V.cov['witness_create_enddef_begin_redef'] = 'PNC.flag&0xF000=%s NC.flags&0xF000=%s' % (f['D'], f['N'])
                    break
        except Exception:
            pass
        # ---- safe-mode sample: with PNETCDF_SAFE_MODE=1 the dispatcher of ncmpi_fill_var_rec does return its error
        #      (through the MPI_Allreduce branch), i.e. the library runs the `Cfg.repaired` configuration of the
        #      model — the one `matches_spec` is proved for.  Same comparison, cfg = 1.
        t3 = Timer()
        off2 = rng.below(step_k)
        sl3, sm3 = [], []
        for ln, m in zip(lines, meta):
            if m[0] % step_k == off2:
                sl3.append(('S %s %s 1' % tuple(ln.split()[1:3])) if ln.startswith('S ') else ln); sm3.append(m)
        if sl3:
            cres3, n3, crashed3, r3 = run_robust(hexe, sl3, sm3, wd, 'safe', safe='1')
            drc3, lres3 = run_driver(sl3)
            V.cov['harness_restarts'] += r3
            if crashed3 is not None:
                crashed3['documented'] = lres3[n3].split(' | ')[-1] if n3 < len(lres3) else ''
                crashed3['safe_mode'] = True
                crashes.append(crashed3)
                sl3, sm3, lres3 = sl3[:n3], sm3[:n3], lres3[:n3]
            t_, p_ = compare(sl3, sm3, cres3, lres3, V, stats, 'safe')
            tie += t_; prop += p_
            log('[S4] safe-mode sample (model configuration `repaired`): %d lines in %.1fs' % (len(sl3), t3.s()))
        V.cov['safe_mode_lines'] = len(sl3)
        # ---- isolated replay of the witness with an unchecked varid (may crash: separate processes)
        crash_results = {}
        for v, doc in (('b', -49), ('g', -50)):
            got = None
            for attempt in range(2):  # a death counts only if it reproduces
                rc3, res3, err3 = run_harness(hexe, ['S openrw 1 %d' % cfg, 'C fillvarrec %s' % v, 'E'], wd, 'ub_' + v, timeout=60)
                try:
                    got = int(parse_fields(res3[1].split())['e'])
                    break
                except Exception:
                    got = None
            crash_results[v] = 'crash(rc=%s)' % rc3 if got is None else got
            stats['evaluations'] += 1
            if got != doc:
                stats['nontrivial'].add(('openrw-coll', 'fillvarrec ' + v))
                if V.failing_input('fill_var_rec-invalid-varid-unchecked',
                                   'ncmpi_fill_var_rec(varid=%s) in collective data mode: documented %d, implementation %s'
                                   % ('NC_GLOBAL' if v == 'g' else '99', doc, crash_results[v]),
                                   dict(script=['S openrw 1 %d' % cfg, 'C fillvarrec %s' % v], documented=doc, got=crash_results[v],
                                        harness='harness/c14_mode.c')):
                    pass
        V.cov['unchecked_varid_replay'] = crash_results
        # ---- coverage
        V.cov['evaluations'] = stats['evaluations']
        V.cov['distinct_nontrivial'] = len(stats['nontrivial'])
        V.cov['traces_validated_against_impl'] = ncase
        V.cov['exhaustive'] = True
        V.cov['rule'] = ('every sequence of the 7 mode-changing calls up to depth %s (full probe set up to depth %s, core probes beyond) from '
                         '{created, opened-writable, opened-read-only} x {with, without record variable}, optionally after a setup prefix '
                         '(buffer attached, pending iput/iget/bput), each followed by a probe of every API family and argument class on the '
                         'real library; after every call the mode bits of PNC.flag and NC.flags, ncp->old, abuf, queue lengths, '
                         'num_rec_vars, file-bytes-changed and file-exists are compared with the model and the returned code / mode / '
                         'no-effect rule with the documented automaton.  non-trivial = the call was rejected or changed the state; '
                         'distinct = distinct (real state before, call) pairs') % (
                                 ('3', '2') if tier == 'quick' else ('5 from created, 4 from opened-writable, 3 from read-only (depth 5: mode calls and two probes only)', '3'))
        V.cov['distribution'] = dict(calls_by_kind=stats['by_kind'], codes_returned={str(k): v for k, v in sorted(stats['errors'].items())},
                                     cases=ncase)
        V.cov['samples'] = [[l for l, m in zip(lines, meta) if m[0] == c][:12] for c in (1, max(1, ncase // 3), max(1, ncase // 2))] + [
            'theorem matches_spec (s : State) (h : ModeInv s) (c : Call) : absOut (step Cfg.repaired s c) = specStep (abs s) c',
            'theorem inv_all_histories (cfg : Cfg) (s0 : State) (h0 : Start s0) (cs : List Call) : ModeInv (run cfg s0 cs)']
        # ---- S5 decide
        new_fail = 0
        seen_sig = set()
        for crashed in crashes:
            call = crashed['script'][-1][2:]
            if crashed['died_again']:
                if V.failing_input('C14:%s:process-died' % call.split()[0],
                                   'history %s: the library aborts / crashes / hangs instead of returning the documented result (%s)'
                                   % (' ; '.join(crashed['script']), crashed.get('documented', '')), crashed, tag='crash%d' % new_fail):
                    new_fail += 1
            else:
                V.broken_tie('the harness process died repeatedly in a long run but not on the isolated history', crashed)
        for tag, i, history, c, ls, why in prop:
            call = history[-1][2:]
            sig = signature(call, why)
            if V.failing_input(sig, 'history %s: %s' % (' ; '.join(history), why),
                               dict(script=history, ranks=2 if tag == 'np2' else 1, safe_mode=(tag == 'safe'), implementation=c, documented=ls,
                                    harness='harness/c14_mode.c + lean/Driver/C14.lean'),
                               tag='in%d' % new_fail):
                if sig not in seen_sig:
                    seen_sig.add(sig)
                new_fail += 1
                if new_fail >= 5:
                    break
        if new_fail == 0:
            if tie:
                V.broken_tie('correspondence stream mode: model and implementation differ',
                             [dict(run=t[0], history=t[2], implementation=t[3], model=t[4], fields=t[5]) for t in tie[:10]])
            if proof_broken:
                V.broken_tie('proof obligations no longer check',
                             dict(failed_theorems=sorted(failed_thms), axiom_audit=bad[:10], forbidden=forb[:10],
                                  lake_tail=out[-1500:] if not ok else ''))
        return V.finish()
    finally:
        cleanup(wd)


if __name__ == '__main__':
    tier, seed, replay = args(sys.argv[1:])
    sys.exit(run_check(tier, seed))
