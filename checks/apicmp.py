"""
apicmp.py -- run API-level scripts on the real library (harness/apirun.c) and on the abstract
specification (lean/Driver/Api.lean), compare line by line with wildcards, shrink failures.
"""
import os, subprocess, re
from common import *

APIDRV = os.path.join(LEAN, '.lake/build/bin/apidrv')


def build_apirun(tree, wd, variant=''):
    exe = os.path.join(wd, 'apirun' + variant)
    cc(tree, [os.path.join(VERIF, 'harness/apirun.c')], exe, asan=(variant == '_asan'))
    return exe


def run_impl(exe, script_path, nprocs, wd, env=None, timeout=120, alarm=10):
    pref = os.path.join(wd, 'out_%d' % os.getpid())
    for f in os.listdir(wd):
        if f.startswith(os.path.basename(pref) + '.'):
            os.unlink(os.path.join(wd, f))
    rc, so, se = mpirun(nprocs, [exe, script_path, pref, str(alarm)], timeout=timeout, env=env, cwd=wd)
    lines = []
    for r in range(nprocs):
        try:
            lines.extend(l.rstrip('\n') for l in open('%s.%d' % (pref, r)))
        except OSError:
            pass

    def key(l):
        t = l.split(' ', 2)
        try:
            return (int(t[0]), int(t[1]))
        except (ValueError, IndexError):
            return (1 << 60, 0)
    lines = [l for l in lines if l.strip()]
    lines.sort(key=key)
    return rc, lines, (so + se)[-2000:]


def run_spec(script_path, nprocs):
    p = subprocess.run([APIDRV, script_path, str(nprocs)], stdout=subprocess.PIPE, stderr=subprocess.PIPE, text=True)
    return p.returncode, [l for l in p.stdout.split('\n') if l.strip()], p.stderr[-1000:]


def tok_match(s, i):
    if s == '?':
        return True
    if s == 'FILLF':
        return i.startswith('9.96920') or i == 'FILLF'
    return s == i


def line_match(spec, impl):
    st, it = spec.split(), impl.split()
    for k, s in enumerate(st):
        if s == '~':
            return st[:3] == it[:3] if k >= 3 else True
        if k >= len(it) or not tok_match(s, it[k]):
            return False
    return len(st) == len(it)


def compare(spec_lines, impl_lines):
    """-> list of (index, spec_line, impl_line) mismatches; also flags buffer violations"""
    bad = []
    n = max(len(spec_lines), len(impl_lines))
    for k in range(n):
        s = spec_lines[k] if k < len(spec_lines) else '<missing>'
        i = impl_lines[k] if k < len(impl_lines) else '<missing>'
        if not line_match(s, i):
            bad.append((k, s, i))
            if len(bad) > 20:
                break
    return bad


def buffer_violations(impl_lines):
    return [l for l in impl_lines if 'CHANGED' in l or 'TOUCHED' in l or 'DEADLOCK' in l]


def run_both(exe, text, nprocs, wd, env=None, tag='s'):
    sp = os.path.join(wd, '%s_%d.txt' % (tag, os.getpid()))
    open(sp, 'w').write(text)
    rc, impl, err = run_impl(exe, sp, nprocs, wd, env=env)
    src, spec, serr = run_spec(sp, nprocs)
    return rc, impl, spec, err + serr


def shrink(exe, text, nprocs, wd, still_fails, env=None, budget=60):
    """greedy line-group removal (a step = all lines with the same step number); keeps structural steps"""
    lines = [l for l in text.split('\n') if l.strip()]
    steps = []
    for l in lines:
        s = int(l.split()[0])
        if not steps or steps[-1][0] != s:
            steps.append((s, []))
        steps[-1][1].append(l)
    structural = ('create', 'open', 'close', 'enddef', 'redef', 'def_dim', 'def_var', 'begin_indep', 'end_indep', 'attach', 'detach', 'barrier', 'sync')

    def keep(st):
        return any(l.split()[2] in structural for l in st[1])
    cur = steps
    runs = 0
    changed = True
    while changed and runs < budget:
        changed = False
        for k in range(len(cur) - 1, -1, -1):
            if keep(cur[k]):
                continue
            cand = cur[:k] + cur[k + 1:]
            t = '\n'.join(l for st in cand for l in st[1]) + '\n'
            runs += 1
            if still_fails(t):
                cur = cand
                changed = True
            if runs >= budget:
                break
    return '\n'.join(l for st in cur for l in st[1]) + '\n'


def run_programs(V, exe, wd, progs, tier, sig, desc, maxfail=3, tagprefix='mix'):
    """run generated programs (iterable of (Prog, nprocs)) on the implementation and the specification; on a
    disagreement shrink and report a failing input.  -> (result lines, tag histogram, number of failures)"""
    nlines, tags, nfail, nprog = 0, {}, 0, 0
    for p, nprocs in progs:
        nprog += 1
        text = p.text()
        rc, impl, spec, err = run_both(exe, text, nprocs, wd, tag='%s%d' % (tagprefix, nprog))
        mism = compare(spec, impl)
        bv = buffer_violations(impl)
        nlines += len(impl)
        for t in p.tags:
            tags[t] = tags.get(t, 0) + 1
        if rc != 0 or mism or bv:
            if nprocs > 1:
                # multi-rank runs are rerun once: a disagreement that does not repeat is scheduling noise of the harness
                rc, impl, spec, err = run_both(exe, text, nprocs, wd, tag='%s%dr' % (tagprefix, nprog))
                if rc == 0 and not compare(spec, impl) and not buffer_violations(impl):
                    tags['rerun-clean'] = tags.get('rerun-clean', 0) + 1
                    continue

            def still(t, nprocs=nprocs):
                rc2, i2, s2, _ = run_both(exe, t, nprocs, wd, tag='shr')
                return rc2 != 0 or bool(compare(s2, i2)) or bool(buffer_violations(i2))
            small = shrink(exe, text, nprocs, wd, still, budget=40 if tier == 'quick' else 120)
            rc3, i3, s3, e3 = run_both(exe, small, nprocs, wd, tag='shr')
            m3 = compare(s3, i3)
            what = ('rc=%s ' % rc3) + ('; '.join('spec[%s] impl[%s]' % (a[1], a[2]) for a in m3[:3])) + (' buffer:%s' % buffer_violations(i3)[:2])
            if V.failing_input(sig, desc + ': ' + what[:600],
                               dict(script=small, nprocs=nprocs, mismatches=m3[:5], rc=rc3, stderr=e3[-400:],
                                    replay='mpiexec -n %d apirun <script> out ; lean/.lake/build/bin/apidrv <script> %d' % (nprocs, nprocs)),
                               tag='%s%d' % (tagprefix, nfail)):
                nfail += 1
            if nfail >= maxfail:
                break
    return nlines, tags, nfail, nprog
