#!/usr/bin/env python3
"""C20 — offline utilities agree with the library and the format (DESIGN.md §4 C20).

Streams (S4):
  lib     files written by the real library through harness/apirun.c from seeded logical descriptions, in
          the three formats: base file, pure layout variants (alignment hints, ncmpi__enddef arguments,
          definition order), single logical edits (one value, one attribute value, one name, one dimension
          length, one more record, other format).  ncvalidator must accept every file; cdfdiff / ncmpidiff
          must report no difference exactly for the layout variants; both are compared with the Lean models
          (Tools.validate, Tools.toolDiff) on the same bytes; ncoffsets vs ncmpi_inq_varoffset/inq_header,
          an independent Python decoder and the Lean layout; ncmpidump vs the logical description through a
          CDL reader; ncmpidump | ncmpigen round trip compared with cdfdiff and the Python decoder.
  prog    files written by the programs of the other properties (checks/apigen.gen_rw_program, 1-3 ranks):
          validator accepts, tools report no self-difference, dump/offsets vs the Python decoder.
  bytes   header-violating byte-level variants of valid headers: ncvalidator exit status and message class
          vs Tools.validateCode; property oracle = Spec.specDecode (+ refs/order) and the variant's class.
  known   fixed witnesses of the known findings, replayed on the real tools on every run.
"""
import os, sys, json, struct, subprocess, re, concurrent.futures
sys.path.insert(0, os.path.dirname(os.path.abspath(__file__)))
from common import *
import apigen, apicmp

PROP = 'C20'
XT_CODE = {'byte': 1, 'char': 2, 'short': 3, 'int': 4, 'float': 5, 'double': 6, 'ubyte': 7, 'ushort': 8, 'uint': 9, 'int64': 10, 'uint64': 11}
XT_NAME = {v: k for k, v in XT_CODE.items()}
XT_SIZE = {1: 1, 2: 1, 3: 2, 4: 4, 5: 4, 6: 8, 7: 1, 8: 2, 9: 4, 10: 8, 11: 8}
XT_PACK = {1: 'b', 2: 'B', 3: 'h', 4: 'i', 5: 'f', 6: 'd', 7: 'B', 8: 'H', 9: 'I', 10: 'q', 11: 'Q'}
LEAN_FILES = ['PnVerif/Model/Tools.lean', 'PnVerif/Lemmas/ToolsValidate.lean', 'PnVerif/Lemmas/ToolsSound.lean', 'PnVerif/Lemmas/ToolsRepaired.lean', 'PnVerif/Lemmas/ToolsDiff.lean',
              'PnVerif/Props/C20.lean', 'Driver/C20.lean']


# ---------------------------------------------------------------------------------------------------
# independent classic-format codec (Python; written from the format BNF, shares nothing with the Lean model)
# ---------------------------------------------------------------------------------------------------
def rnd4(n):
    return (n + 3) // 4 * 4


def pack_vals(xt, vals):
    return b''.join(struct.pack('>' + XT_PACK[xt], v) for v in vals)


def unpack_vals(xt, raw):
    sz = XT_SIZE[xt]
    return [struct.unpack('>' + XT_PACK[xt], raw[i:i + sz])[0] for i in range(0, len(raw) - len(raw) % sz, sz)]


class Hdr:
    """fmt, numrecs, dims [(name, size)], gatts [(name, xt, nelems, raw)], vars [dict(name, dimids, atts, xt, vsize, begin)]"""
    def __init__(self, fmt, numrecs, dims, gatts, vars_):
        self.fmt, self.numrecs, self.dims, self.gatts, self.vars = fmt, numrecs, dims, gatts, vars_

    def copy(self):
        return Hdr(self.fmt, self.numrecs, [tuple(d) for d in self.dims], [tuple(a) for a in self.gatts],
                   [dict(v, dimids=list(v['dimids']), atts=[tuple(a) for a in v['atts']]) for v in self.vars])


def segments(h):
    """the header as a list of [label, bytes]; labels address every field for the byte-level mutations"""
    w = 8 if h.fmt == 5 else 4
    ow = 4 if h.fmt == 1 else 8

    def nn(n):
        return (n & ((1 << (8 * w)) - 1)).to_bytes(w, 'big')

    def u32(n):
        return (n & 0xffffffff).to_bytes(4, 'big')
    out = [['magic', b'CDF' + bytes([h.fmt])], ['numrecs', nn(h.numrecs)]]

    def name(pref, nm):
        out.append([pref + '.namelen', nn(len(nm))])
        out.append([pref + '.name', nm])
        out.append([pref + '.namepad', b'\0' * (rnd4(len(nm)) - len(nm))])

    def atts(pref, al):
        out.append([pref + '.atag', u32(12 if al else 0)])
        out.append([pref + '.an', nn(len(al))])
        for i, (nm, xt, ne, raw) in enumerate(al):
            p = '%s.a%d' % (pref, i)
            name(p, nm)
            out.append([p + '.type', u32(xt)])
            out.append([p + '.nelems', nn(ne)])
            out.append([p + '.val', raw])
            out.append([p + '.valpad', b'\0' * (rnd4(len(raw)) - len(raw))])
    out.append(['d.tag', u32(10 if h.dims else 0)])
    out.append(['d.n', nn(len(h.dims))])
    for i, (nm, sz) in enumerate(h.dims):
        name('d%d' % i, nm)
        out.append(['d%d.size' % i, nn(sz)])
    atts('g', h.gatts)
    out.append(['v.tag', u32(11 if h.vars else 0)])
    out.append(['v.n', nn(len(h.vars))])
    for i, v in enumerate(h.vars):
        p = 'v%d' % i
        name(p, v['name'])
        out.append([p + '.ndims', nn(len(v['dimids']))])
        for j, d in enumerate(v['dimids']):
            out.append(['%s.dimid%d' % (p, j), nn(d)])
        atts(p, v['atts'])
        out.append([p + '.type', u32(v['xt'])])
        out.append([p + '.vsize', nn(v['vsize'])])
        out.append([p + '.begin', (v['begin'] & ((1 << (8 * ow)) - 1)).to_bytes(ow, 'big')])
    return out


def join(segs):
    return b''.join(s[1] for s in segs)


class DecodeError(Exception):
    pass


def decode(b):
    """-> (Hdr, header length).  Strict about lengths (no zero extension), lenient about nothing else it does not need."""
    pos = [0]

    def take(n):
        if pos[0] + n > len(b):
            raise DecodeError('short')
        r = b[pos[0]:pos[0] + n]
        pos[0] += n
        return r
    if take(3) != b'CDF':
        raise DecodeError('magic')
    fmt = take(1)[0]
    if fmt not in (1, 2, 5):
        raise DecodeError('version')
    w = 8 if fmt == 5 else 4

    def nn():
        return int.from_bytes(take(w), 'big')

    def u32():
        return int.from_bytes(take(4), 'big')

    def name():
        n = nn()
        s = take(n)
        take(rnd4(n) - n)
        return s

    def lst(tag, item):
        t = u32()
        n = nn()
        if t == 0 and n == 0:
            return []
        if t != tag:
            raise DecodeError('tag')
        return [item() for _ in range(n)]

    def att():
        nm = name()
        xt = u32()
        if xt not in XT_SIZE:
            raise DecodeError('type')
        ne = nn()
        raw = take(ne * XT_SIZE[xt])
        take(rnd4(len(raw)) - len(raw))
        return (nm, xt, ne, raw)

    def dim():
        nm = name()
        return (nm, nn())

    def var():
        nm = name()
        nd = nn()
        ids = [nn() for _ in range(nd)]
        al = lst(12, att)
        xt = u32()
        if xt not in XT_SIZE:
            raise DecodeError('type')
        vs = nn()
        bg = int.from_bytes(take(4 if fmt == 1 else 8), 'big')
        return dict(name=nm, dimids=ids, atts=al, xt=xt, vsize=vs, begin=bg)
    numrecs = nn()
    dims = lst(10, dim)
    gatts = lst(12, att)
    vars_ = lst(11, var)
    return Hdr(fmt, numrecs, dims, gatts, vars_), pos[0]


def layout(h):
    """per variable: (isrec, shape, nbytes unpadded of one record / the variable, padded len); recsize"""
    res = []
    for v in h.vars:
        shape = [h.dims[d][1] for d in v['dimids']]
        isrec = bool(shape) and shape[0] == 0
        n = XT_SIZE[v['xt']]
        for s in (shape[1:] if isrec else shape):
            n *= s
        res.append((isrec, shape, n, rnd4(n)))
    recs = [r for r in res if r[0]]
    recsize = recs[0][2] if len(recs) == 1 else sum(r[3] for r in recs)
    return res, recsize


def logical_of(b):
    """order-insensitive logical content of a file: what 'same logical content' means in the property"""
    h, hl = decode(b)
    lay, recsize = layout(h)
    vars_ = {}
    for v, (isrec, shape, n, ln) in zip(h.vars, lay):
        nrec = h.numrecs if isrec else 1
        data = []
        for r in range(nrec):
            off = v['begin'] + (recsize * r if isrec else 0)
            raw = b[off:off + n]
            data.append(raw + b'\0' * (n - len(raw)))       # never-written tail of a sparse file reads as zeros
        vars_[v['name']] = (v['xt'], tuple((h.dims[d][0], h.dims[d][1]) for d in v['dimids']),
                            tuple(sorted(v['atts'])), tuple(data))
    return dict(fmt=h.fmt, numrecs=h.numrecs, dims=tuple(sorted(h.dims)), gatts=tuple(sorted(h.gatts)), vars=vars_)


# ---------------------------------------------------------------------------------------------------
# CDL reader (ncmpidump output)
# ---------------------------------------------------------------------------------------------------
def cdl_tokens(text):
    """statements of a CDL text: list of token lists; strings come as ('s', bytes)"""
    toks, i, n = [], 0, len(text)
    cur = []
    while i < n:
        c = text[i]
        if c == '/' and text[i:i + 2] == '//':
            j = text.find('\n', i)
            i = n if j < 0 else j
        elif c == '"':
            i += 1
            s = bytearray()
            while i < n and text[i] != '"':
                if text[i] == '\\':
                    i += 1
                    e = text[i]
                    if e in '01234567':
                        j = i
                        while j < n and j < i + 3 and text[j] in '01234567':
                            j += 1
                        s.append(int(text[i:j], 8) & 0xff)
                        i = j
                        continue
                    s.append({'n': 10, 't': 9, 'b': 8, 'f': 12, 'r': 13, 'v': 11, 'a': 7}.get(e, ord(e)))
                    i += 1
                else:
                    s += text[i].encode('latin1')
                    i += 1
            i += 1
            cur.append(('s', bytes(s)))
        elif c in ';{}':
            if c == ';' or cur:
                toks.append(cur)
            cur = []
            i += 1
        elif c in ' \t\n,=()':
            if c in '=()':
                cur.append(c)
            i += 1
        else:
            j = i
            while j < n and text[j] not in ' \t\n,=();{}"':
                j += 1
            cur.append(text[i:j])
            i = j
    return toks


NUM_RE = re.compile(r'^([-+]?[0-9.eE+-]+?)(UB|US|ULL|LL|U|[bBsSfFlLdD])?$')


def cdl_num(tok):
    """-> (python number, suffix)"""
    if tok == '_':
        return ('_', '')
    low = tok.lower().rstrip('f')
    if low in ('nan', '-nan', '+nan'):
        return (float('nan'), '')
    if low in ('inf', '-inf', 'infinity', '-infinity', '+inf'):
        return (float(low.replace('infinity', 'inf')), '')
    m = NUM_RE.match(tok)
    if not m:
        raise ValueError('number? %r' % (tok,))
    t, suf = m.group(1), (m.group(2) or '')
    try:
        return (int(t), suf)
    except ValueError:
        return (float(t), suf)


def parse_cdl(text):
    """-> dict(fmt, dims {name: (size, current)}, vars [(name, type, [dimnames], atts)], gatts, data {name: values})
    atts: list of (name, 'str'|suffix, value list | bytes)"""
    m = re.search(r'// file format: CDF-(\d)', text)
    fmt = int(m.group(1)) if m else None
    cur_m = dict((mm.group(1), int(mm.group(2))) for mm in re.finditer(r'^\s*(\S+) = UNLIMITED ; // \((\d+) currently\)', text, re.M))
    st = cdl_tokens(text)
    res = dict(fmt=fmt, dims={}, vars=[], gatts=[], data={}, numrecs=None)
    sec = None
    types = set(XT_CODE)

    def att_value(ts):
        if ts and isinstance(ts[0], tuple):
            return ('str', b''.join(t[1] for t in ts))
        vals = [cdl_num(t) for t in ts]
        return (vals[0][1] if vals else '', [v[0] for v in vals])
    for s in st:
        if not s:
            continue
        if s[0] == 'netcdf':
            s = s[2:]
            if not s:
                continue
        if s[0] in ('dimensions:', 'variables:', 'data:'):
            sec = s[0][:-1]
            s = s[1:]
            if not s:
                continue
        if sec == 'dimensions':
            nm, val = s[0], s[2]
            if val == 'UNLIMITED':
                res['dims'][nm] = 0
                res['numrecs'] = cur_m.get(nm)
            else:
                res['dims'][nm] = int(val)
        elif sec == 'variables':
            if s[0] in types:
                dn = [t for t in s[2:] if t not in ('(', ')')]
                res['vars'].append([s[1], s[0], dn, []])
            else:
                vn, an = s[0].split(':', 1)
                kind, val = att_value(s[2:])
                if vn == '':
                    res['gatts'].append((an, kind, val))
                else:
                    [v for v in res['vars'] if v[0] == vn][0][3].append((an, kind, val))
        elif sec == 'data':
            vn = s[0]
            ts = s[2:]
            if ts and isinstance(ts[0], tuple):
                res['data'][vn] = ('str', b''.join(t[1] for t in ts))
            else:
                res['data'][vn] = ('num', [cdl_num(t)[0] for t in ts])
    return res


ATT_SUFFIX = {1: 'b', 3: 's', 4: '', 5: 'f', 6: '', 7: 'UB', 8: 'US', 9: 'U', 10: 'LL', 11: 'ULL'}


def cdl_vs_logical(cdl, h, b, mask=None):
    """compare a parsed dump with the decoded file (header h of bytes b); -> list of differences.
    mask: {variable name: [True for a never-written, unfilled element (unspecified content), ...]} or None"""
    bad = []
    lay, recsize = layout(h)
    if cdl['fmt'] != h.fmt:
        bad.append('format %s != %s' % (cdl['fmt'], h.fmt))
    exp_dims = dict((nm.decode('latin1'), sz) for nm, sz in h.dims)
    if cdl['dims'] != exp_dims:
        bad.append('dims %s != %s' % (cdl['dims'], exp_dims))
    if any(sz == 0 for _, sz in h.dims) and cdl['numrecs'] != h.numrecs:
        bad.append('numrecs %s != %s' % (cdl['numrecs'], h.numrecs))

    def cmp_atts(where, got, exp):
        if len(got) != len(exp):
            bad.append('%s: %d attributes printed, %d in file' % (where, len(got), len(exp)))
            return
        for (an, kind, val), (nm, xt, ne, raw) in zip(got, exp):
            if an != nm.decode('latin1'):
                bad.append('%s: attribute name %s != %s' % (where, an, nm))
            elif xt == 2:
                if kind != 'str' or val != raw.rstrip(b'\0'):
                    bad.append('%s:%s text %r != %r' % (where, an, val, raw))
            else:
                ev = unpack_vals(xt, raw)
                if kind == 'str' or [float(x) for x in val] != [float(x) for x in ev] or (ev and kind.upper() != ATT_SUFFIX[xt].upper() and not (xt == 6 and kind in ('', 'd', 'D'))):
                    bad.append('%s:%s values %s%s != %s (type %s)' % (where, an, val, kind, ev, XT_NAME[xt]))
    cmp_atts('global', cdl['gatts'], h.gatts)
    if len(cdl['vars']) != len(h.vars):
        bad.append('%d variables printed, %d in file' % (len(cdl['vars']), len(h.vars)))
        return bad
    for (vn, tn, dn, atts), v, (isrec, shape, n, ln) in zip(cdl['vars'], h.vars, lay):
        if vn != v['name'].decode('latin1') or tn != XT_NAME[v['xt']] or dn != [h.dims[d][0].decode('latin1') for d in v['dimids']]:
            bad.append('variable %s %s%s != %s %s%s' % (tn, vn, dn, XT_NAME[v['xt']], v['name'], v['dimids']))
            continue
        cmp_atts(vn, atts, v['atts'])
        if 'nodata' in cdl:
            continue
        nrec = h.numrecs if isrec else 1
        raw = b''
        for r in range(nrec):
            off = v['begin'] + (recsize * r if isrec else 0)
            piece = b[off:off + n]
            raw += piece + b'\0' * (n - len(piece))
        got = cdl['data'].get(vn)
        if nrec == 0 or n == 0:
            continue
        if got is None:
            bad.append('no data printed for %s' % vn)
        elif mask is not None and (vn not in mask or (v['xt'] == 2 and any(mask[vn]))):
            continue        # unspecified cells in a text variable / no information: the printed rows cannot be aligned
        elif v['xt'] == 2:
            rowlen = shape[-1] if shape and shape[-1] else (len(raw) if not shape or len(shape) == 1 else 1)
            if len(shape) == 1 and isrec:
                rowlen = len(raw)
            rows = [raw[i:i + rowlen] for i in range(0, len(raw), max(rowlen, 1))]
            exp = b''.join(r.rstrip(b'\0') for r in rows)
            if got[0] != 'str' or got[1] != exp:
                bad.append('data of %s: %r != %r' % (vn, got, exp))
        else:
            ev = unpack_vals(v['xt'], raw)
            mk = (mask or {}).get(vn) or [False] * len(ev)
            if got[0] != 'num' or len(got[1]) != len(ev) or len(mk) != len(ev) or \
               any(not u and g != '_' and float(g) != float(e) and not (float(g) != float(g) and float(e) != float(e))
                   for g, e, u in zip(got[1], ev, mk)):
                bad.append('data of %s: %s != %s' % (vn, got[1][:12], ev[:12]))
    return bad


# ---------------------------------------------------------------------------------------------------
# logical descriptions -> apirun scripts
# ---------------------------------------------------------------------------------------------------
MEMT = {'byte': 'schar', 'char': 'text', 'short': 'short', 'int': 'int', 'float': 'float', 'double': 'double',
        'ubyte': 'uchar', 'ushort': 'ushort', 'uint': 'uint', 'int64': 'longlong', 'uint64': 'ulonglong'}
CLASSIC = ['byte', 'char', 'short', 'int', 'float', 'double']
EXT = ['ubyte', 'ushort', 'uint', 'int64', 'uint64']


def gen_att(rng, name, types):
    xt = rng.choice(types)
    if xt == 'char':
        n = rng.range(0, 6)
        return (name, xt, [rng.range(97, 122) for _ in range(n)])
    n = rng.range(1, 3)
    lo = -9 if xt in ('byte', 'short', 'int', 'float', 'double', 'int64') else 0
    return (name, xt, [rng.range(lo, 100) for _ in range(n)])


def gen_logical(rng, fmt, ext_atts=True):
    """dict(fmt, dims [(name,size)] (size 0 = record dim), gatts, vars [dict(name, xt, dims [names], atts, data)], numrecs)
    data: per record (1 pseudo-record for fixed-size variables) the list of values"""
    types = CLASSIC + (EXT if fmt == 5 else [])
    atypes = CLASSIC + (EXT if (fmt == 5 and ext_atts) else [])
    hasrec = rng.chance(2, 3)
    dims = [('d%d' % i, rng.range(1, 4)) for i in range(rng.range(1, 3))]
    if hasrec:
        dims.insert(rng.range(0, len(dims)), ('t', 0))
    numrecs = rng.range(1, 3) if hasrec else 0
    fixed = [d for d in dims if d[1] > 0]
    gatts = [gen_att(rng, 'g%d' % i, atypes) for i in range(rng.range(1, 3))]
    vars_ = []
    anyrec = False
    nv = rng.range(1, 4)
    for i in range(nv):
        xt = rng.choice(types)
        vd = [rng.choice(fixed)[0] for _ in range(rng.range(0, 2))]
        isrec = hasrec and (rng.chance(1, 2) or (i == nv - 1 and not anyrec))
        if isrec:
            vd = ['t'] + vd
            anyrec = True
        atts = [gen_att(rng, 'a%d' % j, atypes) for j in range(rng.range(1, 2))]
        vars_.append(dict(name='v%d' % i, xt=xt, dims=vd, atts=atts, data=None))
    L = dict(fmt=fmt, dims=dims, gatts=gatts, vars=vars_, numrecs=numrecs if anyrec else 0)
    fill_data(rng, L)
    return L


def rec_elems(L, v):
    n = 1
    dm = dict(L['dims'])
    for d in v['dims']:
        if dm[d] > 0:
            n *= dm[d]
    return n


def is_rec(L, v):
    return bool(v['dims']) and dict(L['dims'])[v['dims'][0]] == 0


def fill_data(rng, L, keep=None):
    for v in L['vars']:
        n = rec_elems(L, v)
        nrec = L['numrecs'] if is_rec(L, v) else 1
        old = (keep or {}).get(v['name'])
        data = []
        for r in range(nrec):
            if old is not None and r < len(old) and len(old[r]) == n:
                data.append(list(old[r]))
            elif v['xt'] == 'char':
                data.append([rng.range(97, 122) for _ in range(n)])
            else:
                data.append([rng.range(1, 100) for _ in range(n)])
        v['data'] = data


def clone(L):
    return json.loads(json.dumps(L))


def emit_script(prog, path, L, hints='-', enddef='enddef', order=None, extra_redef=None):
    """append the apirun lines that write logical file L to `path`"""
    a = prog.all
    a('create %s %d clobber %s' % (path, L['fmt'], hints))
    dims, vars_, gatts = list(L['dims']), list(L['vars']), list(L['gatts'])
    if order:
        dims, vars_, gatts = order.shuffle(dims), order.shuffle(vars_), order.shuffle(gatts)
    for n, l in dims:
        a('def_dim %s %d' % (n, l))
    for v in vars_:
        a('def_var %s %s %d %s' % (v['name'], v['xt'], len(v['dims']), ' '.join(v['dims'])))

    def put_att(vn, att):
        nm, xt, vals = att
        if xt == 'char':
            a('put_att %s %s char %d %s' % (vn, nm, len(vals), bytes(vals).hex() or '-'))
        else:
            a('put_att %s %s %s %d %s' % (vn, nm, xt, len(vals), ' '.join(str(x) for x in vals)))
    for att in gatts:
        put_att('-', att)
    for v in vars_:
        al = list(v['atts'])
        if order:
            al = order.shuffle(al)
        for att in al:
            put_att(v['name'], att)
    a(enddef)
    if extra_redef:
        a('redef')
        a(extra_redef)
    dm = dict(L['dims'])
    for v in vars_:
        shape = [dm[d] for d in v['dims']]
        if is_rec(L, v):
            for r, vals in enumerate(v['data']):
                st = [r] + [0] * (len(shape) - 1)
                ct = [1] + shape[1:]
                a('put vara c %s %s c %s %s - - : %s' % (v['name'], MEMT[v['xt']], apigen.lst(st), apigen.lst(ct), ' '.join(str(x) for x in vals)))
        else:
            a('put var c %s %s c - - - - : %s' % (v['name'], MEMT[v['xt']], ' '.join(str(x) for x in v['data'][0])))
    s_hdr = a('inq_header')
    s_off = [a('inq_varoffset %s' % v['name']) for v in L['vars']]
    a('close')
    return s_hdr, s_off


def logical_to_content(L):
    """the order-insensitive logical content in the form logical_of() returns"""
    dm = dict(L['dims'])

    def att(a):
        nm, xt, vals = a
        c = XT_CODE[xt]
        return (nm.encode(), c, len(vals), pack_vals(c, vals))
    vars_ = {}
    for v in L['vars']:
        c = XT_CODE[v['xt']]
        vars_[v['name'].encode()] = (c, tuple((d.encode(), dm[d]) for d in v['dims']), tuple(sorted(att(a) for a in v['atts'])),
                                    tuple(pack_vals(c, rec) for rec in v['data']))
    return dict(fmt=L['fmt'], numrecs=L['numrecs'], dims=tuple(sorted((n.encode(), l) for n, l in L['dims'])),
                gatts=tuple(sorted(att(a) for a in L['gatts'])), vars=vars_)


LAYOUTS = [
    ('hints', 'nc_header_align_size=1024'), ('hints', 'nc_var_align_size=64'), ('hints', 'nc_record_align_size=256'),
    ('hints', 'nc_header_align_size=4;nc_var_align_size=4'), ('hints', 'nc_header_align_size=2048;nc_record_align_size=512'),
    ('enddef', 'enddef2 100 4 0 4'), ('enddef', 'enddef2 0 128 40 64'), ('enddef', 'enddef2 300 8 16 1024'),
    ('order', None), ('redef', 'enddef2 700 4 0 4'),
]


def variants_of(rng, L):
    """[(kind, equal?, L', emit kwargs)]: pure layout changes and single logical edits of L"""
    out = []
    k, arg = rng.choice(LAYOUTS)
    kw = {}
    if k == 'hints':
        kw['hints'] = arg
    elif k == 'enddef':
        kw['enddef'] = arg
    elif k == 'order':
        kw['order'] = SplitMix64(rng.next())
    else:
        kw['extra_redef'] = arg
    out.append(('layout:' + k + (':' + arg if arg else ''), True, clone(L), kw))
    edits = ['value', 'att', 'name', 'dimlen', 'record', 'format']
    # boundary-directed edits first (last element of the last record / of an attribute), then random ones
    for e in ['value-last', 'att-last'] + rng.shuffle(edits)[:3]:
        M = clone(L)
        tag = e
        last = e.endswith('-last')
        e = e.split('-')[0]
        if e == 'value':
            v = rng.choice([x for x in M['vars'] if x['data'] and x['data'][0]] or [None])
            if v is None:
                continue
            r = rng.below(len(v['data'])) if not last else len(v['data']) - 1
            i = rng.below(len(v['data'][r])) if not last else len(v['data'][r]) - 1
            v['data'][r][i] = v['data'][r][i] + 1 if v['xt'] != 'char' else (97 + (v['data'][r][i] - 96) % 26)
            tag = 'value:' + v['xt']
        elif e == 'att':
            cands = [(None, i) for i, a in enumerate(M['gatts']) if a[2]] + \
                    [(vi, i) for vi, v in enumerate(M['vars']) for i, a in enumerate(v['atts']) if a[2]]
            if last:
                cands = [c for c in cands if (c[0] is None) == rng.chance(1, 2)] or cands
            if not cands:
                continue
            vi, i = rng.choice(cands)
            al = M['gatts'] if vi is None else M['vars'][vi]['atts']
            vals = list(al[i][2])
            j = rng.below(len(vals)) if not last else len(vals) - 1
            vals[j] = vals[j] + 1 if al[i][1] != 'char' else (97 + (vals[j] - 96) % 26)
            al[i] = [al[i][0], al[i][1], vals]
            tag = 'att:' + al[i][1]
        elif e == 'name':
            what = rng.choice(['var', 'dim', 'gatt', 'vatt'])
            if what == 'var':
                rng.choice(M['vars'])['name'] += 'x'
            elif what == 'dim':
                i = rng.below(len(M['dims']))
                old = M['dims'][i][0]
                M['dims'][i] = [old + 'x', M['dims'][i][1]]
                for v in M['vars']:
                    v['dims'] = [d + 'x' if d == old else d for d in v['dims']]
            elif what == 'gatt':
                i = rng.below(len(M['gatts']))
                M['gatts'][i] = [M['gatts'][i][0] + 'x'] + list(M['gatts'][i][1:])
            else:
                v = rng.choice(M['vars'])
                i = rng.below(len(v['atts']))
                v['atts'][i] = [v['atts'][i][0] + 'x'] + list(v['atts'][i][1:])
            tag = 'name:' + what
        elif e == 'dimlen':
            fixed = [i for i, d in enumerate(M['dims']) if d[1] > 0]
            i = rng.choice(fixed)
            M['dims'][i] = [M['dims'][i][0], M['dims'][i][1] + 1]
            fill_data(rng, M, keep={v['name']: v['data'] for v in M['vars']})
            used = any(M['dims'][i][0] in v['dims'] for v in M['vars'])
            tag = 'dimlen:' + ('used' if used else 'unused')
        elif e == 'record':
            if M['numrecs'] == 0:
                continue
            M['numrecs'] += 1
            fill_data(rng, M, keep={v['name']: v['data'] for v in M['vars']})
        elif e == 'format':
            if any(v['xt'] in EXT for v in M['vars']) or any(a[1] in EXT for a in M['gatts']) or \
               any(a[1] in EXT for v in M['vars'] for a in v['atts']):
                continue
            M['fmt'] = rng.choice([f for f in (1, 2, 5) if f != M['fmt']])
        out.append((tag, False, M, {}))
    return out


# ---------------------------------------------------------------------------------------------------
# the real tools
# ---------------------------------------------------------------------------------------------------
def build_tools(tree, wd):
    """compile the six utilities from the scratch tree's sources (the copied binaries of the tree may be stale:
    rsync keeps mtimes), statically against the scratch library"""
    u = os.path.join(tree, 'src/utils')
    T = {}

    def gcc(name, srcs, extra=()):
        exe = os.path.join(wd, name)
        cmd = ['gcc', '-g', '-O1', '-w'] + list(extra) + srcs + ['-o', exe]
        p = subprocess.run(cmd, stdout=subprocess.PIPE, stderr=subprocess.STDOUT, text=True)
        if p.returncode != 0:
            raise BuildFailed('utility %s does not compile:\n%s' % (name, p.stdout[-2000:]))
        T[name] = exe
    gcc('ncvalidator', [u + '/ncvalidator/ncvalidator.c'])
    gcc('cdfdiff', [u + '/ncmpidiff/cdfdiff.c'], ['-I' + u + '/ncvalidator'])
    gcc('ncoffsets', [u + '/ncoffsets/ncoffsets.c'])
    # the same cdfdiff.c with READ_CHUNK_SIZE = 16 bytes: the chunk loop runs several times on the small files too
    src = open(u + '/ncmpidiff/cdfdiff.c').read()
    m = re.search(r'^#define\s+READ_CHUNK_SIZE\s+\d+\s*$', src, re.M)
    if not m:
        raise BuildFailed('cdfdiff.c: #define READ_CHUNK_SIZE <number> not found')
    with open(os.path.join(wd, 'cdfdiff_c16.c'), 'w') as fh:
        fh.write(src[:m.start()] + '#define READ_CHUNK_SIZE 16' + src[m.end():])
    gcc('cdfdiff_c16', [os.path.join(wd, 'cdfdiff_c16.c')], ['-I' + u + '/ncvalidator', '-I' + u + '/ncmpidiff'])
    inc = ['-DHAVE_CONFIG_H', '-I' + tree + '/src/include']
    T['ncmpidiff'] = cc(tree, [u + '/ncmpidiff/ncmpidiff.c'], os.path.join(wd, 'ncmpidiff'), extra=inc)
    T['ncmpidump'] = cc(tree, [u + '/ncmpidump/' + f for f in ('ncmpidump.c', 'vardata.c', 'dumplib.c')],
                        os.path.join(wd, 'ncmpidump'), extra=inc + ['-I' + u + '/ncmpidump'])
    T['ncmpigen'] = cc(tree, [u + '/ncmpigen/' + f for f in ('main.c', 'load.c', 'escapes.c', 'getfill.c', 'init.c', 'genlib.c', 'ncmpigentab.c')],
                       os.path.join(wd, 'ncmpigen'), extra=inc + ['-I' + tree + '/src/drivers/ncmpio', '-I' + u + '/ncmpigen'])
    return T


def build_part_harness(tree, wd):
    """extract the partition statements of ncmpidiff.c main() and compile harness/c20_part.c around them"""
    src = open(os.path.join(tree, 'src/utils/ncmpidiff/ncmpidiff.c')).read()
    a = src.find('/* calculate read amount of this process in start[] and shape[] */')
    b = src.find('/* if none of shape[*] >= nprocs', a)
    if a < 0 or b < 0:
        raise BuildFailed('ncmpidiff.c: the partition code of main() was not found between its two comments')
    body = src[a:b]
    if body.count('{') != body.count('}') or 'MPI_' in body.replace('MPI_Offset', ''):
        raise BuildFailed('ncmpidiff.c: the partition code is no longer a self-contained statement:\n' + body[:600])
    with open(os.path.join(wd, 'c20_part_body.inc'), 'w') as f:
        f.write(body)
    exe = os.path.join(wd, 'c20_part')
    p = subprocess.run(['gcc', '-g', '-O1', '-w', '-I' + wd, os.path.join(VERIF, 'harness/c20_part.c'), '-o', exe],
                       stdout=subprocess.PIPE, stderr=subprocess.STDOUT, text=True)
    if p.returncode != 0:
        raise BuildFailed('harness c20_part.c does not compile around the extracted partition code:\n' + p.stdout[-1500:])
    return exe


def diff_lines_by_var(out):
    """number of DIFF lines per variable name in the output of ncmpidiff"""
    res = {}
    for m in re.finditer(r'DIFF[^\n]*?variable "([^"]+)"', out):
        res[m.group(1)] = res.get(m.group(1), 0) + 1
    return res


def run(cmd, timeout=120, cwd=None, stdin=None):
    e = dict(os.environ)
    e.setdefault('OMPI_MCA_btl_vader_single_copy_mechanism', 'none')
    e['OMPI_ALLOW_RUN_AS_ROOT'] = '1'
    e['OMPI_ALLOW_RUN_AS_ROOT_CONFIRM'] = '1'
    try:
        p = subprocess.run(cmd, stdout=subprocess.PIPE, stderr=subprocess.PIPE, timeout=timeout, env=e, cwd=cwd, input=stdin)
        return p.returncode, p.stdout.decode('latin1'), p.stderr.decode('latin1')
    except subprocess.TimeoutExpired:
        return -999, '', 'TIMEOUT'


def parse_diff(out):
    """(head, var) from the summary lines of cdfdiff / ncmpidiff; None when no summary was printed"""
    head = var = None
    if 'Headers of two files are the same' in out:
        head = 0
    m = re.search(r'Number of differences in header:? (\d+)', out)
    if m:
        head = int(m.group(1))
    if 'All variables of two files are the same' in out:
        var = 0
    m = re.search(r'Number of differences in variables:? (\d+)', out)
    if m:
        var = int(m.group(1))
    return head, var


def run_cdfdiff(T, a, b, exe='cdfdiff'):
    rc, so, se = run([T[exe], a, b])
    if rc < 0 or rc > 1:
        return 'crash', rc
    h, v = parse_diff(so)
    if h is None or v is None:
        return 'invalid', rc
    return '%d,%d' % (h, v), rc


def run_ncmpidiff(T, a, b, np=1):
    if np == 1:
        rc, so, se = run([T['ncmpidiff'], a, b])
    else:
        rc, so, se = mpirun(np, [T['ncmpidiff'], a, b], timeout=120)
    h, v = parse_diff(so)
    if h is None or v is None:
        return 'invalid', rc
    return '%d,%d' % (h, v), rc


VMSG = [
    ('enullpad', r'padding is non-null byte'), ('eunlimit', r'NC_UNLIMITED dimension already found'),
    ('ebadtype', r'Unknown NC data type'), ('emaxdims', r'exceeds NC_MAX_DIMS|larger than NC_MAX_VAR_DIMS'),
    ('emaxatts', r'exceeds NC_MAX_ATTRS'), ('emaxvars', r'exceeds NC_MAX_VARS'),
    ('ebaddim', r'dimension ID \[|is larger than the number of dimensions defined'),
    ('eunlimpos', r'NC_UNLIMITED in the wrong index'),
    ('evarsize', r'large fixed-size variable|large record variable|variable size greater than max'),
    ('enotnc', r'Invalid NC component tag|Unknow file signature|format is unknown|begin of |file header size|begin offset|Record variable section begin|Input file is in HDF|holds a negative value|number of records is neither'),
    ('esmall', r'invalid file'),
]


def run_validator(T, path):
    """-> (exit code, message classes in the order printed, text).  NC_ENULLPAD is not fatal: the validator goes
    on, so the class of the LAST message is the fatal error (or enullpad when nothing fatal followed)"""
    rc, so, se = run([T['ncvalidator'], path])
    txt = so + se
    found = []
    for cls, rx in VMSG:
        for m in re.finditer(rx, txt):
            found.append((m.start(), cls))
    found.sort()
    classes = [c for _, c in found]
    return rc, classes, txt


def has_nan(h, b):
    """does a float/double variable of the file hold a NaN (never-written bytes of a nofill file are unspecified)"""
    lay, recsize = layout(h)
    for v, (isrec, shape, n, ln) in zip(h.vars, lay):
        if v['xt'] not in (5, 6):
            continue
        for r in range(h.numrecs if isrec else 1):
            off = v['begin'] + (recsize * r if isrec else 0)
            if any(x != x for x in unpack_vals(v['xt'], b[off:off + n])):
                return True
    return False


def parse_offsets(txt):
    """ncoffsets output -> (size, extent, {name: (start, end)})"""
    m1 = re.search(r'size\s+= (\d+) bytes', txt)
    m2 = re.search(r'extent = (\d+) bytes', txt)
    res = {}
    cur = None
    for line in txt.split('\n'):
        m = re.match(r'^\t(byte|char|short|int|float|double|ubyte|ushort|uint|int64|uint64)\s+([^\s(:]+)(\(.*\))?:', line)
        if m:
            cur = m.group(2)
            continue
        m = re.match(r'^\t\s+start file offset =\s*(\d+)', line)
        if m and cur is not None and cur not in res:
            res[cur] = [int(m.group(1)), None]
            continue
        m = re.match(r'^\t\s+end   file offset =\s*(\d+)', line)
        if m and cur is not None and res.get(cur) and res[cur][1] is None:
            res[cur][1] = int(m.group(1))
    return (int(m1.group(1)) if m1 else None, int(m2.group(1)) if m2 else None, {k: tuple(v) for k, v in res.items()})


def parse_offsets_full(txt):
    """every number `ncoffsets [-s] [-g] [-r] [-v ...]` prints:
    dict(fmt, ndims, nvars, ngatts, size, extent, dims [(name, size | ('U', current))], vars [dict(name, type, dims, kind, starts, ends, size, gap)])"""
    res = dict(vars=[], dims=[])
    for key, rx in (('fmt', r'// File format: CDF-(\d+)'), ('ndims', r'// Number of dimensions: (\d+)'), ('nvars', r'// Number of variables: (\d+)'),
                    ('ngatts', r'// Number of global attributes: (\d+)'), ('size', r'size\s+= (-?\d+) bytes'), ('extent', r'extent = (-?\d+) bytes')):
        m = re.search(rx, txt)
        res[key] = int(m.group(1)) if m else None
    sec, cur = None, None
    for line in txt.split('\n'):
        if line.startswith('dimensions:'):
            sec = 'dims'
        elif line.startswith('fixed-size variables:'):
            sec = 'fixed'
        elif line.startswith('record variables:'):
            sec = 'rec'
        elif sec == 'dims':
            m = re.match(r'^\t(\S+) = (UNLIMITED // \((-?\d+) currently\)|-?\d+)$', line)
            if m:
                res['dims'].append((m.group(1), ('U', int(m.group(3))) if m.group(3) is not None else int(m.group(2))))
        elif sec in ('fixed', 'rec'):
            m = re.match(r'^\t(byte|char|short|int|float|double|ubyte|ushort|uint|int64|uint64)\s+([^\s(:]+)(\((.*)\))?:', line)
            if m:
                cur = dict(name=m.group(2), type=m.group(1), dims=[d.strip() for d in m.group(4).split(',')] if m.group(4) else [],
                           kind=sec, starts=[], ends=[], size=None, gap=None)
                res['vars'].append(cur)
                continue
            if cur is None:
                continue
            m = re.match(r'^\t\s+start file offset =\s*(-?\d+)', line)
            if m:
                cur['starts'].append(int(m.group(1)))
            m = re.match(r'^\t\s+end   file offset =\s*(-?\d+)', line)
            if m:
                cur['ends'].append(int(m.group(1)))
            m = re.match(r'^\t\s+size in bytes     =\s*(-?\d+)', line)
            if m:
                cur['size'] = int(m.group(1))
            m = re.match(r'^\t\s+gap from prev var =\s*(-?\d+)', line)
            if m:
                cur['gap'] = int(m.group(1))
    return res


def expect_offsets(h, hl, flags, vlist=None):
    """what ncoffsets must print for the decoded header h (independent of the Lean model: Python decoder + the
    format's layout rules, record size of a single record variable unpadded)"""
    lay, recsize = layout(h)
    ids = list(range(len(h.vars))) if not vlist else [[v['name'] for v in h.vars].index(n.encode()) for n in vlist]
    fixed_ids = [i for i in range(len(h.vars)) if not lay[i][0]]
    rec_ids = [i for i in range(len(h.vars)) if lay[i][0]]
    res = dict(fmt=h.fmt, ndims=len(h.dims), nvars=len(h.vars), ngatts=len(h.gatts), size=hl,
               extent=(min(v['begin'] for v in h.vars) if h.vars else hl),
               dims=[(n.decode(), ('U', h.numrecs) if sz == 0 else sz) for n, sz in h.dims], vars=[])

    def uend(i):
        return h.vars[i]['begin'] + lay[i][2]
    for kind in ('fixed', 'rec'):
        for i in ids:
            isrec, shape, n, ln = lay[i]
            if isrec != (kind == 'rec'):
                continue
            v = h.vars[i]
            e = dict(name=v['name'].decode(), type=XT_NAME[v['xt']], dims=[h.dims[d][0].decode() for d in v['dimids']], kind=kind,
                     size=(n if 's' in flags else None), gap=None)
            nrec = (h.numrecs if 'r' in flags else 1) if isrec else 1
            e['starts'] = [v['begin'] + recsize * j for j in range(nrec)]
            e['ends'] = [v['begin'] + n + recsize * j for j in range(nrec)]
            if 'g' in flags:
                same = fixed_ids if not isrec else rec_ids
                prev = [j for j in same if j < i]
                if not isrec:
                    e['gap'] = v['begin'] - hl if (i == 0 or not prev) else v['begin'] - uend(prev[-1])
                elif i == 0 and not fixed_ids:
                    e['gap'] = v['begin'] - hl
                elif i == rec_ids[0]:
                    e['gap'] = v['begin'] - uend(fixed_ids[-1])
                else:
                    e['gap'] = v['begin'] - uend(prev[-1])
            res['vars'].append(e)
    gaps = 0
    for k, i in enumerate(fixed_ids):
        if i >= 1 and k > 0 and h.vars[i]['begin'] - uend(fixed_ids[k - 1]) != 0:
            gaps = 1
    return res, gaps


class Lean:
    """batched requests to the Lean driver"""
    def __init__(self):
        self.lines, self.keys = [], []

    def ask(self, key, line):
        self.keys.append(key)
        self.lines.append(line)

    def run(self, cfg_line=None):
        if cfg_line:
            self.keys.insert(0, ('CFG',))
            self.lines.insert(0, cfg_line)
        drv = os.path.join(LEAN, '.lake/build/bin/c20drv')
        import resource

        def lim():
            resource.setrlimit(resource.RLIMIT_AS, (8 << 30, 8 << 30))
        p = subprocess.run([drv], preexec_fn=lim, input='\n'.join(self.lines) + '\n', stdout=subprocess.PIPE, stderr=subprocess.PIPE, text=True)
        out = p.stdout.split('\n')
        if p.returncode != 0 or len(out) < len(self.lines):
            raise RuntimeError('c20drv failed rc=%s: %s' % (p.returncode, p.stderr[-500:]))
        return dict(zip(self.keys, out))


def hexof(b):
    return b.hex() if b else '-'


def pmap(fn, items, workers=8):
    with concurrent.futures.ThreadPoolExecutor(max_workers=workers) as ex:
        return list(ex.map(fn, items))


# ---------------------------------------------------------------------------------------------------
# byte-level variants of a valid file
# ---------------------------------------------------------------------------------------------------
def byte_variants(rng, b, tier):
    """[(class, expect, bytes)] ; expect: 'reject' = the header violates the format specification,
    'accept' = still a valid file, 'any' = tie only"""
    h, hl = decode(b)
    segs = segments(h)
    w = 8 if h.fmt == 5 else 4
    lay, recsize = layout(h)
    out = []

    def mut(label, new, rest=True):
        s2 = [[l, (new if l == label else x)] for l, x in segs]
        return join(s2) + (b[hl:] if rest else b'')

    def nn(n):
        return (n & ((1 << (8 * w)) - 1)).to_bytes(w, 'big')

    def u32(n):
        return (n & 0xffffffff).to_bytes(4, 'big')
    labels = [l for l, _ in segs]
    # magic, short, truncation
    for m in (b'CDG' + bytes([h.fmt]), b'CDF\x00', b'CDF\x03', b'CDF\x04', b'\x89HDF'):
        out.append(('magic', 'reject', m + b[4:]))
    out.append(('short', 'reject', b[:rng.range(0, 7)]))
    cuts = sorted({8, hl - 1, hl - 4} | {rng.range(8, hl - 1) for _ in range(6 if tier == 'thorough' else 3)})
    for k in cuts:
        if 8 <= k < hl:
            out.append(('truncated', 'reject', b[:k]))
    if len(b) > hl:
        out.append(('datatrunc', 'any', b[:rng.range(hl, len(b) - 1)]))
    # tags
    for tl, nl, own in [('d.tag', 'd.n', 10), ('g.atag', 'g.an', 12), ('v.tag', 'v.n', 11)] + \
                       [('v%d.atag' % i, 'v%d.an' % i, 12) for i in range(len(h.vars))]:
        n = int.from_bytes(dict(segs)[nl], 'big')
        if n > 0:
            t = rng.choice([t for t in (0, 10, 11, 12, 5, 13, 0x0a000000) if t != own])
            out.append(('tag', 'reject', mut(tl, u32(t))))
        else:
            out.append(('emptytag-own', 'any', mut(tl, u32(own))))
            out.append(('foreign-tag-empty', 'reject', mut(tl, u32(rng.choice([t for t in (10, 11, 12) if t != own])))))
            out.append(('tag', 'reject', mut(tl, u32(rng.choice([1, 5, 9, 13, 255])))))
    # counts
    for nl in ['d.n', 'g.an', 'v.n'] + ['v%d.an' % i for i in range(len(h.vars))] + ['v%d.ndims' % i for i in range(len(h.vars))]:
        n = int.from_bytes(dict(segs)[nl], 'big')
        if h.fmt < 5:
            out.append(('count-max', 'reject', mut(nl, nn(rng.choice([0x80000000, 0xffffffff])))))
        else:
            out.append(('count-max', 'reject', mut(nl, nn(rng.choice([0x80000000, 0x100000000, 0x7fffffffffffffff])))))
        out.append(('count-off', 'any', mut(nl, nn(n + 1))))
        if n > 0:
            out.append(('count-off', 'any', mut(nl, nn(n - 1))))
    # padding
    for l, x in segs:
        if (l.endswith('.namepad') or l.endswith('.valpad')) and len(x) > 0:
            bad = bytearray(x)
            bad[rng.below(len(bad))] = rng.range(1, 255)
            out.append(('padding', 'reject', mut(l, bytes(bad))))
    # types
    for l in [l for l in labels if l.endswith('.type')]:
        bads = [0, 12, 0xffffffff, 0x01000000] + ([7, 11] if h.fmt < 5 else [])
        out.append(('type', 'reject', mut(l, u32(rng.choice(bads)))))
    # dimids
    for l in [l for l in labels if '.dimid' in l]:
        bads = [len(h.dims), len(h.dims) + 7, 0x7fffffff] + ([0x80000000, 0xffffffff] if h.fmt < 5 else [])
        out.append(('dimid', 'reject', mut(l, nn(rng.choice(bads)))))
        if h.fmt == 5:
            # (int) of a 64-bit dimid keeps the low 32 bits: the validator sees a valid id
            out.append(('dimid-trunc64', 'reject', mut(l, nn((1 << 32) + int.from_bytes(dict(segs)[l], 'big')))))
    # record dimension
    unl = [i for i, d in enumerate(h.dims) if d[1] == 0]
    fixed = [i for i, d in enumerate(h.dims) if d[1] != 0]
    if unl and fixed:
        out.append(('unlim2', 'reject', mut('d%d.size' % rng.choice(fixed), nn(0))))
    if not unl:
        inner = sorted({d for v in h.vars for d in v['dimids'][1:]})
        if inner:
            out.append(('unlimpos', 'reject', mut('d%d.size' % rng.choice(inner), nn(0))))
    # vsize (redundant field: recomputed by every reader)
    for i in range(len(h.vars)):
        out.append(('vsize', 'accept', mut('v%d.vsize' % i, nn(rng.choice([0, 4, 12, 0x7ffffffc, 0xffffffff])))))
    # begins
    fx = [i for i, l in enumerate(lay) if not l[0]]
    rc_ = [i for i, l in enumerate(lay) if l[0]]
    ow = 4 if h.fmt == 1 else 8

    def bg(n):
        return (n & ((1 << (8 * ow)) - 1)).to_bytes(ow, 'big')
    for i in range(len(h.vars)):
        out.append(('begin-in-header', 'reject', mut('v%d.begin' % i, bg(rng.choice([0, 4, hl - 4, hl - 1])))))
    for grp in (fx, rc_):
        if len(grp) >= 2:
            i, j = grp[0], grp[1]
            s2 = [[l, x] for l, x in segs]
            d = dict(segs)
            for k in range(len(s2)):
                if s2[k][0] == 'v%d.begin' % i:
                    s2[k][1] = d['v%d.begin' % j]
                elif s2[k][0] == 'v%d.begin' % j:
                    s2[k][1] = d['v%d.begin' % i]
            if d['v%d.begin' % i] != d['v%d.begin' % j]:
                out.append(('begin-swapped', 'reject', join(s2) + b[hl:]))
            if lay[i][3] > 4:
                out.append(('begin-overlap', 'reject', mut('v%d.begin' % j, bg(h.vars[i]['begin'] + 4))))
    if fx and rc_:
        out.append(('begin-rec-before-fixed', 'reject', mut('v%d.begin' % rc_[0], bg(h.vars[fx[-1]]['begin']))))
    if h.vars:
        last = (rc_ or fx)[-1]
        out.append(('begin-gap', 'accept', mut('v%d.begin' % last, bg(h.vars[last]['begin'] + 4 * rng.range(1, 64)))))
    # sign bits of NON_NEG / OFFSET fields
    top = 1 << (8 * w - 1)
    out.append(('sign', 'reject', mut('numrecs', nn(top + rng.range(0, 5)))))
    used = {d for v in h.vars for d in v['dimids']}
    unused = [i for i in range(len(h.dims)) if i not in used and h.dims[i][1] != 0]
    if unused:
        out.append(('sign', 'reject', mut('d%d.size' % unused[0], nn(top + 3))))
    if h.fmt == 1 and h.vars:
        last = (rc_ or fx)[-1]
        out.append(('sign', 'reject', mut('v%d.begin' % last, bg(0x80000000 + h.vars[last]['begin']))))
    out.append(('streaming', 'any', mut('numrecs', nn((1 << (8 * w)) - 1))))
    return out


def scan_max(b, cap=100000):
    """largest read (name length, attribute bytes) the validator's parse of b asks for, following its path
    with zero extension; a guard for the list-based Lean driver only (over-estimates are harmless)"""
    pos = [0]
    mx = [0]

    class Stop(Exception):
        pass

    def rd(n):
        r = b[pos[0]:pos[0] + n]
        pos[0] += n
        return int.from_bytes(r + b'\0' * (n - len(r)), 'big')
    if b[:3] != b'CDF' or len(b) < 8 or b[3] not in (1, 2, 5):
        return 0
    fmt = b[3]
    w = 8 if fmt == 5 else 4
    pos[0] = 4

    def blob(n):
        mx[0] = max(mx[0], n)
        if n > (1 << 40):
            raise Stop()
        pos[0] += rnd4(n)

    def name():
        blob(rd(w))

    def lst(tag, item):
        t = rd(4)
        n = rd(w)
        if n > 0x7fffffff or t not in (0, 10, 11, 12) or (n > 0 and t != tag):
            raise Stop()
        if n > cap:
            mx[0] = 1 << 62
            raise Stop()
        for _ in range(n):
            item()

    def att():
        name()
        xt = rd(4)
        if xt not in XT_SIZE:
            raise Stop()
        blob(rd(w) * XT_SIZE[xt])

    def dim():
        name()
        rd(w)

    def var():
        name()
        nd = rd(w)
        if nd > 0x7fffffff:
            raise Stop()
        if nd > cap:
            mx[0] = 1 << 62
            raise Stop()
        pos[0] += nd * w
        lst(12, att)
        if rd(4) not in XT_SIZE:
            raise Stop()
        rd(w)
        rd(4 if fmt == 1 else 8)
    try:
        rd(w)
        lst(10, dim)
        lst(12, att)
        lst(11, var)
    except Stop:
        pass
    return mx[0]


def vlens_headers(rng, tier):
    """header-only files (the validator and ncmpi_open read only the header; the data would be sparse) whose variables
    sit around the per-format size limits 2^31-4 / 2^32-4 / 2^63-4 in every position: a too-large fixed-size variable
    last / not last / followed by record variables, a too-large record variable that is the last record variable with
    and without fixed-size variables after it, two too-large ones.  -> [(tag, bytes)]"""
    out = []
    for fmt in (1, 2, 5):
        M = {1: (1 << 31) - 4, 2: (1 << 32) - 4, 5: (1 << 63) - 4}[fmt]
        dmax = (1 << 63) - 1 if fmt == 5 else (1 << 31) - 1
        # byte variables: 'L' just above the limit, 'E' exactly at the limit, 'S' small; lower case = record variable
        def dims_for(n):
            """dimension lengths whose product is n"""
            if n <= dmax:
                return [n]
            for a in (2, 3, 4, 5, 7, 16, 65536):
                if n % a == 0 and n // a <= dmax:
                    return [a, n // a]
            return [2, min(dmax, (n + 1) // 2)]
        sizes = {'L': M + rng.choice([1, 2, 4, 5, 4096]), 'E': M - rng.choice([0, 0, 1, 3]), 'S': rng.choice([1, 3, 4, 10])}
        if fmt == 2:
            sizes['L'] = M + rng.choice([2, 4, 6, 4098])          # 2 x (2^31-1) is the largest two-dimensional byte shape
        patterns = ['L', 'E', 'SL', 'LS', 'LL', 'EL', 'SE', 'Sl', 'lS', 'l', 'e', 'sl', 'ls', 'll', 'el', 'slS', 'lsS', 'Ll', 'lL', 'LSs', 'SsL', 'sS',
                    'Sls', 'lSl', 'eS', 'lSS']
        if tier != 'thorough':
            patterns = patterns[:2] + rng.shuffle(patterns[2:])[:14] + ['slS', 'lS']
        if fmt == 5:
            # beyond 2^32 but far below 2^63: "large" for CDF-1/2 only, CDF-5 must accept in every position
            sizes['B'] = (1 << 33) + rng.choice([0, 1, 12345])
            patterns = patterns + [q.replace('L', 'B').replace('l', 'b') for q in patterns if 'L' in q or 'l' in q]
        for pat in sorted(set(patterns)):
            dims, vars_ = [(b't', 0)], []
            for i, c in enumerate(pat):
                n = sizes[c.upper()]
                xt = 1
                if c.upper() == 'S' and rng.chance(1, 3):
                    xt = rng.choice([3, 4, 6])
                ids = []
                for dl in dims_for(n):
                    dims.append((('d%d' % len(dims)).encode(), dl))
                    ids.append(len(dims) - 1)
                if c.islower():
                    ids = [0] + ids
                vars_.append(dict(name=('v%d' % i).encode(), dimids=ids, atts=[], xt=xt, vsize=0, begin=0, _n=n * XT_SIZE[xt], _rec=c.islower()))
            h = Hdr(fmt, 0, dims, [], vars_)
            hl = len(join(segments(h)))
            pos = rnd4(hl)
            for v in [v for v in vars_ if not v['_rec']] + [v for v in vars_ if v['_rec']]:
                v['begin'] = pos
                ln = rnd4(v['_n'])
                v['vsize'] = (ln if ln < (1 << 62) else 0) if fmt == 5 else (ln if ln < (1 << 32) - 3 else (1 << 32) - 1)
                pos += ln
            hb = join(segments(h))
            # sizes next to 2^63 overflow `long long` in the C (len rounding, begin + len): outside the model
            overflow = fmt == 5 and any(c in 'LlEe' for c in pat)
            out.append(('%d:%s%s' % (fmt, pat, ':overflow' if overflow else ''), hb + b'\0' * (rnd4(hl) - hl)))
    return out


SIG_VALIDATOR = {'truncated': 'validator-accepts-truncated-header', 'sign': 'validator-accepts-negative-field',
                 'foreign-tag-empty': 'validator-accepts-foreign-tag-on-empty-list',
                 'dimid-trunc64': 'validator-truncates-64bit-dimid'}


def synthetic_headers():
    """a few valid files built by the Python encoder: shapes the random library-written files rarely have"""
    res = []
    for fmt in (1, 2, 5):
        h = Hdr(fmt, 0, [], [], [])
        res.append(join(segments(h)))
        h = Hdr(fmt, 2, [(b't', 0), (b'xx', 3), (b'unused', 7)], [(b'title', 2, 5, b'hello'), (b'n', 3, 3, pack_vals(3, [1, 2, 3]))], [])
        hl = len(join(segments(Hdr(fmt, 2, h.dims, h.gatts, [
            dict(name=b'a', dimids=[1], atts=[(b'u', 2, 1, b'm')], xt=1, vsize=4, begin=0),
            dict(name=b'bcd', dimids=[], atts=[], xt=6, vsize=8, begin=0),
            dict(name=b'r1', dimids=[0, 1], atts=[], xt=3, vsize=8, begin=0),
            dict(name=b'r2', dimids=[0], atts=[(b'e', 2, 0, b'')], xt=4, vsize=4, begin=0)]))))
        b0 = rnd4(hl) + 8
        h.vars = [dict(name=b'a', dimids=[1], atts=[(b'u', 2, 1, b'm')], xt=1, vsize=4, begin=b0),
                  dict(name=b'bcd', dimids=[], atts=[], xt=6, vsize=8, begin=b0 + 4),
                  dict(name=b'r1', dimids=[0, 1], atts=[], xt=3, vsize=8, begin=b0 + 12),
                  dict(name=b'r2', dimids=[0], atts=[(b'e', 2, 0, b'')], xt=4, vsize=4, begin=b0 + 20)]
        hb = join(segments(h))
        res.append(hb + b'\0' * (b0 - len(hb)) + bytes(range(1, 13)) + bytes(range(1, 25)))
    return res


# ---------------------------------------------------------------------------------------------------
# the check
# ---------------------------------------------------------------------------------------------------
def run_check(tier, seed):
    V = Verdict(PROP, tier, seed)
    rng = SplitMix64(seed * 104729 + 20)
    V.assumptions = [
        'ncmpidump (CDL printing), ncmpigen (yacc grammar) and ncoffsets are not modelled: they are tied differentially only (PARTIAL)',
        'the 1 MiB read window of ncvalidator is modelled as a flat zero-extended reader (every window starts 4-byte aligned)',
        '64-bit header fields with the sign bit set are outside the modelled domain of Tools.validate (implementation-defined casts and undefined behaviour in the C); the model rejects them',
        'typed comparison of ncmpidiff (values converted to memory types) is modelled as comparison of the external bytes: exact except for NaN (never equal to itself) and -0.0 = +0.0',
        'malloc failure of the utilities for huge positive sizes is not modelled',
        'vsize is treated as redundant (the format text says so): a wrong vsize is not a header violation',
        'the utilities are modelled in both variants of every repairable finding (VCfg / DiffCfg flags: pinned source, and with the repairs of C20-F1..F6); the run determines from the witness replays which variant the tree follows, ties to that one, and both variants have their theorems proved',
    ]
    V.cov['trusted_base'] = TRUSTED_BASE_COMMON + ['checks/c20.py: Python classic-format codec and CDL reader (independent oracle for dump/offsets/round trip)',
                                                   'harness/apirun.c (files are written by the real library through the public API)']
    tree = build_impl('plain')
    wd = workdir('c20')
    try:
        return _run(V, rng, tier, seed, tree, wd)
    finally:
        cleanup(wd)


def _run(V, rng, tier, seed, tree, wd):
    thorough = (tier == 'thorough')
    # ---- tools first: the scratch build is shared and may be evicted by a concurrent check of another tree
    T = None
    for attempt in (1, 2):
        try:
            T = build_tools(tree, wd)
            apirun = apicmp.build_apirun(tree, wd)
            T['part'] = build_part_harness(tree, wd)
            break
        except BuildFailed as ex:
            if attempt == 1 and not os.path.exists(os.path.join(tree, 'src/utils/ncvalidator/ncvalidator.c')):
                tree = build_impl('plain')
                continue
            V.broken_tie('utilities do not compile', str(ex)[-1500:])
            return V.finish()
    log('[S1] utilities and apirun compiled from %s (%.1fs)' % (tree, V.t.s()))
    # ---- S3 prove
    ok, out = lake_build(['PnVerif.Props.C20', 'c20drv'])
    log('[S3] lake build %s (%.1fs)' % ('ok' if ok else 'FAILED', V.t.s()))
    failed_thms = set()
    if not ok:
        for f, ln, msg in lake_errors(out):
            t = theorem_at(f, ln)
            if t:
                failed_thms.add(t)
        log('[S3] lake build FAILED; theorems that no longer check:', sorted(failed_thms)[:20])
    obl = obligations_of('PnVerif/Props/C20.lean')
    discharged, bad = axiom_audit('PnVerif.Props.C20', obl, 'PnVerif.Props.C20') if ok else ([], [])
    forb = grep_forbidden([os.path.join(LEAN, f) for f in LEAN_FILES])
    log('[S3] axiom audit: %d of %d obligations discharged (%.1fs)' % (len(discharged), len(obl), V.t.s()))
    V.cov['obligations'] = len(obl)
    V.cov['discharged'] = len(discharged)
    V.cov['checker_cmd'] = 'cd lean && lake build PnVerif.Props.C20 c20drv && lake env lean <#print axioms of every obligation>'
    if thorough and ok:
        lc = leanchecker(['PnVerif.Props.C20'])
        V.cov['leanchecker'] = 'ok' if not lc else str(lc)
        if lc:
            bad.append(('leanchecker', lc))
    proof_broken = (not ok) or bad or forb or len(discharged) < len(obl)
    if not os.path.exists(os.path.join(LEAN, '.lake/build/bin/c20drv')):
        V.broken_tie('Lean driver c20drv does not build', out[-1500:])
        return V.finish()
    fails = []        # (sig, description, replay)
    ties = []         # (stream, detail)
    dist = {}
    distinct = set()
    evals = [0]
    samples = []

    def count(k, n=1):
        dist[k] = dist.get(k, 0) + n

    def fail(sig, what, replay):
        fails.append((sig, what, replay))

    def save(name, data):
        p = os.path.join(wd, name)
        with open(p, 'wb') as f:
            f.write(data)
        return p

    # =====================================================================================
    # stream lib: files written by the library from logical descriptions
    # =====================================================================================
    nbase = 45 if thorough else 6
    prog = apigen.Prog('-', 1)
    files = {}          # key -> dict(path, L, steps)
    groups = []         # (base key, [(variant key, tag, equal)])
    for k in range(nbase):
        fmt = (1, 2, 5)[k % 3]
        L = gen_logical(rng, fmt, ext_atts=(k % 2 == 1))
        bk = 'b%d' % k
        files[bk] = dict(path=os.path.join(wd, bk + '.nc'), L=L, kw={})
        files[bk]['steps'] = emit_script(prog, files[bk]['path'], L)
        vs = []
        for j, (tag, equal, M, kw) in enumerate(variants_of(rng, L)):
            vk = '%s_%d' % (bk, j)
            files[vk] = dict(path=os.path.join(wd, vk + '.nc'), L=M, kw=kw)
            files[vk]['steps'] = emit_script(prog, files[vk]['path'], M, **kw)
            vs.append((vk, tag, equal))
        groups.append((bk, vs))
    # fixed witnesses written by the library (known findings and the cdfdiff crash)
    W = dict(fmt=1, dims=[('t', 0), ('x', 3)], gatts=[('title', 'char', [104, 105])], numrecs=2,
             vars=[dict(name='vb', xt='byte', dims=['x'], atts=[('ab', 'byte', [1, 2])], data=[[1, 2, 3]]),
                   dict(name='vr', xt='int', dims=['t', 'x'], atts=[('u', 'char', [109])], data=[[1, 2, 3], [4, 5, 6]])])
    W_rec = clone(W); W_rec['numrecs'] = 3; W_rec['vars'][1]['data'].append([7, 8, 9])
    W_byte = clone(W); W_byte['vars'][0]['data'][0][1] = 9
    W_batt = clone(W); W_batt['vars'][0]['atts'][0] = ['ab', 'byte', [1, 3]]
    W_noatt = clone(W); W_noatt['gatts'] = []
    W_ext = dict(fmt=5, dims=[('x', 2)], gatts=[('gu', 'uint', [7])], numrecs=0,
                 vars=[dict(name='v', xt='int', dims=['x'], atts=[('al', 'int64', [5])], data=[[1, 2]])])
    W_empty = dict(fmt=2, dims=[('x', 1)], gatts=[('g', 'int', [1])], numrecs=0,
                   vars=[dict(name='v', xt='int', dims=['x'], atts=[('a0', 'char', []), ('a1', 'short', [61, 2])], data=[[34]])])
    for nm, L in [('w', W), ('w_rec', W_rec), ('w_byte', W_byte), ('w_batt', W_batt), ('w_noatt', W_noatt), ('w_ext', W_ext), ('w_empty', W_empty)]:
        files[nm] = dict(path=os.path.join(wd, nm + '.nc'), L=L, kw={})
        files[nm]['steps'] = emit_script(prog, files[nm]['path'], L)
    # files for ncmpidiff on 2 and 3 ranks: one-dimensional variables of every length 1..13 (fixed: f<L>(e<L>); record
    # variables g<L>(t, e<L>) with one record: split along the inner dimension), every index edited in turn; and record
    # variables h(t) with L records (split along the record dimension)
    MAXL = 13
    def mr_base():
        return dict(fmt=1, dims=[('t', 0)] + [('e%d' % n, n) for n in range(1, MAXL + 1)], gatts=[('g', 'int', [1])], numrecs=1,
                    vars=[dict(name='f%d' % n, xt='int', dims=['e%d' % n], atts=[('a', 'int', [n])], data=[[10 + i for i in range(n)]]) for n in range(1, MAXL + 1)] +
                         [dict(name='g%d' % n, xt='short', dims=['t', 'e%d' % n], atts=[('a', 'int', [n])], data=[[20 + i for i in range(n)]]) for n in range(1, MAXL + 1)])
    files_big = {}
    mr_pairs = []        # (a, b, {var: edited multi-index})
    Lb = mr_base()
    files['mr_b'] = dict(path=os.path.join(wd, 'mr_b.nc'), L=Lb, kw={})
    for k in range(MAXL):
        M = mr_base()
        ed = {}
        for v in M['vars']:
            n = len(v['data'][0])
            if k < n:
                v['data'][0][k] += 1
                ed[v['name']] = ([k] if v['name'][0] == 'f' else [0, k])
        files['mr_b_%d' % k] = dict(path=os.path.join(wd, 'mr_b_%d.nc' % k), L=M, kw={})
        mr_pairs.append(('mr_b', 'mr_b_%d' % k, ed))
    for n in ((2, 3, 5, 9, 11, 13) if not thorough else range(1, MAXL + 1)):
        def rl(edit=None):
            return dict(fmt=2, dims=[('t', 0)], gatts=[('g', 'int', [1])], numrecs=n,
                        vars=[dict(name='h', xt='int', dims=['t'], atts=[('a', 'int', [n])], data=[[30 + i + (1 if i == edit else 0)] for i in range(n)])])
        files['mr_r%d' % n] = dict(path=os.path.join(wd, 'mr_r%d.nc' % n), L=rl(), kw={})
        for k in range(n):
            files['mr_r%d_%d' % (n, k)] = dict(path=os.path.join(wd, 'mr_r%d_%d.nc' % (n, k)), L=rl(k), kw={})
            mr_pairs.append(('mr_r%d' % n, 'mr_r%d_%d' % (n, k), {'h': [k]}))
    for k_, f_ in files.items():
        if k_.startswith('mr_'):
            f_['steps'] = emit_script(prog, f_['path'], f_['L'])
    # big variables (cdfdiff reads in chunks of 4 MiB): one variable v of 4 MiB + 6, 8 MiB - 4, 8 MiB, 9.5 MiB + 2 bytes
    # followed by a small variable z, under two layouts, a single value edited at the first / last element, around the
    # chunk boundaries and in z.  Only those elements are written (nofill: the rest of the sparse file reads as zeros).
    MiB = 1 << 20
    BIG = [('fs', 'short', 2, (4 * MiB + 6) // 2, False, False, 1), ('ri', 'int', 4, (8 * MiB - 4) // 4, True, True, 1),
           ('fd', 'double', 8, (8 * MiB) // 8, False, True, 1), ('rs', 'short', 2, (19 * MiB // 2 + 2) // 2, True, True, 2)]
    BIG_LAYOUT_B = {'fs': ('nc_header_align_size=8192', 'enddef'), 'ri': ('nc_record_align_size=8192', 'enddef'),
                    'fd': ('-', 'enddef2 0 4 8192 4'), 'rs': ('nc_header_align_size=4096;nc_record_align_size=4096', 'enddef')}
    big_pairs = []       # (a, b, equal, expected variable names with DIFF lines)
    for tagb, xt_, esz, nel, vrec, zrec, nrec in BIG:
        pts = sorted({0, nel - 1} | {e for bnd in (4 * MiB // esz, 8 * MiB // esz) for e in (bnd - 1, bnd, bnd + 1) if 0 < e < nel - 1})
        lastrec = nrec - 1
        def big_script(key, hints, enddef_, edit):
            pth = os.path.join(wd, key + '.nc')
            files_big[key] = pth
            a_ = prog.all
            a_('create %s 2 clobber %s' % (pth, hints))
            if vrec or zrec:
                a_('def_dim t 0')
            a_('def_dim n %d' % nel)
            a_('def_dim c 3')
            a_('def_var v %s %d %s' % (xt_, 2 if vrec else 1, 't n' if vrec else 'n'))
            a_('def_var z int %d %s' % (2 if zrec else 1, 't c' if zrec else 'c'))
            a_(enddef_)
            for q, e in enumerate(pts):
                val = 1 + q + (1 if edit == ('v', e) else 0)
                a_('put var1 c v %s c %s - - - : %d' % (MEMT[xt_], ('%d,%d' % (lastrec, e)) if vrec else str(e), val))
            if vrec and nrec > 1:
                a_('put var1 c v %s c 0,0 - - - : 9' % MEMT[xt_])
            for rr in range(nrec if zrec else 1):
                for e in range(3):
                    val = 11 + e + (1 if edit == ('z', e) and rr == (nrec - 1 if zrec else 0) else 0)
                    a_('put var1 c z int c %s - - - : %d' % (('%d,%d' % (rr, e)) if zrec else str(e), val))
            a_('close')
        big_script('bg_%s_A' % tagb, '-', 'enddef', None)
        hb_, eb_ = BIG_LAYOUT_B[tagb]
        big_script('bg_%s_B' % tagb, hb_, eb_, None)
        big_pairs += [('bg_%s_A' % tagb, 'bg_%s_B' % tagb, True, set()), ('bg_%s_B' % tagb, 'bg_%s_A' % tagb, True, set())]
        for e in pts:
            big_script('bg_%s_v%d' % (tagb, e), '-', 'enddef', ('v', e))
            big_pairs.append(('bg_%s_A' % tagb, 'bg_%s_v%d' % (tagb, e), False, {'v'}))
        big_script('bg_%s_z1' % tagb, hb_, eb_, ('z', 1))
        big_pairs.append(('bg_%s_A' % tagb, 'bg_%s_z1' % tagb, False, {'z'}))
    # files for ncoffsets: the record-packing special case (exactly ONE record variable whose record size is not a
    # multiple of 4: records lie unpadded one after the other) with 0..3 fixed-size variables before / after it and
    # 0..4 records; two record variables (padded records); no record variable
    ODD = [('short', 3), ('byte', 1), ('char', 3), ('byte', 5), ('short', 1), ('char', 2), ('int', 1)]
    po_pats = [tuple('F' * p + 'R' + 'F' * (nf - p)) for nf in range(0, 4) for p in range(0, nf + 1)] + \
              [('R', 'R'), ('F', 'R', 'R'), ('R', 'F', 'R'), ('R', 'R', 'F'), ('F', 'F'), ('F',)]
    po_keys = []
    for pi, pat in enumerate(po_pats):
        for nr in (range(0, 5) if thorough else [(pi + seed) % 5, (pi + seed + 2) % 5][:(2 if 'R' in pat and pat.count('R') == 1 else 1)]):
            fmt_ = (1, 2, 5)[(pi + nr) % 3]
            dims_ = [('t', 0), ('a', 3), ('b', 5), ('c', 2)] if 'R' in pat else [('a', 3), ('b', 5), ('c', 2)]
            vars_ = []
            for vi, c_ in enumerate(pat):
                if c_ == 'R':
                    xt_, n_ = rng.choice(ODD[:-1] if pat.count('R') == 1 else ODD)
                    dn = {1: [], 2: ['c'], 3: ['a'], 5: ['b']}[n_]
                    vars_.append(dict(name='r%d' % vi, xt=xt_, dims=['t'] + dn, atts=[('a', 'int', [vi])], data=None))
                else:
                    xt_, dn = rng.choice([('int', ['a']), ('byte', ['a']), ('short', ['b']), ('double', []), ('char', ['c', 'a']), ('short', [])])
                    vars_.append(dict(name='f%d' % vi, xt=xt_, dims=dn, atts=[('a', 'int', [vi])], data=None))
            Lp = dict(fmt=fmt_, dims=dims_, gatts=[('g', 'int', [1])], vars=vars_, numrecs=(nr if 'R' in pat else 0))
            fill_data(rng, Lp)
            key_ = 'po_%d_%d' % (pi, nr)
            files[key_] = dict(path=os.path.join(wd, key_ + '.nc'), L=Lp, kw={})
            files[key_]['steps'] = emit_script(prog, files[key_]['path'], Lp)
            po_keys.append(key_)
    if thorough:
        # a header larger than ncvalidator's 1 MiB read window (the model reads flat): 300 text attributes of 4001 bytes
        BIG = dict(fmt=1, dims=[('x', 2)], gatts=[('big%03d' % i, 'char', [97 + (i + j) % 26 for j in range(4001)]) for i in range(300)],
                   numrecs=0, vars=[dict(name='v', xt='short', dims=['x'], atts=[('u', 'char', [109])], data=[[1, 2]])])
        files['big'] = dict(path=os.path.join(wd, 'big.nc'), L=BIG, kw={})
        files['big']['steps'] = emit_script(prog, files['big']['path'], BIG)
    sp = save('lib_script.txt', prog.text().encode())
    rc, impl, err = apicmp.run_impl(apirun, sp, 1, wd, timeout=300, alarm=120)
    res = {}
    for l in impl:
        t = l.split()
        if len(t) >= 4 and t[0].isdigit():
            res[int(t[0])] = t
    badsteps = [t for t in res.values() if t[3] != '0']
    if rc != 0 or badsteps or len(res) < prog.step:
        V.broken_tie('harness: apirun could not write the files of stream lib', dict(rc=rc, bad=badsteps[:5], err=err[-800:], got=len(res), want=prog.step))
        return V.finish()
    for k, f in files.items():
        f['bytes'] = open(f['path'], 'rb').read()
        f['h'], f['hl'] = decode(f['bytes'])
    log('[S4] stream lib: %d files written by the library (%.1fs)' % (len(files), V.t.s()))
    lean = Lean()
    # ---- per file: harness sanity, validator, offsets, dump
    def per_file(k):
        f = files[k]
        r = {}
        r['val'] = run_validator(T, f['path'])
        r['off'] = run([T['ncoffsets'], f['path']])
        r['dump'] = run([T['ncmpidump'], '-p', '9,17', f['path']])
        return k, r
    tool_res = dict(pmap(per_file, [k for k in files if not k.startswith('mr_')]))
    for k, f in files.items():
        if k.startswith('mr_'):
            continue
        b, h = f['bytes'], f['h']
        evals[0] += 4
        # the harness itself: the file holds what the logical description says
        try:
            if logical_of(b) != logical_to_content(f['L']):
                ties.append(('harness', 'file %s does not hold its logical description' % k))
                continue
        except Exception as ex:
            ties.append(('harness', 'file %s: python decoder failed: %s' % (k, ex)))
            continue
        lean.ask(('V', k), 'V ' + hexof(b))
        lean.ask(('O', k), 'O ' + hexof(b))
        rc, classes, txt = tool_res[k]['val']
        count('lib-file fmt%d' % h.fmt)
        if rc != 0:
            fail('validator-rejects-library-file', 'ncvalidator rejects a file written by the library: ' + txt[-300:],
                 dict(script=prog.text(), file=k, logical=f['L']))
        f['val_rc'] = rc
        # ncoffsets vs library (inq_header, inq_varoffset) vs python decoder
        s_hdr, s_off = f['steps']
        lib_size, lib_ext = int(res[s_hdr][4]), int(res[s_hdr][5])
        lib_off = [int(res[s][4]) for s in s_off]
        orc, oso, ose = tool_res[k]['off']
        size, ext, offs = parse_offsets(oso)
        lay, recsize = layout(h)
        exp = {v['name'].decode(): (v['begin'], v['begin'] + l[2]) for v, l in zip(h.vars, lay)}
        byname = {v['name']: o for v, o in zip(f['L']['vars'], lib_off)}
        want_ext = min([v['begin'] for v in h.vars]) if h.vars else f['hl']
        if orc != 0 or size != f['hl'] or size != lib_size or ext != want_ext or (h.vars and ext != lib_ext) or offs != exp or \
           any(offs.get(n, (None,))[0] != o for n, o in byname.items()):
            fail('ncoffsets-disagrees', 'ncoffsets prints offsets/sizes that differ from the library and the independent decoder',
                 dict(file=k, logical=f['L'], kw=str(f['kw']), ncoffsets=(size, ext, offs), library=(lib_size, lib_ext, byname), decoder=(f['hl'], want_ext, exp)))
        f['offs'] = (size, ext, [exp[v['name'].decode()] for v in h.vars])
        # ncmpidump vs the file
        drc, dso, dse = tool_res[k]['dump']
        try:
            dd = cdl_vs_logical(parse_cdl(dso), h, b) if drc == 0 else ['exit status %d: %s' % (drc, dse[-200:])]
        except Exception as ex:
            dd = ['CDL reader failed: %r' % (ex,)]
        if dd:
            fail('ncmpidump-disagrees', 'ncmpidump prints metadata/values that differ from the file: %s' % dd[:3],
                 dict(file=k, logical=f['L'], diffs=dd[:10], dump=dso[-1500:]))
        distinct.add(('file', json.dumps(f['L'], sort_keys=True), str(f['kw'])))
    # ncoffsets with every option combination on the record-packing files (and on the base files of stream lib)
    OFF_OPTS = [(), ('-s',), ('-g',), ('-r',), ('-s', '-g'), ('-r', '-s'), ('-r', '-g'), ('-s', '-g', '-r'), ('-x',)]
    off_jobs = []
    for k in po_keys + [k for k in files if k.startswith('b') and '_' not in k]:
        names = [v['name'] for v in files[k]['L']['vars']]
        for o in OFF_OPTS:
            off_jobs.append((k, o, None))
        if names:
            sub = rng.shuffle(names)[:rng.range(1, len(names))]
            off_jobs.append((k, ('-s', '-g', '-r'), sub))
            off_jobs.append((k, ('-g',), [names[-1]]))
    off_res = pmap(lambda j: run([T['ncoffsets']] + list(j[1]) + (['-v', ','.join(j[2])] if j[2] else []) + [files[j[0]]['path']]), off_jobs, workers=12)
    log('[S4] per-file tools done, ncoffsets run with %d option/variable-list combinations (%.1fs)' % (len(off_jobs), V.t.s()))
    # ---- pairs
    pairs = []          # (a, b, tag, equal)
    for bk, vs in groups:
        pairs.append((bk, bk, 'self', True))
        for vk, tag, equal in vs:
            pairs.append((bk, vk, tag, equal))
            pairs.append((vk, bk, tag + ':rev', equal))
    pairs += [('w', 'w_rec', 'witness:record', False), ('w_rec', 'w', 'witness:record:rev', False),
              ('w', 'w_byte', 'witness:value:byte', False), ('w', 'w_batt', 'witness:att:byte', False),
              ('w', 'w_noatt', 'witness:noatt', False), ('w_noatt', 'w', 'witness:noatt:rev', False)]
    np_list = [1] + ([2, 3] if thorough else [])

    def per_pair(p):
        a, b, tag, equal = p
        r = {'cdf': run_cdfdiff(T, files[a]['path'], files[b]['path']), 'cdf16': run_cdfdiff(T, files[a]['path'], files[b]['path'], 'cdfdiff_c16')}
        for np_ in np_list:
            r['mpi%d' % np_] = run_ncmpidiff(T, files[a]['path'], files[b]['path'], np_)
        return (a, b), r
    pair_res = dict(pmap(per_pair, pairs))
    for a, b, tag, equal in pairs:
        lean.ask(('D', a, b), 'D %s %s' % (hexof(files[a]['bytes']), hexof(files[b]['bytes'])))
        lean.ask(('DK', a, b), 'DK 16 %s %s' % (hexof(files[a]['bytes']), hexof(files[b]['bytes'])))
    log('[S4] %d ordered pairs through cdfdiff/ncmpidiff (%.1fs)' % (len(pairs), V.t.s()))
    # ---- big variables: cdfdiff (4 MiB chunks) and ncmpidiff on the two layouts and the single-value edits
    def per_big(x):
        a, b, equal, names = x
        rc1, so1, se1 = run([T['cdfdiff'], files_big[a], files_big[b]])
        rc2, so2, se2 = run([T['ncmpidiff'], files_big[a], files_big[b]])
        return (rc1, so1), (rc2, so2)
    big_res = pmap(per_big, big_pairs, workers=8)
    log('[S4] %d pairs of files with a 4..9.5 MiB variable through cdfdiff/ncmpidiff (%.1fs)' % (len(big_pairs), V.t.s()))
    for (a, b, equal, names), res2 in zip(big_pairs, big_res):
        for tool, (rc_, so_) in zip(('cdfdiff', 'ncmpidiff'), res2):
            evals[0] += 1
            count('big-variable pair %s' % ('layout' if equal else 'edit'))
            distinct.add(('big', a, b, tool))
            got_names = set(diff_lines_by_var(so_))
            replay = dict(first=a, second=b, tool=tool, exit=rc_, output=so_[-600:], expected_equal=equal, expected_diff_variables=sorted(names),
                          script=[l for l in prog.lines if any(('/%s.nc' % k) in l for k in (a, b))][:2],
                          how='the two create ... close blocks of these files in the apirun script of stream lib (checks/c20.py, BIG); cdfdiff compares in chunks of 4 MiB')
            if equal and (rc_ != 0 or got_names):
                fail('diff-false-alarm:%s:big-variable-layout' % tool, '%s reports a difference between two files with the same logical content (variable of %s bytes, layouts differ): %s'
                     % (tool, a.split('_')[1], so_.strip().split('\n')[0][:200]), replay)
            elif not equal and (rc_ == 0 or got_names != names):
                fail('diff-misses:%s:big-variable-edit' % tool if rc_ == 0 else 'diff-blames-wrong-variable:%s:big-variable' % tool,
                     '%s on a single-value edit (%s): exit %s, DIFF lines for variables %s, the edit is in %s' % (tool, b, rc_, sorted(got_names), sorted(names)), replay)
    # ---- stream part: the per-rank partition of ncmpidiff
    # (1) the partition statements of main(), executed for every length 0..40 (and some shapes) on 1..6 processes
    part_lines = ['P %d %d' % (np_, n) for np_ in range(1, 7) for n in range(0, 41)]
    for _ in range(60 if not thorough else 300):
        part_lines.append('P %d %s' % (rng.range(1, 6), ' '.join(str(rng.choice([0, 1, 2, 3, 4, 5, 6, 7, 9, 13, 40])) for _ in range(rng.range(1, 4)))))
    pc = subprocess.run([T['part']], input='\n'.join(part_lines) + '\n', stdout=subprocess.PIPE, stderr=subprocess.PIPE, text=True)
    part_c = pc.stdout.split('\n')
    for i, l in enumerate(part_lines):
        lean.ask(('P', i), l)
    # (2) the real tool on 2 and 3 ranks: a single value edited at every index of variables of every length
    def per_mr(x):
        a, b, ed, np_ = x
        rc, so, se = mpirun(np_, [T['ncmpidiff'], files[a]['path'], files[b]['path']], timeout=120)
        return rc, so
    mr_jobs = [(a, b, ed, np_) for (a, b, ed) in mr_pairs for np_ in (2, 3)]
    mr_res = pmap(per_mr, mr_jobs, workers=8)
    mr_shapes = {}
    for (a, b, ed, np_) in mr_jobs:
        for vn in ed:
            v = [x for x in files[a]['L']['vars'] if x['name'] == vn][0]
            dm = dict(files[a]['L']['dims'])
            shape = [(files[a]['L']['numrecs'] if dm[d] == 0 else dm[d]) for d in v['dims']]
            mr_shapes[(np_, tuple(shape))] = None
    for key in mr_shapes:
        lean.ask(('PS',) + key, 'P %d %s' % (key[0], ' '.join(str(x) for x in key[1])))
    log('[S4] stream part: %d partition requests, ncmpidiff on 2 and 3 ranks for %d single-value edits (%.1fs)' % (len(part_lines), len(mr_jobs), V.t.s()))
    # ---- dump | gen round trip (files without attributes of the extended types; see the known finding)
    def has_ext_att(L):
        return any(a[1] in EXT for a in L['gatts']) or any(a[1] in EXT for v in L['vars'] for a in v['atts'])
    def has_empty_att(L):
        return any(not a[2] for a in L['gatts']) or any(not a[2] for v in L['vars'] for a in v['atts'])
    rt_keys = [k for k in files if (k.startswith('b') and not has_ext_att(files[k]['L']) and not has_empty_att(files[k]['L']))][:(40 if thorough else 10)] + ['w', 'w_ext', 'w_empty']

    def round_trip(k):
        f = files[k]
        outp = os.path.join(wd, 'rt_%s.nc' % k)
        rc1, cdl, e1 = run([T['ncmpidump'], '-p', '9,17', f['path']])
        ver = {1: '1', 2: '2', 5: '5'}[f['L']['fmt']]
        rc2, o2, e2 = run([T['ncmpigen'], '-v', ver, '-o', outp, '-'], stdin=cdl.encode('latin1'))
        if rc1 != 0 or rc2 != 0 or not os.path.exists(outp):
            return k, ('gen-failed', (o2 + e2)[-300:], None)
        d, rc3 = run_cdfdiff(T, f['path'], outp)
        b2 = open(outp, 'rb').read()
        try:
            same = logical_of(b2) == logical_of(f['bytes'])
        except Exception as ex:
            same = 'decoder: %s' % ex
        return k, (d, same, b2)
    for k, (d, same, b2) in pmap(round_trip, rt_keys):
        evals[0] += 1
        count('roundtrip')
        okrt = (d == '0,0' and same is True)
        if k == 'w_empty':
            if not okrt:
                fail('dumpgen-empty-char-attribute', 'ncmpidump | ncmpigen turns a zero-length NC_CHAR attribute into one of length 1: cdfdiff=%s' % (d,),
                     dict(logical=files[k]['L']))
            continue
        if k == 'w_ext':
            if not okrt:
                fail('dumpgen-extended-attr-suffix', 'ncmpidump | ncmpigen fails for a CDF-5 file with attributes of type uint/int64: %s' % (same if d == 'gen-failed' else d,),
                     dict(logical=files[k]['L']))
            continue
        if not okrt:
            fail('dumpgen-roundtrip-differs', 'ncmpidump | ncmpigen does not reproduce the logical content: cdfdiff=%s decoder=%s' % (d, same),
                 dict(file=k, logical=files[k]['L']))
        elif b2 is not None:
            lean.ask(('D', k, 'rt'), 'D %s %s' % (hexof(files[k]['bytes']), hexof(b2)))

    # =====================================================================================
    # stream prog: files written by the programs of the other properties
    # =====================================================================================
    log('[S4] round trips done (%.1fs)' % V.t.s())
    nprog = 30 if thorough else 4
    progs = []
    for i in range(nprog):
        npr = (1, 2, 3)[i % 3]
        path = os.path.join(wd, 'p%d.nc' % i)
        hints = rng.choice(['-', '-', 'nc_var_align_size=32', 'nc_header_align_size=256;nc_record_align_size=64'])
        p = apigen.gen_rw_program(SplitMix64(rng.next()), path, npr, hints=hints, reopen=True, dump=True)
        progs.append((i, npr, path, p))

    def run_prog(x):
        i, npr, path, p = x
        d = os.path.join(wd, 'pd%d' % i)
        os.makedirs(d, exist_ok=True)
        spath = os.path.join(d, 'script.txt')
        open(spath, 'w').write(p.text())
        rc, impl, err = apicmp.run_impl(apirun, spath, npr, d, timeout=120, alarm=60)
        if rc != 0 or not os.path.exists(path):
            return i, None
        # never-written, unfilled elements have unspecified content (DESIGN I.5): the abstract specification prints `?`
        # for them in the final `get var` of every variable; they are masked in the comparison of the dump with the file
        mask = None
        try:
            if os.path.exists(apicmp.APIDRV):
                src_, spec, serr = apicmp.run_spec(spath, npr)
                mask, cur = {}, None
                for l in spec:
                    t = l.split()
                    if len(t) < 4 or not t[0].isdigit() or int(t[0]) not in p.dump_steps or t[1] != '0':
                        continue
                    if t[2] == 'inq_var' and len(t) > 5:
                        cur = t[5]
                    elif t[2] == 'get' and cur is not None and ':' in t:
                        mask[cur] = [x == '?' for x in t[t.index(':') + 1:]]
                        cur = None
        except Exception:
            mask = None
        return i, dict(mask=mask, val=run_validator(T, path), cdf=run_cdfdiff(T, path, path), mpi=run_ncmpidiff(T, path, path, npr),
                       off=run([T['ncoffsets'], path]), dump=run([T['ncmpidump'], '-p', '9,17', path]))
    for (i, npr, path, p), (_, r) in zip(progs, pmap(run_prog, progs, workers=4)):
        if r is None:
            ties.append(('harness', 'program %d (%d ranks) of stream prog did not run' % (i, npr)))
            continue
        evals[0] += 5
        count('prog-file %d ranks' % npr)
        b = open(path, 'rb').read()
        key = 'p%d' % i
        replay = dict(script=p.text(), nprocs=npr)
        try:
            h, hl = decode(b)
        except DecodeError as ex:
            fail('library-file-undecodable', 'independent decoder rejects a library-written file: %s' % ex, replay)
            continue
        files[key] = dict(path=path, bytes=b, h=h, hl=hl, L=None, nan=has_nan(h, b), script=p.text(), nprocs=npr)
        lean.ask(('V', key), 'V ' + hexof(b))
        lean.ask(('D', key, key), 'D %s %s' % (hexof(b), hexof(b)))
        pair_res[(key, key)] = {'cdf': r['cdf'], 'mpi1': r['mpi']}
        pairs.append((key, key, 'self:prog', True))
        tool_res[key] = r
        if r['val'][0] != 0:
            fail('validator-rejects-library-file', 'ncvalidator rejects a file written by the library: ' + r['val'][2][-300:], replay)
        size, ext, offs = parse_offsets(r['off'][1])
        lay, recsize = layout(h)
        exp = {v['name'].decode(): (v['begin'], v['begin'] + l[2]) for v, l in zip(h.vars, lay)}
        if r['off'][0] != 0 or size != hl or offs != exp or (h.vars and ext != min(v['begin'] for v in h.vars)):
            fail('ncoffsets-disagrees', 'ncoffsets differs from the independent decoder', dict(replay, ncoffsets=(size, ext, offs), decoder=(hl, exp)))
        try:
            if r.get('mask') is None:
                count('prog-file without specification mask: values not compared')
                pc_ = parse_cdl(r['dump'][1])
                pc_['nodata'] = True
                dd = cdl_vs_logical(pc_, h, b) if r['dump'][0] == 0 else ['exit status %d' % r['dump'][0]]
            else:
                count('prog-file unspecified cells masked', sum(sum(m_) for m_ in r['mask'].values()))
                dd = cdl_vs_logical(parse_cdl(r['dump'][1]), h, b, mask=r['mask']) if r['dump'][0] == 0 else ['exit status %d' % r['dump'][0]]
        except Exception as ex:
            dd = ['CDL reader failed: %r' % (ex,)]
        if dd:
            fail('ncmpidump-disagrees', 'ncmpidump differs from the file: %s' % dd[:3], dict(replay, diffs=dd[:10]))
        distinct.add(('prog', p.text()))

    # =====================================================================================
    # stream vlens: header-only files with variables around the per-format size limits (val_NC_check_vlens)
    # =====================================================================================
    vl = vlens_headers(rng, tier)
    vl_prog = apigen.Prog('-', 1)
    vl_steps = []
    for i, (tag, hb) in enumerate(vl):
        pth = save('vl_%d.nc' % i, hb)
        vl_steps.append((vl_prog.all('open %s r -' % pth), vl_prog.all('close')))
    # the same shapes created by the library itself (no data written: the files stay header-only / sparse)
    vl_lib = []
    for fmt in (1, 2):
        for pat in (['lS', 'Sl', 'slS', 'SL', 'LS', 'l'] if thorough else ['lS', 'SL']):
            pth = os.path.join(wd, 'vlib_%d_%s.nc' % (fmt, pat))
            st = [vl_prog.all('create %s %d clobber -' % (pth, fmt)), vl_prog.all('def_dim t 0'), vl_prog.all('def_dim a 65536'),
                  vl_prog.all('def_dim b %d' % (32768 if fmt == 1 else 65536)), vl_prog.all('def_dim c 3')]
            for j, c in enumerate(pat):
                dn = {'L': 'a b', 'l': 't a b', 'S': 'c', 's': 't c'}[c]
                vl_prog.all('def_var v%d byte %d %s' % (j, len(dn.split()), dn))
            e = vl_prog.all('enddef')
            vl_prog.all('close')
            vl_lib.append((fmt, pat, pth, e))
    spv = save('vl_script.txt', vl_prog.text().encode())
    rcv, implv, errv = apicmp.run_impl(apirun, spv, 1, wd, timeout=300, alarm=120)
    resv = {}
    for l in implv:
        t = l.split()
        if len(t) >= 4 and t[0].isdigit():
            resv[int(t[0])] = t
    vl_val = pmap(lambda i: run_validator(T, os.path.join(wd, 'vl_%d.nc' % i)), list(range(len(vl))), workers=12)
    for i, (tag, hb) in enumerate(vl):
        lean.ask(('VL', i), 'V ' + hexof(hb))
    vl_libres = []
    for fmt, pat, pth, e in vl_lib:
        if e in resv and resv[e][3] == '0' and os.path.exists(pth):
            hb = open(pth, 'rb').read()
            try:
                hl_ = decode(hb)[1]
            except DecodeError:
                continue
            hb = hb[:rnd4(hl_) + 64]
            vl_libres.append((fmt, pat, hb, run_validator(T, pth)))
            lean.ask(('VLL', fmt, pat), 'V ' + hexof(hb))
    log('[S4] stream vlens: %d header-only files around the size limits, %d created by the library (%.1fs)' % (len(vl), len(vl_libres), V.t.s()))

    # =====================================================================================
    # stream bytes: header-violating variants
    # =====================================================================================
    log('[S4] stream prog done (%.1fs)' % V.t.s())
    bases = synthetic_headers() + [files[k]['bytes'] for k in files if k.startswith('b') and '_' not in k][:(20 if thorough else 4)]
    variants = []
    if 'big' in files:
        bb = files['big']['bytes']
        segs = segments(files['big']['h'])
        pos = 0
        for l, x in segs:
            if l.endswith('.valpad') and len(x) > 0 and pos > (1 << 20) - 9000:
                bad = bytearray(bb)
                bad[pos + rng.below(len(x))] = 1 + rng.below(255)
                variants.append((-2, 'padding', 'reject', bytes(bad)))
            pos += len(x)
        variants = variants[:6]
        variants.append((-2, 'vsize', 'accept', bb))
    for bi, b in enumerate(bases):
        for cls, expect, vb in byte_variants(rng, b, tier):
            variants.append((bi, cls, expect, vb))
    # fixed witnesses of the validator findings
    variants.append((-1, 'truncated', 'reject', b'CDF\x01\0\0\0\0'))
    variants.append((-1, 'sign', 'reject', b'CDF\x01\x80\0\0\0' + b'\0' * 24))
    variants.append((-1, 'foreign-tag-empty', 'reject', b'CDF\x01\0\0\0\0' + b'\0\0\0\x0b\0\0\0\0' + b'\0' * 16))
    d5 = Hdr(5, 0, [(b'x', 2)], [], [dict(name=b'v', dimids=[(1 << 32)], atts=[], xt=4, vsize=8, begin=0)])
    d5.vars[0]['begin'] = len(join(segments(d5)))
    variants.append((-1, 'dimid-trunc64', 'reject', join(segments(d5)) + b'\0' * 8))

    sizes = [scan_max(v[3]) for v in variants]

    def run_variant(x):
        i, (bi, cls, expect, vb) = x
        if sizes[i] > (1 << 26):
            return (None, [], 'skipped')      # the tool would allocate and zero-fill that much memory
        p = os.path.join(wd, 'var_%d.nc' % i)
        with open(p, 'wb') as fh:
            fh.write(vb)
        r = run_validator(T, p)
        os.unlink(p)
        return r
    vres = pmap(run_variant, list(enumerate(variants)), workers=12)
    huge = set()
    for i, (bi, cls, expect, vb) in enumerate(variants):
        if sizes[i] > (1 << 20):
            huge.add(i)         # the list-based driver cannot hold such a read; tool only
            continue
        lean.ask(('B', i), 'V ' + hexof(vb))

    log('[S4] %d byte-level variants through ncvalidator (%.1fs)' % (len(variants), V.t.s()))
    # ---- which code variants does the tree follow?  (witness replays; the pinned source answers 0 everywhere)
    def wit(cls):
        i = [k for k, v in enumerate(variants) if v[0] == -1 and v[1] == cls][0]
        return int(vres[i][0] != 0)
    variant = dict(strictLen=wit('truncated'), strictSign=wit('sign'), strictTag=wit('foreign-tag-empty'), dimid64=wit('dimid-trunc64'),
                   cmpNumrecs=int(pair_res[('w', 'w_rec')]['cdf'][1] != 0), byteCmp=int(pair_res[('w', 'w_byte')]['mpi1'][1] != 0))
    V.cov['code_variants'] = variant
    log('[S4] code variants found by the witness replays (1 = repaired): %s' % variant)
    cfg_line = 'CFG %d %d %d %d %d %d' % (variant['strictLen'], variant['strictSign'], variant['strictTag'], variant['dimid64'],
                                          variant['cmpNumrecs'], variant['byteCmp'])
    # ---- the Lean side
    try:
        ans = lean.run(cfg_line)
    except RuntimeError as ex:
        V.broken_tie('Lean driver failed', str(ex))
        return V.finish()

    log('[S4] Lean driver answered %d requests (%.1fs)' % (len(ans), V.t.s()))
    # validator on library files: model
    for k, f in files.items():
        a = ans.get(('V', k))
        if a is None:
            continue
        t = a.split()
        if t[1] != 'ok' or t[2] != '2':
            if tool_res[k]['val'][0] == 0:
                ties.append(('validate', 'library-written file %s: model verdict %s (spec level %s), tool accepts' % (k, t[1], t[2])))
        o = ans.get(('O', k))
        if o is not None and 'offs' in f:
            size, ext, ex = f['offs']
            want = 'O %d %d %s' % (size, ext, ' '.join('%d %d' % e for e in ex))
            f['lean_O'] = o
            if o.split(' R ')[0].strip() != want.strip():
                ties.append(('offsets', 'file %s: model layout "%s", tools "%s"' % (k, o, want)))
    # diff pairs
    for a, b, tag, equal in pairs:
        r = pair_res[(a, b)]
        m = ans[('D', a, b)].split()
        evals[0] += len(r)
        count('pair ' + tag.split(':')[0] + (':' + tag.split(':')[1] if tag.startswith('layout') or tag.startswith('name') else ''))
        distinct.add(('pair', a, b) if a[0] == 'p' else ('pair', json.dumps(files[a]['L'], sort_keys=True), json.dumps(files[b]['L'], sort_keys=True), str(files[b].get('kw')), str(files[a].get('kw'))))
        replay = dict(tag=tag, first=files[a].get('L'), second=files[b].get('L'), first_kw=str(files[a].get('kw')), second_kw=str(files[b].get('kw')),
                      script=(prog.text() if a[0] != 'p' else None))
        # specification side of the model agrees with the construction
        if m[3] != ('1' if equal else '0'):
            ties.append(('logicalEq', 'pair %s/%s (%s): Tools.logicalEqB says %s, construction says equal=%s' % (a, b, tag, m[3], equal)))
        if a[0] == 'p':
            replay = dict(tag=tag, script=files[a]['script'], nprocs=files[a]['nprocs'])
        tl = [('cdfdiff', r['cdf'], m[1])]
        if 'cdf16' in r and ('DK', a, b) in ans:
            tl.append(('cdfdiff', r['cdf16'], ans[('DK', a, b)].split()[1]))       # READ_CHUNK_SIZE = 16 vs Tools.cdfdiffRecordSame 16
        for tool, got, mod in tl + [('ncmpidiff', r['mpi%d' % np_], m[2]) for np_ in np_list if 'mpi%d' % np_ in r]:
            out_, rc_ = got
            if tool == 'ncmpidiff' and (files[a].get('nan') or files[b].get('nan')):
                count('ncmpidiff pair with NaN values (typed comparison, outside the model)')
                continue
            same = (rc_ == 0)
            if same != equal:
                if equal:
                    sig = 'diff-false-alarm:%s:%s' % (tool, tag.split(':')[0])
                elif tool == 'cdfdiff' and tag in ('record', 'witness:record'):
                    sig = 'cdfdiff-ignores-extra-records'
                elif tool == 'ncmpidiff' and (tag.startswith('value:byte') or tag.startswith('att:byte') or tag.startswith('witness:value:byte') or tag.startswith('witness:att:byte')):
                    sig = 'ncmpidiff-skips-nc-byte'
                else:
                    sig = 'diff-misses:%s:%s' % (tool, tag.split(':')[0])
                fail(sig, '%s %s on files that are logically %s (%s): output %s' % (tool, 'reports no difference' if same else 'reports a difference', 'equal' if equal else 'different', tag, out_), replay)
            # tie: exit status and counts
            mod_same = (mod == '0,0')
            if mod_same != same:
                ties.append(('diff', '%s pair %s/%s (%s): model %s, tool %s rc=%s' % (tool, a, b, tag, mod, out_, rc_)))
            elif tool == 'cdfdiff' or got is r.get('mpi1'):
                count('pair %s exact counts compared' % ('cdfdiff chunk 16' if got is r.get('cdf16') else tool))
                if out_ != mod and not (mod == 'crash' and out_ == 'crash'):
                    ties.append(('diff-count', '%s pair %s/%s (%s): model %s, tool %s' % (tool, a, b, tag, mod, out_)))
    for k in rt_keys:
        a = ans.get(('D', k, 'rt'))
        if a is not None and a.split()[1:] != ['0,0', '0,0', '1']:
            ties.append(('roundtrip', 'regenerated file of %s: model says %s, tools say equal' % (k, a)))
    # ncoffsets, every option: all printed numbers vs the independent decoder, vs Tools.offsetsRecs, vs the bytes of the file
    for (k, opts, ovl), (orc, oso, ose) in zip(off_jobs, off_res):
        f = files[k]
        h, b = f['h'], f['bytes']
        evals[0] += 1
        flags = ''.join(o[1] for o in opts)
        count('ncoffsets -%s%s' % (flags or '-', ' -v' if ovl else ''))
        distinct.add(('off', k, opts, tuple(ovl or ())))
        replay = dict(options=list(opts) + (['-v', ','.join(ovl)] if ovl else []), logical=f['L'], script='emit_script(logical) through harness/apirun.c',
                      ncoffsets_output=oso[-1500:], ncoffsets_exit=orc)
        want, gaps = expect_offsets(h, f['hl'], flags, ovl)
        if 'x' in flags:
            if orc != 0 or oso.strip() != str(gaps):
                fail('ncoffsets-disagrees', 'ncoffsets -x prints %r, the fixed-size variables of the file %s gaps' % (oso.strip(), 'have' if gaps else 'have no'), replay)
            continue
        got = parse_offsets_full(oso)
        if orc != 0 or got != want:
            diffs = [kk for kk in want if kk != 'vars' and got.get(kk) != want[kk]] + \
                    ['%s.%s: printed %s, file %s' % (g.get('name'), kk, g.get(kk), w.get(kk)) for g, w in zip(got['vars'], want['vars']) for kk in w if g.get(kk) != w[kk]]
            fail('ncoffsets-disagrees', 'ncoffsets %s prints numbers that differ from the layout of the file: %s' % (' '.join(replay['options']), diffs[:4]),
                 dict(replay, expected=want, printed=got))
            continue
        lay, recsize = layout(h)
        # per-record offsets against the Lean layout (Tools.offsetsRecs: begin + r * recsize, packing rule of Header.cvsRec)
        lo = f.get('lean_O')
        if 'r' in flags and lo and ' R ' in lo:
            groups = lo.split(' R ')[1].split(' ; ')
            model_rs, model_nr = [int(x) for x in groups[0].split()]
            for vi, g in enumerate(groups[1:]):
                if g.strip() == 'f':
                    continue
                mod = [tuple(int(x) for x in p_.split(',')) for p_ in g.split()]
                pv = [x for x in got['vars'] if x['name'] == h.vars[vi]['name'].decode()]
                if pv and list(zip(pv[0]['starts'], pv[0]['ends'])) != mod:
                    ties.append(('offsets-r', 'file %s variable %s: ncoffsets -r prints %s, Tools.offsetsRecs %s (recsize %d)'
                                 % (k, pv[0]['name'], list(zip(pv[0]['starts'], pv[0]['ends']))[:4], mod[:4], model_rs), replay))
        # raw reads: the bytes at the printed offsets are the values the logical description put there
        for pvar in got['vars']:
            Lv = [x for x in f['L']['vars'] if x['name'] == pvar['name']][0]
            if pvar['kind'] == 'rec' and 'r' not in flags and f['L']['numrecs'] == 0:
                continue
            for r_, (st_, en_) in enumerate(zip(pvar['starts'], pvar['ends'])):
                raw = b[st_:en_]
                exp_ = pack_vals(XT_CODE[Lv['xt']], Lv['data'][r_])
                if raw + b'\0' * (len(exp_) - len(raw)) != exp_ and len(exp_) == en_ - st_:
                    fail('ncoffsets-disagrees', 'the bytes of the file at the offsets ncoffsets prints for %s record %d [%d, %d) are not the values of that record'
                         % (pvar['name'], r_, st_, en_), dict(replay, found=raw.hex(), values=exp_.hex()))
                    break
    # partition: extracted C statements vs Tools.rankBox; property: the blocks tile the dimension
    def boxes(ansline):
        return [[tuple(int(x) for x in p.split(',')) for p in g.split()] for g in ansline[2:].split(' | ')] if ansline.strip() != 'P' else [[]]
    for i, l in enumerate(part_lines):
        evals[0] += 1
        got = part_c[i].strip() if i < len(part_c) else '<missing>'
        want = ans[('P', i)].strip()
        t = l.split()
        np_, shape = int(t[1]), [int(x) for x in t[2:]]
        count('partition %d ranks' % np_)
        distinct.add(('part', l))
        if got != want:
            ties.append(('partition', 'request "%s": ncmpidiff.c gives "%s", Tools.rankBox "%s"' % (l, got, want)))
        try:
            bx = boxes(got)
            # every multi-index of the shape must be in the box of some rank (checked along the partitioned dimension)
            for dpos, n in enumerate(shape):
                cover = [0] * n
                for r in range(np_):
                    st, ct = bx[r][dpos]
                    for x in range(st, st + ct):
                        if 0 <= x < n:
                            cover[x] += 1
                if any(cv == 0 for cv in cover):
                    fail('ncmpidiff-partition-leaves-slices-uncompared', 'the start[]/shape[] blocks ncmpidiff.c computes for shape %s on %d processes leave index %d of dimension %d to no rank'
                         % (shape, np_, cover.index(0), dpos), dict(request=l, blocks=got))
                    break
        except Exception as ex:
            ties.append(('partition', 'request "%s": unreadable answer "%s" (%r)' % (l, got, ex)))
    # the real tool on 2 and 3 ranks
    for (a, b, ed, np_), (rc, so) in zip(mr_jobs, mr_res):
        evals[0] += 1
        count('ncmpidiff %d ranks, single-value edit' % np_)
        distinct.add(('mr', a, b, np_))
        got = diff_lines_by_var(so)
        replay = dict(first=files[a]['L'], second=files[b]['L'], nprocs=np_, edited=ed, ncmpidiff_exit=rc, ncmpidiff_output=so[-800:],
                      how='write both files with harness/apirun.c (emit_script in checks/c20.py), then mpiexec -n %d ncmpidiff first second' % np_)
        for vn, idx in ed.items():
            v = [x for x in files[a]['L']['vars'] if x['name'] == vn][0]
            dm = dict(files[a]['L']['dims'])
            shape = [(files[a]['L']['numrecs'] if dm[d] == 0 else dm[d]) for d in v['dims']]
            bx = boxes(ans[('PS', np_, tuple(shape))].strip())
            mult = sum(1 for r in range(np_) if all(st <= i < st + ct for i, (st, ct) in zip(idx, bx[r])))
            if got.get(vn, 0) == 0:
                fail('ncmpidiff-multirank-misses-edit', 'ncmpidiff on %d ranks does not report variable %s (shape %s) although element %s differs' % (np_, vn, shape, idx), replay)
            if got.get(vn, 0) != mult:
                ties.append(('multirank', 'ncmpidiff on %d ranks, variable %s shape %s element %s: %d DIFF lines, model (ranks whose box holds the element) %d'
                             % (np_, vn, shape, idx, got.get(vn, 0), mult), replay))
        extra = [vn for vn in got if vn not in ed]
        if extra:
            fail('diff-false-alarm:ncmpidiff:multirank', 'ncmpidiff on %d ranks reports variables %s that do not differ' % (np_, extra), replay)
    # size-limit headers: validator vs model vs ncmpi_open
    for i, (tag, hb) in enumerate(vl):
        rc, classes, txt = vl_val[i]
        t = ans[('VL', i)].split()
        so = resv.get(vl_steps[i][0])
        lib_ok = (so is not None and so[3] == '0')
        evals[0] += 2
        count('vlens ' + ('accepted' if rc == 0 else 'rejected'))
        distinct.add(('vlens', hb))
        replay = dict(pattern=tag, file_hex=hb.hex(), validator_exit=rc, validator_output=txt[-400:], model=t[1],
                      ncmpi_open=(so[3] if so else None), note='pattern: L/E/S = byte variable above / at / below the size limit of the format, lower case = record variable')
        if lib_ok and rc != 0 and t[2] == '2':      # (ncmpi_open also takes headers the specification forbids, e.g. a CDF-1 begin beyond 2^31)
            fail('validator-rejects-file-the-library-opens:vlens', 'ncvalidator rejects a header (variable sizes around the format limit, pattern %s) that ncmpi_open accepts' % tag, replay)
        if tag.endswith(':overflow'):
            count('vlens next to 2^63 (signed overflow in the C, oracle only)')
            continue
        if (t[1] == 'ok') != (rc == 0):
            ties.append(('validate', 'size-limit header %s: model %s, tool exit %s (%s)' % (tag, t[1], rc, classes), replay))
        elif rc != 0 and classes and t[1] != classes[-1]:
            ties.append(('validate-class', 'size-limit header %s: model %s, tool message class %s' % (tag, t[1], classes), replay))
        if not lib_ok and rc == 0:
            ties.append(('vlens-library', 'size-limit header %s: ncvalidator accepts, ncmpi_open returns %s' % (tag, so[3] if so else None), replay))
    for fmt, pat, hb, (rc, classes, txt) in vl_libres:
        t = ans[('VLL', fmt, pat)].split()
        evals[0] += 1
        count('vlens library-created ' + ('accepted' if rc == 0 else 'rejected'))
        replay = dict(fmt=fmt, pattern=pat, script=vl_prog.text(), validator_output=txt[-400:], model=t[1])
        if rc != 0:
            fail('validator-rejects-library-file', 'ncvalidator rejects a file the library created (variables around the size limit, pattern %s): %s' % (pat, txt[-200:]), replay)
        if (t[1] == 'ok') != (rc == 0):
            ties.append(('validate', 'library-created size-limit file %d:%s: model %s, tool exit %s' % (fmt, pat, t[1], rc), replay))
    # byte variants
    for i, (bi, cls, expect, vb) in enumerate(variants):
        rc, classes, txt = vres[i]
        if i in huge:
            count('variant skipped (read > 1 MiB)')
            if rc is not None and expect == 'reject' and rc == 0:
                fail('validator-accepts-invalid:' + cls, 'ncvalidator accepts a file whose header violates the format specification (%s)' % cls,
                     dict(cls=cls, file_hex=vb.hex(), tool_output=txt[-400:]))
            continue
        t = ans[('B', i)].split()
        model, spec = t[1], int(t[2])
        tool_ok = (rc == 0)
        evals[0] += 1
        count('variant ' + cls)
        count('variant verdict ' + (model if not tool_ok else 'ok'))
        distinct.add(('variant', vb))
        replay = dict(cls=cls, file_hex=vb.hex(), tool_exit=rc, tool_output=txt[-400:], model=model, spec_level=spec)
        if expect == 'reject' and tool_ok:
            fail(SIG_VALIDATOR.get(cls, 'validator-accepts-invalid:' + cls),
                 'ncvalidator accepts a file whose header violates the format specification (%s)' % cls, replay)
        if expect == 'reject' and spec == 2 and cls not in ('padding', 'count-max', 'unlimpos', 'unlim2'):
            ties.append(('oracle', 'variant class %s is accepted by the specification decoder' % cls, replay))
        if expect == 'accept' and not tool_ok:
            fail('validator-rejects-valid:' + cls, 'ncvalidator rejects a valid file (%s)' % cls, replay)
        unmodelled = (model == 'eneg64')
        if not unmodelled:
            if (model == 'ok') != tool_ok:
                ties.append(('validate', 'variant %s: model %s, tool exit %s (%s)' % (cls, model, rc, classes), replay))
            elif not tool_ok and classes and model != classes[-1]:
                ties.append(('validate-class', 'variant %s: model %s, tool message class %s' % (cls, model, classes), replay))
    samples = [prog.lines[0], prog.lines[min(12, len(prog.lines) - 1)], 'variant %s %s' % (variants[5][1], variants[5][3][:40].hex()),
               'theorem validate_accepts_layoutValid (d : Schema) (data : Bytes) (he : Encodable d) (hl : VLimits d) (hv : d.LayoutValid (Hdr.len d)) : validate (encodeRaw d ++ data) = true',
               'theorem diff_iff_logical_eq_partial (cfg : DiffCfg) (a b : LFile) (wa : LWF a) (wb : LWF b) (nb : NoByte cfg a) (ag : LenAgree cfg a b) (hn : a.numrecs = b.numrecs) : (toolDiff cfg a b).same = true ↔ LogicalEq a b']
    V.cov['evaluations'] = evals[0]
    V.cov['distinct_nontrivial'] = len(distinct)
    V.cov['traces_validated_against_impl'] = evals[0] - len(ties)
    V.cov['rule'] = ('distinct = distinct (logical description, layout arguments) files, distinct ordered file pairs given to the diff tools, distinct header-violating byte strings, '
                     'distinct multi-rank programs; every one reaches a non-trivial branch by construction: a library-written file with >= 1 variable and attribute in each list, '
                     'a pair that is a pure layout change or exactly one logical edit, a byte string that differs from a valid file in exactly one field')
    V.cov['distribution'] = dist
    V.cov['samples'] = samples
    V.cov['level_note'] = 'PARTIAL: proof for the validator and diff logic; ncmpidump / ncmpigen / ncoffsets differential only'
    # ---- S5 decide
    seen = set()
    new_fail = 0
    for sig, what, replay in fails:
        if sig in seen:
            continue
        seen.add(sig)
        if V.failing_input(sig, what, replay, tag=re.sub(r'[^A-Za-z0-9_.-]', '_', sig)[:60]):
            new_fail += 1
    if new_fail == 0:
        if ties:
            V.broken_tie('correspondence: model and implementation differ', [t[:2] for t in ties[:12]] + [ties[0][2:]])
        if proof_broken:
            V.broken_tie('proof obligations no longer check',
                         dict(failed_theorems=sorted(failed_thms), axiom_audit=bad[:10], forbidden=forb[:10], lake_tail=out[-1500:] if not ok else ''))
    elif ties:
        log('[S4] %d correspondence differences besides the failing inputs, first: %s' % (len(ties), str(ties[0][:2])[:300]))
    return V.finish()


if __name__ == '__main__':
    tier, seed, replay = args(sys.argv[1:])
    sys.exit(run_check(tier, seed))
