#!/usr/bin/env python3
"""C05 — record count stays coherent across processes, memory and file header (DESIGN.md §4 C05).

S3  lake build PnVerif.Props.C05 (invariant over all histories / any number of ranks, Model/NumRecs.lean) + audit
S4  harness/c05_rec.c runs seeded histories of collective / independent / nonblocking writes to record variables,
    mode switches, partial waits, syncs, redefinitions, fills on 2-4 (thorough: 8) ranks of the real library; after
    every call every rank prints ncmpi_inq_dimlen(unlimited), rank 0 reads the numrecs field from the file bytes;
    lean/Driver/C05.lean runs the model on the same script.  Tie: equal numbers after every call.  Property oracle
    on the real library's numbers: the specification values (ghost fields hi/own of the model = 1 + highest record
    written through a completed call) against what the library reports.
"""
import os, sys, re, json, subprocess, concurrent.futures
sys.path.insert(0, os.path.dirname(os.path.abspath(__file__)))
from common import *

PROP = 'C05'
LEANFILES = ['PnVerif/Model/NumRecs.lean', 'PnVerif/Lemmas/NumRecs.lean', 'PnVerif/Lemmas/NumRecsStep.lean', 'PnVerif/Lemmas/NumRecsSched.lean', 'PnVerif/Props/C05.lean']


class HistGen:
    """generates one history; tracks just enough state (mode, pending ids, a bound on the record count) to keep
    requests meaningful.  kind: good | partialwait | vardnodata | f2"""

    def __init__(self, rng, n, hid, kind, nr0, fmt, length, aggr=0):
        self.r, self.n, self.kind = rng, n, kind
        self.aggr = aggr
        self.lines = ['HIST %s n=%d nr0=%d fmt=%d' % (hid, n, nr0, fmt) + (' aggr=%d' % aggr if aggr else '')]
        self.ops = []
        self.indep = False
        self.pending = [[] for _ in range(n)]       # (id, isRec, recEnd) in posting order
        self.top = nr0                              # upper bound of the record count so far
        self.nextid = 1
        self.length = length

    def rec(self):
        r = self.r
        if r.chance(1, 4):
            return r.range(1, max(1, self.top))            # rewrite an existing record
        e = self.top + r.range(1, 3)
        self.top = max(self.top, e)
        return e

    def emit(self, s):
        self.lines.append(s); self.ops.append(s)

    def op_putAll(self):
        ins = []
        for _ in range(self.n):
            c = self.r.choice(['V', 'V', 'V', 'Z', 'D', 'R'])       # R: valid request with an out-of-range value (NC_ERANGE, data written)
            ins.append('%s %d' % (c, self.rec()) if c in 'VR' else c)
        if self.r.chance(1, 12):
            ins = ['E'] * self.n                     # every rank in error: nobody waits for anybody
        self.emit('putAll | ' + ' | '.join(ins))

    def op_vardAll(self):
        ins = []
        for _ in range(self.n):
            if self.r.chance(3, 4):
                ins.append('%s %d' % (self.r.choice(['V', 'V', 'R']), self.rec()))
            else:
                ins.append('N %d' % self.r.range(1, max(1, self.top)))    # writes nothing, does not reach beyond the count: harmless
        self.emit('vardAll | ' + ' | '.join(ins))

    def op_putIndep(self):
        self.emit('%s %d %d%s' % (self.r.choice(['putIndep', 'putIndep', 'vardIndep']), self.r.below(self.n), self.rec(),
                                  ' R' if self.r.chance(1, 4) else ''))

    def op_iput(self):
        rk = self.r.below(self.n)
        isrec = 0 if self.r.chance(1, 5) else 1
        e = self.rec() if isrec else 0
        toS = bool(isrec and self.r.chance(1, 4))
        # mirror of the library's queue order (sorted by variable offset, not by posting time): the new request goes behind the
        # last entry whose VARIABLE begins at or before the request's own offset (schema: fvar | per record rvar 16, qvar 16, svar 8 bytes)
        vb = 0 if not isrec else (132 if toS else 100)
        ro = vb + 40 * (e - 1) if isrec else 0
        p = self.pending[rk]
        j = len(p)
        while j > 0 and p[j - 1][3] > ro:
            j -= 1
        p.insert(j, (self.nextid, isrec, e, vb))
        self.emit('iput %d %d %d %d%s' % (rk, self.nextid, isrec, e, ' R' if toS else ''))
        self.nextid += 1

    def sel_good(self, rk):
        """NC_REQ_ALL, everything by id, or the first k requests of the (sorted) queue"""
        p = self.pending[rk]
        c = self.r.below(3)
        if c == 0 or not p:
            self.pending[rk] = []
            return 'A' if self.r.chance(1, 2) or not p else 'L ' + ' '.join(str(x[0]) for x in self.r.shuffle(p))
        k = self.r.range(0, len(p))
        sel = p[:k]
        self.pending[rk] = p[k:]
        return 'L ' + ' '.join(str(x[0]) for x in self.r.shuffle(sel))

    def op_waitAll(self):
        self.emit('waitAll | ' + ' | '.join(self.sel_good(rk) for rk in range(self.n)))

    def op_wait(self):
        rk = self.r.below(self.n)
        self.emit('wait %d %s' % (rk, self.sel_good(rk)))

    def op_fill(self):
        e = self.rec()
        self.emit('fillRec | ' + ' | '.join(str(e - 1) for _ in range(self.n)))

    def build(self):
        r = self.r
        while len(self.ops) < self.length:
            c = r.below(100)
            if self.indep:
                if c < 30:
                    self.op_putIndep()
                elif c < 45:
                    self.op_iput()
                elif c < 60:
                    self.op_wait()
                elif c < 68:
                    self.emit('sync')
                elif c < 76:
                    self.emit('syncNumrecs')
                elif c < 88:
                    self.emit('endIndep'); self.indep = False
                elif c < 92:
                    self.emit('redef'); self.indep = False
                elif c < 95:
                    self.emit('reopen'); self.indep = False; self.pending = [[] for _ in range(self.n)]
                elif c < 97:
                    self.op_putAll()          # wrong mode: NC_EINDEP everywhere, nothing happens
                else:
                    self.op_fill()            # the dispatcher loses NC_EINDEP: the fill happens
            else:
                if c < 25:
                    self.op_putAll()
                elif c < 35:
                    self.op_vardAll()
                elif c < 50:
                    self.op_iput()
                elif c < 64:
                    self.op_waitAll()
                elif c < 72:
                    self.op_fill()
                elif c < 82:
                    self.emit('beginIndep'); self.indep = True
                elif c < 86:
                    self.emit('sync')
                elif c < 89:
                    self.emit('syncNumrecs')
                elif c < 93:
                    self.emit('redef')
                elif c < 96:
                    self.emit('reopen'); self.pending = [[] for _ in range(self.n)]
                elif c < 98:
                    self.emit('putIndep %d %d' % (r.below(self.n), self.rec()))     # wrong mode: NC_ENOTINDEP
                else:
                    self.emit('endIndep')
        # ---- the defect, as the last call of the history
        if self.kind != 'good' and self.indep:
            self.emit('endIndep'); self.indep = False
        if self.kind == 'partialwait':
            rk = r.below(self.n)
            for p in list(self.pending[rk]):
                pass
            base = self.top
            a, b = self.nextid, self.nextid + 1
            self.nextid += 2
            self.emit('iput %d %d 1 %d' % (rk, a, max(1, base)))           # earlier in the queue: an existing record
            self.emit('iput %d %d 1 %d' % (rk, b, base + 3))               # later in the queue: creates records
            npend = len(self.pending[rk]) + 2
            sel = ['L' if i != rk else 'L %d' % b for i in range(self.n)]
            # with exactly one pending request the shortcut "num_reqs == numLeadPutReqs" would flush everything
            if npend == 1:
                sel[rk] = 'A'
            self.emit('waitAll | ' + ' | '.join(sel))
        elif self.kind == 'vardnodata':
            ins = ['V %d' % max(1, self.top) for _ in range(self.n)]
            ins[r.below(self.n)] = 'N %d' % (self.top + 4)
            self.emit('vardAll | ' + ' | '.join(ins))
        elif self.kind == 'f2':
            ins = ['V %d' % (self.top + 1 + i) for i in range(self.n)]
            ins[r.below(self.n)] = 'E'
            self.emit('putAll | ' + ' | '.join(ins))
        self.lines.append('END')
        return self


def run_harness(exe, wd, tag, n, lines, timeout):
    d = os.path.join(wd, tag)
    os.makedirs(d, exist_ok=True)
    sp = os.path.join(d, 'script.txt')
    with open(sp, 'w') as f:
        f.write('\n'.join(lines) + '\n')
    rc, so, se = mpirun(n, [exe, sp, d], timeout=timeout)
    S, H, done = {}, {}, set()
    for r in range(n):
        try:
            txt = open(os.path.join(d, 'out.%d' % r)).read()
        except OSError:
            continue
        for ln in txt.split('\n'):
            t = ln.split()
            if not t:
                continue
            if t[0] == 'DONE':
                done.add(r)
            elif t[0] == 'S' and len(t) >= 5:
                kv = dict(x.split('=') for x in t[4:])
                S[(t[1], int(t[2]), int(t[3]))] = kv
            elif t[0] in ('H', 'K') and len(t) >= 4:
                H.setdefault((t[1], int(t[2])), []).append((int(t[3]), t[0]))
    return S, H, done


def lean_model(drv, lines):
    p = subprocess.run([drv], input='\n'.join(lines) + '\n', stdout=subprocess.PIPE, stderr=subprocess.PIPE, text=True)
    M = {}
    for ln in p.stdout.split('\n'):
        t = ln.split()
        if len(t) < 4 or t[0] != 'S':
            continue
        if t[3] == 'DEAD':
            M[(t[1], int(t[2]))] = 'DEAD'
        elif t[3].startswith('nr='):
            kv = dict(x.split('=') for x in t[3:])
            M[(t[1], int(t[2]))] = dict(nr=[int(x) for x in kv['nr'].split(',')], hdr=int(kv['hdr']), hi=int(kv['hi']),
                                        own=[int(x) for x in kv['own'].split(',')])
    return M


SYNC_OPS = ('endIndep', 'sync', 'syncNumrecs', 'redef', 'reopen')
COLL_WRITES = ('putAll', 'vardAll', 'waitAll', 'fillRec')


def judge_history(h, S, H, M, V, stats, tie_diffs, distinct):
    """h: HistGen.  Returns number of calls evaluated."""
    hid = h.lines[0].split()[1]
    n = h.n
    prev = None
    indep = False
    evaluated = 0
    for k, op in enumerate(h.ops, 1):
        name = op.split()[0]
        m = M.get((hid, k))
        hung = H.get((hid, k))
        real = [S.get((hid, k, r)) for r in range(n)]
        ctx = dict(history=h.lines[:k + 1] + ['END'], failing_call=op, call_index=k, ranks=n, harness='harness/c05_rec.c',
                   how='mpiexec -n %d c05_rec <script> <dir>' % n)
        if hung or any(x is None for x in real):
            # ---- the call did not return on some rank
            if hung is None:
                tie_diffs.append((hid, k, op, 'no output and no watchdog line'))
                return evaluated
            stats['deadlock'] = stats.get('deadlock', 0) + 1
            sig = 'collective-put-recvar-argerr-deadlock' if (name in ('putAll', 'vardAll') and ' E' in op and m == 'DEAD') else 'deadlock:%s' % name
            V.failing_input(sig, 'call %d (%s) of the history never returns on ranks %s' % (k, op, sorted(x[0] for x in hung)), ctx)
            if m != 'DEAD':
                tie_diffs.append((hid, k, op, 'implementation deadlocks, model does not'))
            return evaluated
        if m == 'DEAD':
            tie_diffs.append((hid, k, op, 'model deadlocks, implementation returns'))
            return evaluated
        if m is None:
            tie_diffs.append((hid, k, op, 'model produced no state'))
            return evaluated
        evaluated += 1
        rnr = [int(x['nr']) for x in real]
        rhdr = int(real[0]['hdr'])
        if name == 'beginIndep':
            indep = True
        if name in ('endIndep', 'redef', 'reopen'):
            indep = False
        key = (op, tuple(prev[0]) if prev else None, prev[1] if prev else None)
        if prev is None or rnr != prev[0] or rhdr != prev[1] or name in SYNC_OPS or name in ('waitAll', 'wait', 'beginIndep'):
            distinct.add(key)
        # ---- tie: model = implementation
        if rnr != m['nr'] or rhdr != m['hdr']:
            tie_diffs.append((hid, k, op, 'implementation nr=%s hdr=%d, model nr=%s hdr=%d' % (rnr, rhdr, m['nr'], m['hdr'])))
        # ---- property oracle on the implementation's numbers
        fail = None
        if prev is not None:
            if any(a < b for a, b in zip(rnr, prev[0])) or rhdr < prev[1]:
                fail = ('decrease', '(c) the record count decreased: %s hdr=%d after %s hdr=%d' % (rnr, rhdr, prev[0], prev[1]))
        if fail is None and any(rnr[r] < m['own'][r] for r in range(n)):
            fail = ('own', '(d) a rank reports fewer records than it completed writing itself: reported %s, own writes need %s' % (rnr, m['own']))
        coherent_expected = (not indep) or name in SYNC_OPS
        if fail is None and coherent_expected and (len(set(rnr)) != 1 or rnr[0] != m['hi'] or rhdr != m['hi']):
            fail = ('incoherent', '(a/b) after %s every rank and the header must hold %d records (1 + highest record written by a completed call): ranks report %s, file header %d'
                    % (name, m['hi'], rnr, rhdr))
        if fail is None and indep and (any(x > m['hi'] for x in rnr) or rhdr > m['hi']):
            fail = ('above', 'a record count above anything written: %s hdr=%d, written %d' % (rnr, rhdr, m['hi']))
        if fail:
            stats['prop_fail'] = stats.get('prop_fail', 0) + 1
            # a known finding is a failure the faithful model reproduces exactly; anything the model does not predict is new
            agrees = (rnr == m['nr'] and rhdr == m['hdr'])
            if agrees and name in ('waitAll', 'wait') and fail[0] in ('incoherent', 'own') and ' L' in op:
                sig = 'partial-wait-numrecs-not-updated'
            elif agrees and name == 'vardAll' and ' N ' in op and fail[0] == 'incoherent' and rnr[0] > m['hi']:
                sig = 'vard-nodata-advances-numrecs'
            else:
                sig = 'numrecs-%s:%s%s' % (fail[0], name, '' if agrees else ':not-predicted-by-model')
            ctx['observed'] = dict(ranks=rnr, header=rhdr, specified=m['hi'], own=m['own'])
            V.failing_input(sig, fail[1], ctx)
            return evaluated          # later calls of this history start from a wrong state
        prev = (rnr, rhdr)
    stats['clean_histories'] = stats.get('clean_histories', 0) + 1
    return evaluated


def run_check(tier, seed):
    V = Verdict(PROP, tier, seed)
    rng = SplitMix64(seed * 15485863 + 5)
    V.assumptions = [
        'Model/NumRecs.lean is a hand transcription of the numrecs handling of put_varm, getput_vard, req_commit/wait_getput, fill_var_rec, ncmpio_sync_numrecs, ncmpio_write_numrecs, begin/end_indep_data, redef/enddef (write_NC) and close; tied to the source by the differential run below',
        'ghost fields hi/own (the specification) are maintained by the model from the script: a write counts once the call that completes it returned',
        'only put requests are pending in the histories (no iget), request ids passed to wait/wait_all are distinct and valid',
        'visibility of root\'s header write to other processes\' file reads (MPI-IO consistency semantics) is not modelled; rank 0 reads the header bytes itself',
        'MPI calls succeed (I/O failures are C11)',
    ]
    V.cov['trusted_base'] = TRUSTED_BASE_COMMON + ['harness/c05_rec.c', 'lean/Driver/C05.lean (script parsing)']
    tree = build_impl('plain')
    wd = workdir('c05')
    try:
        ok, out = lake_build(['PnVerif.Props.C05', 'c05drv'])
        obl = obligations_of('PnVerif/Props/C05.lean')
        failed_thms = set()
        if not ok:
            for f, ln, msg in lake_errors(out):
                t = theorem_at(f, ln)
                if t:
                    failed_thms.add(t)
            log('[S3] lake build FAILED:', sorted(failed_thms)[:10])
        discharged, bad = axiom_audit('PnVerif.Props.C05', obl, 'PnVerif.Props.C05') if ok else ([], [])
        forb = grep_forbidden([os.path.join(LEAN, f) for f in LEANFILES])
        V.cov['obligations'] = len(obl)
        V.cov['discharged'] = len(discharged)
        V.cov['checker_cmd'] = 'cd lean && lake build PnVerif.Props.C05 c05drv && lake env lean <#print axioms of every name in Props.C05.obligations>'
        if tier == 'thorough' and ok:
            lc = leanchecker(['PnVerif.Props.C05'])
            V.cov['leanchecker'] = 'ok' if not lc else str(lc)
            if lc:
                bad.append(('leanchecker', lc))
        proof_broken = (not ok) or bad or forb or len(discharged) != len(obl)
        drv = os.path.join(LEAN, '.lake/build/bin/c05drv')
        if not os.path.exists(drv):
            V.broken_tie('Lean driver c05drv does not build', out[-1500:])
            return V.finish()
        exe = cc(tree, [os.path.join(VERIF, 'harness/c05_rec.c')], os.path.join(wd, 'c05_rec'))
        ns = [2, 3, 4] if tier == 'quick' else [2, 3, 4, 6, 8]
        ngood = 24 if tier == "quick" else 120
        t1 = Timer()
        hists, k = [], 0
        for n in ns:
            for i in range(ngood):
                k += 1
                # a third of the histories run with intra-node aggregation (hint nc_num_aggrs_per_node = 1..n-1)
                ag = rng.range(1, n - 1) if rng.chance(1, 3) else 0
                hists.append(HistGen(rng, n, 'g%d' % k, 'good', rng.range(0, 3), rng.choice([1, 2, 5]), rng.range(12, 30), aggr=ag).build())
            for kind in ('partialwait', 'vardnodata'):
                for i in range(2 if tier == 'quick' else 8):
                    k += 1
                    hists.append(HistGen(rng, n, '%s%d' % (kind[0], k), kind, rng.range(0, 3), rng.choice([1, 2, 5]), rng.range(2, 12), aggr=(rng.range(1, n - 1) if rng.chance(1, 3) else 0)).build())
        f2 = []
        for n in (ns[:2] if tier == 'quick' else ns):
            k += 1
            f2.append(HistGen(rng, n, 'f%d' % k, 'f2', rng.range(0, 2), 1, rng.range(1, 6), aggr=(1 if k % 2 else 0)).build())
        # the minimal witnesses of the Lean counterexample theorems, replayed verbatim
        class Fixed:
            pass
        def fixed(hid, n, ops):
            h = Fixed(); h.n = n; h.ops = ops; h.lines = ['HIST %s n=%d nr0=0 fmt=1' % (hid, n)] + ops + ['END']; h.kind = 'witness'
            return h
        wit = [fixed('wpw', 2, ['iput 0 1 1 1', 'iput 0 2 1 6', 'waitAll | L 2 | L']),
               fixed('wvd', 2, ['vardAll | N 4 | N 4']),
               fixed('wfm', 2, ['beginIndep', 'fillRec | 3 | 3', 'endIndep'])]
        witf2 = fixed('wf2', 2, ['putAll | E | V 4'])
        pool = concurrent.futures.ThreadPoolExecutor(max_workers=6)
        futs = []
        for n in sorted(set(ns) | {2}):
            hs = [h for h in hists + wit if h.n == n]
            if hs:
                futs.append((hs, pool.submit(run_harness, exe, wd, 'b%d' % n, n, [l for h in hs for l in h.lines], 1200)))
        for h in f2 + [witf2]:
            lines = list(h.lines)
            lines[0] += ' tmo=8'
            futs.append(([h], pool.submit(run_harness, exe, wd, 'f_' + h.lines[0].split()[1], h.n, lines, 120)))
        results = [(hs, f.result()) for hs, f in futs]
        pool.shutdown()
        # which model variant does this tree follow?  decided from the three witness replays:
        #   zeroPath : the F2 witness returns instead of deadlocking
        #   vardGuard: `vardAll | N 4 | N 4` on an empty file leaves the record count at 0 (unrepaired: 4)
        #   waitScan : waiting for the second of two pending iputs (records 0 and 5) gives 6 records (unrepaired: 0)
        #   fillMode : ncmpi_fill_var_rec in independent data mode is refused (unrepaired: executed)
        fz = fv = fw = ff = 0
        for hs, (S, H, done) in results:
            if hs[0] is witf2:
                fz = 0 if H else 1
            for h in hs:
                if h is wit[1]:
                    x = S.get(('wvd', 1, 0))
                    fv = 1 if (x and int(x['nr']) == 0) else 0
                if h is wit[0]:
                    x = S.get(('wpw', 3, 0))
                    fw = 1 if (x and int(x['nr']) == 6) else 0
                if h is wit[2]:
                    # fillMode: ncmpi_fill_var_rec in independent data mode is refused (NC_EINDEP, no record) or executed (4 records)
                    x = S.get(('wfm', 2, 0))
                    ff = 1 if (x and int(x['nr']) == 0) else 0
        fx = '%d%d%d%d' % (fz, fv, fw, ff)
        allh = hists + wit + f2 + [witf2]
        script = []
        for h in allh:
            script += [h.lines[0] + ' fx=%s' % fx] + h.lines[1:]
        M = lean_model(drv, script)
        stats, tie_diffs, distinct, nev, dist = {}, [], set(), 0, {}
        for hs, (S, H, done) in results:
            for h in hs:
                nev += judge_history(h, S, H, M, V, stats, tie_diffs, distinct)
                for op in h.ops:
                    dist[op.split()[0]] = dist.get(op.split()[0], 0) + 1
        log('[S4] %d histories (%d calls evaluated) on %s ranks in %.1fs; model variant (zeroPath, vardGuard, waitScan, fillMode) = %s' % (len(allh), nev, ns, t1.s(), fx))
        V.cov['evaluations'] = nev
        V.cov['distinct_nontrivial'] = len(distinct)
        V.cov['traces_validated_against_impl'] = len(allh) - len(set(t[0] for t in tie_diffs))
        V.cov['rule'] = ('seeded histories of 12-30 calls (collective / vard / independent / nonblocking puts to a record variable with new and existing record '
                         'indices, zero-length and failing requests, wait_all / wait with NC_REQ_ALL, full id lists and first-k-of-the-queue lists, fill_var_rec, begin/end_indep_data, '
                         'sync, sync_numrecs, redef+enddef, close+open, calls in the wrong mode) on CDF-1/2/5 files, a third of them with the hint nc_num_aggrs_per_node = 1..n-1 (intra-node aggregation path); plus histories ending in one of the three defective calls and '
                         'the minimal witnesses of the counterexample theorems. one evaluation = one call, after which every rank\'s record count and the header bytes are compared '
                         'with the model and with the specification (ghost) values. non-trivial = the call changed a count or the header, or is a wait/sync/mode switch; '
                         'distinct = distinct (call, counts before) pairs')
        V.cov['distribution'] = dist
        V.cov['outcomes'] = stats
        V.cov['ranks'] = ns
        V.cov['histories_with_aggregation_hint'] = len([h for h in allh if getattr(h, 'aggr', 0)])
        V.cov['model_variant_fx'] = fx
        V.cov['samples'] = [hists[0].lines, hists[len(hists) // 2].lines[:12],
                            'theorem numrecs_inv_partial (fx) (w0) (hI : Inv w0) (ops) (hg : GoodRun fx w0 ops) : ∃ w, run fx w0 ops = some w ∧ Inv w ∧ Mono w0 w']
        # ---- API-level "mix" programs (checks/apigen.gen_mix_program): varn calls whose segments are listed in any order (the last
        #      segment is not the one reaching the highest record), several nonblocking requests per wait, record variables;
        #      record counts (every rank, after sync and after reopen) and all data against the abstract dataset specification
        import apigen, apicmp
        if os.path.exists(apicmp.APIDRV):
            aexe = apicmp.build_apirun(tree, wd)
            nmix = 80 if tier == 'thorough' else 24
            mrng = SplitMix64(seed * 7907 + 3)
            ml_, mt_, mix_fail, mn_ = apicmp.run_programs(
                V, aexe, wd, ((apigen.gen_mix_program(mrng, 'c05_m%d.nc' % k_, n_, focus=('recvarn' if k_ % 2 == 0 else None)), n_) for k_ in range(nmix) for n_ in [mrng.choice([1, 2, 2, 3])]),
                tier, 'C05:api-mix', 'record count after a varn / multi-request program differs from the dataset specification (every process must report 1 + the highest record written)', tagprefix='mix')
            V.cov['evaluations'] += ml_
            V.cov['mix_programs'] = dict(programs=mn_, result_lines=ml_, tags=mt_)
        if not V.violations:
            if tie_diffs:
                V.broken_tie('correspondence stream rec: model and implementation differ', [list(map(str, t)) for t in tie_diffs[:10]])
            if proof_broken:
                V.broken_tie('proof obligations no longer check', dict(failed_theorems=sorted(failed_thms), axiom_audit=bad[:10], forbidden=forb[:10],
                                                                      lake_tail=out[-1500:] if not ok else ''))
        return V.finish()
    finally:
        cleanup(wd)


if __name__ == '__main__':
    tier, seed, replay = args(sys.argv[1:])
    sys.exit(run_check(tier, seed))
