#!/usr/bin/env python3
"""C19 — memory safety on every program; malformed files fail cleanly (DESIGN.md §4 C19).  Level: PARTIAL.

(A) what the theorems carry (lean/PnVerif/Props/C19.lean, about the header reader model Model/Header.lean
    + Model/Safety.lean): the decoder is total and its copy loops always make progress, every access of
    the chunk-window machinery is inside its buffer for every chunk size and every byte string, an
    accepted header is self-consistent, and the bytes fetched are NOT bounded by the file length
    (counterexample = F14) unless no read crosses the end of the file.
(B) what only execution shows: the real library built with -fsanitize=address,undefined
      S4a  malformed-file stream: seed files of all three formats written by the real library, every
           truncation point, every 4-/8-byte header word x a dictionary of extremes, random multi-field
           corruptions and bit flips; each opened through the public API (open, every inquiry, a read of
           every variable, close) in a forked child; the result class and the visible metadata must equal
           the Lean model's verdict on the same bytes (Safety.openGuarded), incl. the number of bytes
           hdr_fetch asks MPI-IO for (PMPI counter vs Safety.bytesFetched)
      S4b  API-level scripts (checks/apigen.py generator + a second generator of metadata / nonblocking /
           fill / redefine programs) through harness/apirun.c on the sanitizer build, 1-3 ranks
      S4c  witnesses of the known defects, each in a process of its own
"""
import os, sys, json, re, hashlib, subprocess
sys.path.insert(0, os.path.dirname(os.path.abspath(__file__)))
from common import *
import apigen, apicmp

PROP = 'C19'
LEAN_FILES = ['PnVerif/Model/Safety.lean', 'PnVerif/Model/Header.lean', 'PnVerif/Spec/SpecDecode.lean', 'PnVerif/Lemmas/Window.lean',
              'PnVerif/Lemmas/Safety.lean', 'PnVerif/Lemmas/SafetyWf.lean', 'PnVerif/Lemmas/SafetyWork.lean', 'PnVerif/Lemmas/SafetyStrict.lean', 'PnVerif/Lemmas/SafetyEof.lean', 'PnVerif/Props/C19.lean', 'Driver/C19.lean']
DICT4 = [0, 1, 2, 3, 4, 5, 8, 9, 0x7fffffff, 0x80000000, 0xffffffff, 0xfffffffe, 10, 11, 12, 6, 7, 13, 0x100, 0x101, 0x7ffffffc, 0x10000]
DICT8 = [0, 1, 0x7fffffff, 0x80000000, 0xffffffff, 0x7fffffffffffffff, 0x8000000000000000, 0xffffffffffffffff,
         0xfffffffffffffffe, 0x100000000, 10, 11, 12, 0x7ffffffffffffffc]
SMALL = [0, 1, 2, 3, 4, 5, 6, 7, 8, 10, 11, 12, 13, 16, 31, 32, 33, 255, 256, 257, 300, 511, 512, 540, 4096]
NC_ENOMEM = -61
GROW_FACTOR, GROW_SLACK = 4, 262144 + 65536          # allocator high-water mark allowed: 4 x file size + chunk + 64 KiB
ASAN_ENV = {'ASAN_OPTIONS': 'allocator_may_return_null=1:max_allocation_size_mb=256:detect_leaks=0:exitcode=99:handle_abort=1',
            'UBSAN_OPTIONS': 'print_stacktrace=1'}
ASAN_ENV_BIG = {'ASAN_OPTIONS': 'allocator_may_return_null=1:max_allocation_size_mb=2048:detect_leaks=0:exitcode=99:handle_abort=1:hard_rss_limit_mb=4096',
                'UBSAN_OPTIONS': 'print_stacktrace=1'}

SIG_F14 = 'open:hdr-length-trusted-beyond-eof:attr-values'
SIG_CNT = 'open:hdr-length-trusted-beyond-eof:list-count'
SIG_FILLFILE = 'api:file-borne-_FillValue-unchecked-in-inq_var_fill'
TSIZE = {1: 1, 2: 1, 3: 2, 4: 4, 5: 4, 6: 8, 7: 1, 8: 2, 9: 4, 10: 8, 11: 8}


def local_findings(V):
    """finding lines proposed in findings/C19.txt count as known until the integrator merges them"""
    try:
        for line in open(os.path.join(VERIF, 'findings', 'C19.txt')):
            m = re.match(r'finding:\s+property=(\S+)\s+sig=(\S+)\s+(.*)$', line.strip())
            if m and m.group(1) == PROP and not any(k['sig'] == m.group(2) for k in V.known):
                V.known.append(dict(sig=m.group(2), text=m.group(3)))
    except OSError:
        pass


# ------------------------------------------------------------------------------------------
# sanitizer reports -> signatures
# ------------------------------------------------------------------------------------------
def report_sig(text):
    """(kind, site) of the first sanitizer report in `text` (a stderr dump or the ' | '-joined answer of
    harness/c19_open.c); site = <source file>:<function> of the innermost frame inside the library"""
    text = text.replace(' | ', '\n')
    kind = None
    m = re.search(r'runtime error: (.*)', text)
    a = re.search(r'ERROR: AddressSanitizer: (\S+)', text)
    if m and (not a or m.start() < a.start()):
        k = m.group(1)
        k = re.sub(r"of type '[^']*'", '', k)
        k = re.sub(r"in type '[^']*'", '', k)
        k = re.sub(r'0x[0-9a-f]+', 'P', k)
        k = re.sub(r'-?\d+(\.\d+)?(e[+-]?\d+)?', 'N', k)
        k = re.sub(r':.*', '', k)
        k = re.sub(r'N [-+*] N cannot be represented', 'overflow', k)
        kind = 'ubsan:' + re.sub(r'[^A-Za-z]+', '-', k.strip()).strip('-')[:60]
    elif a:
        kind = 'asan:' + a.group(1)
    else:
        return None, None
    site = '?'
    for f in re.finditer(r'#\d+ \S+ in (\S+) (\S+)', text):
        path = f.group(2)
        if ('/src/drivers/' in path or '/src/dispatchers/' in path or '/src/libs/' in path or '/src/utils/' in path) and 'libsanitizer' not in path:
            site = '%s:%s' % (os.path.basename(path.split(':')[0]), f.group(1))
            break
    return kind, site


def crash_sig(prefix, answer):
    kind, site = report_sig(answer)
    if kind:
        return '%s:%s@%s' % (prefix, kind, site)
    m = re.search(r'CRASH (signal|exit)=(\d+)', answer)
    return '%s:crash-%s%s' % (prefix, m.group(1), m.group(2)) if m else prefix + ':crash'


# ------------------------------------------------------------------------------------------
# seed files (written by the real library) and their corruptions
# ------------------------------------------------------------------------------------------
def seed_script(path, fmt, rng=None):
    """a small dataset with every header construct: record + fixed dimensions, global and variable
    attributes of several types, fixed / record / scalar variables, data"""
    L = ['create %s %d clobber -' % (path, fmt), 'def_dim t 0', 'def_dim x 3', 'def_dim y 2',
         'put_att - title char 5 68656c6c6f', 'put_att - vals double 2 1 2',
         'def_var a int 1 x', 'def_var r short 2 t y', 'put_att r units char 1 6d', 'def_var s double 0']
    if rng is not None:         # thorough: a second, seeded schema
        types = apigen.XT_ALL if fmt == 5 else apigen.XT_CLASSIC
        for k in range(rng.range(1, 3)):
            L.append('def_dim e%d %d' % (k, rng.range(1, 4)))
        for k in range(rng.range(1, 3)):
            t = rng.choice(types)
            nd = rng.range(0, 2)
            dn = ['t'] * rng.below(2) + [rng.choice(['x', 'y', 'e0']) for _ in range(nd)]
            L.append('def_var w%d %s %d %s' % (k, t, len(dn), ' '.join(dn)))
            if rng.chance(1, 2):
                L.append('put_att w%d %s %s %d %s' % (k, 'n' * rng.range(1, 9), rng.choice(['short', 'int', 'float']), 3, '1 2 3'))
    L += ['enddef', 'put vara c r short c 0,0 2,2 - - : 1 2 3 4', 'put var c a int c - - - - : 5 6 7', 'inq_header', 'close']
    return ''.join('%d * %s\n' % (i + 1, l) for i, l in enumerate(L))


def big_seed_script(path, fmt=5):
    """a CDF-5 header of more than one read chunk (262144 bytes): 70 global attributes of 1000 ints each, the first
    one shortened to 54 so that the 8-byte nelems field of attribute 66 starts at offset 262140: it straddles the
    chunk boundary and hdr_get_uint64 has to refill with 4 bytes of slack (memmove + shorter read)"""
    L = ['create %s 5 clobber -' % path, 'def_dim x 3']
    for k in range(70):
        n = 54 if k == 0 else 1000
        L.append('put_att - big%02d int %d %s' % (k, n, ' '.join(str((k * 1000 + j) % 97) for j in range(n))))
    L += ['def_var a int 1 x', 'put_att a units char 2 6d6d', 'enddef', 'put var c a int c - - - - : 5 6 7', 'inq_header', 'close']
    return ''.join('%d * %s\n' % (i + 1, l) for i, l in enumerate(L))


def make_seeds(api_exe, wd, tier, rng):
    seeds = []
    jobs = [(fmt, variant, False) for fmt in (1, 2, 5) for variant in ([None] if tier == 'quick' else [None, rng])]
    jobs.append((5, None, True))
    for fmt, variant, big in jobs:
            name = 'seed%d%s.nc' % (fmt, 'B' if big else 'b' if variant else '')
            sp = os.path.join(wd, 'seed.txt')
            open(sp, 'w').write(big_seed_script(name, fmt) if big else seed_script(name, fmt, variant))
            rc, lines, err = apicmp.run_impl(api_exe, sp, 1, wd)
            hs = None
            for l in lines:
                t = l.split()
                if len(t) >= 5 and t[2] == 'inq_header' and t[3] == '0':
                    hs = int(t[4])
            bad = [l for l in lines if len(l.split()) > 3 and l.split()[3] not in ('0',)]
            if rc != 0 or hs is None or bad:
                raise RuntimeError('seed file creation failed rc=%s %s %s' % (rc, bad[:3], err[-300:]))
            seeds.append(dict(name=name, fmt=fmt, hs=hs, big=big, data=open(os.path.join(wd, name), 'rb').read()))
            if big and seeds[-1]['data'][262140:262148] != (1000).to_bytes(8, 'big'):
                log('[S4a] note: the multi-chunk seed does not have a 64-bit field across the chunk boundary (layout of the writer changed?)')
    return seeds


def gen_cases(seeds, tier, rng):
    """-> list of dict(kind, name, data)"""
    full = []
    bigcases = []
    CH = 262144
    for s in [x for x in seeds if x['big']]:
        # header larger than one read chunk: the refill path of hdr_fetch (slack move, copy loop across the chunk
        # boundary) under the sanitizers; a handful of cases around the boundary
        d, hs, tag = s['data'], s['hs'], s['name']
        bigcases.append(dict(kind='bighdr', name='%s:intact' % tag, data=d))
        for cut in list(range(CH - 9, CH + 10, 3)) + [hs - 1, hs - 50, hs + 1]:
            bigcases.append(dict(kind='bighdr', name='%s:trunc@%d' % (tag, cut), data=d[:cut]))
        for off in (CH - 8, CH - 4, CH, CH + 4, hs - 8, hs - 4, 8):
            for v in (0, 0xffffffff, 12, 0x101):
                bigcases.append(dict(kind='bighdr', name='%s:w4@%d=%x' % (tag, off, v), data=d[:off] + v.to_bytes(4, 'big') + d[off + 4:]))
    seeds = [x for x in seeds if not x['big']]
    for s in seeds:
        d, hs, tag = s['data'], s['hs'], s['name']
        for cut in list(range(0, hs + 1)) + [hs + 1, hs + 3, len(d) - 1]:
            full.append(dict(kind='trunc', name='%s:trunc@%d' % (tag, cut), data=d[:cut]))
        for off in range(0, hs, 4):
            for v in DICT4:
                full.append(dict(kind='w4', name='%s:w4@%d=%x' % (tag, off, v), data=d[:off] + v.to_bytes(4, 'big') + d[off + 4:]))
            for v in DICT8:
                full.append(dict(kind='w8', name='%s:w8@%d=%x' % (tag, off, v), data=d[:off] + v.to_bytes(8, 'big') + d[off + 8:]))
        # off-by-one neighbourhood (always part of the quick tier): every word replaced by its own value +-1, and by
        # ndims-1 / ndims / ndims+1 of this file (the bound every dimension id is tested against)
        ndims = int.from_bytes(d[16:24] if s['fmt'] == 5 else d[12:16], 'big')      # element count of dim_list
        ndims = min(ndims, 1 << 20)
        for off in range(0, hs, 4):         # (4-byte words: in CDF-5 the low half of a 64-bit field is one of them)
            cur = int.from_bytes(d[off:off + 4], 'big')
            vals = set([(cur + 1) % (1 << 32), (cur - 1) % (1 << 32)] + [x for x in (ndims - 1, ndims, ndims + 1) if x >= 0])
            for v in sorted(vals - {cur}):
                full.append(dict(kind='nb', name='%s:nb@%d=%x' % (tag, off, v), data=d[:off] + v.to_bytes(4, 'big') + d[off + 4:]))
    if tier == 'quick':         # all truncation points of one format (the others every 3rd), all off-by-one neighbours, a seeded fifth of the dictionary substitutions
        f0 = seeds[rng.below(len(seeds))]['name']
        cases = [c for c in full if c['kind'] == 'trunc' and (c['name'].startswith(f0) or rng.chance(1, 3))]
        cases += [c for c in full if c['kind'].startswith('nb')]
        cases += [c for c in full if c['kind'] in ('w4', 'w8') and rng.chance(1, 5)]
    else:
        cases = list(full)
    nfull = len(full) + len(bigcases)
    cases += bigcases
    nmulti, nflip = (140, 100) if tier == 'quick' else (1500, 600)
    for k in range(nmulti):
        s = rng.choice(seeds)
        d = bytearray(s['data'])
        desc = []
        for _ in range(rng.range(2, 4)):
            off = 4 * rng.below(s['hs'] // 4)
            if rng.chance(3, 10):
                w = 8 if rng.chance(1, 3) else 4
                v = rng.choice(DICT8 if w == 8 else DICT4)
            else:
                w, v = 4, rng.choice(SMALL)
            d[off:off + w] = v.to_bytes(w, 'big')
            desc.append('%d@%d=%x' % (w, off, v))
        full_len = len(s['data'])
        cases.append(dict(kind='multi', name='%s:multi:%s' % (s['name'], ','.join(desc)), data=bytes(d[:full_len])))
    for k in range(nflip):
        s = rng.choice(seeds)
        d = bytearray(s['data'])
        desc = []
        for _ in range(rng.range(1, 3)):
            bit = rng.below(s['hs'] * 8)
            d[bit // 8] ^= 1 << (bit % 8)
            desc.append(str(bit))
        cases.append(dict(kind='bitflip', name='%s:flip:%s' % (s['name'], ','.join(desc)), data=bytes(d)))
    return cases, nfull


# ------------------------------------------------------------------------------------------
# running the open harness
# ------------------------------------------------------------------------------------------
def run_open(exe, paths, wd, tag, env, secs=10, asmb=0, fork=1, nprocs=1, timeout=1500):
    """-> answers[rank][request]; a request the harness did not answer gets 'NOT-RUN <why>'"""
    answers = [[] for _ in range(nprocs)]
    start, restarts = 0, 0
    while start < len(paths):
        reqf = os.path.join(wd, tag + '.req')
        open(reqf, 'w').write(''.join(p + '\n' for p in paths[start:]))
        pref = os.path.join(wd, tag + '.out')
        for r in range(nprocs):
            try:
                os.unlink('%s.%d' % (pref, r))
            except OSError:
                pass
        rc, so, se = mpirun(nprocs, [exe, reqf, pref, str(secs), str(asmb), str(fork)], timeout=timeout, env=env, cwd=wd)
        got = []
        for r in range(nprocs):
            try:
                ls = open('%s.%d' % (pref, r)).read().split('\n')[:-1]
            except OSError:
                ls = []
            got.append(ls)
        want = len(paths) - start
        if rc == 0 and all(len(g) == want for g in got):
            for r in range(nprocs):
                answers[r] += got[r]
            break
        done = min(min(len(g) for g in got), want - 1)
        why = 'CRASH harness-died rc=%s | %s' % (rc, ' | '.join(l for l in (so + se).split('\n') if re.search(
            r'ERROR: AddressSanitizer|runtime error:|SUMMARY:|^\s+#[0-7] |Signal:|signal \d+', l))[:1500])
        for r in range(nprocs):
            a = got[r][:done]
            answers[r] += a + [why if not (len(got[r]) > done and got[r][done] == 'TIMEOUT') else 'TIMEOUT']
        start += done + 1
        restarts += 1
        if restarts > 40:
            for r in range(nprocs):
                answers[r] += ['NOT-RUN too many restarts'] * (len(paths) - start)
            break
    return answers


PAR = max(1, min(4, NPROC // 2))
LEAN_PREFIX = []         # 'VARIANT ...' lines, set by run_check after the variant probe
VARIANT = dict(int63=False, eof=False)


def lean_batch(drv, lines, timeout=7200):
    """answers of the Lean driver for the request lines (split over PAR driver processes)"""
    from concurrent.futures import ThreadPoolExecutor

    def one(part):
        if not part:
            return []
        part = LEAN_PREFIX + part          # every driver process is told which variant the tree follows
        p = subprocess.run([drv], input='\n'.join(part) + '\n', stdout=subprocess.PIPE, stderr=subprocess.PIPE, text=True, timeout=timeout)
        out = p.stdout.split('\n')
        if p.returncode != 0 or len(out) < len(part):
            raise RuntimeError('lean driver failed rc=%s lines=%d/%d stderr=%s' % (p.returncode, len(out), len(part), p.stderr[-400:]))
        return out[len(LEAN_PREFIX):len(part)]
    k = PAR if len(lines) >= 64 else 1
    n = (len(lines) + k - 1) // k
    parts = [lines[i * n:(i + 1) * n] for i in range(k)]
    with ThreadPoolExecutor(max_workers=k) as ex:
        res = list(ex.map(one, parts))
    return [l for r in res for l in r]


def run_open_par(exe, paths, wd, tag, env, **kw):
    """run_open (single rank, fork mode) over PAR concurrent harness processes -> answers in request order"""
    from concurrent.futures import ThreadPoolExecutor
    k = PAR if len(paths) >= 64 else 1
    n = (len(paths) + k - 1) // k
    parts = [paths[i * n:(i + 1) * n] for i in range(k)]
    with ThreadPoolExecutor(max_workers=k) as ex:
        res = list(ex.map(lambda a: run_open(exe, a[1], wd, '%s_%d' % (tag, a[0]), env, **kw)[0] if a[1] else [], list(enumerate(parts))))
    return [l for r in res for l in r]


def trailer(ans):
    """the key=value part after '#'"""
    d = {}
    if ' # ' in ans:
        for t in ans.split(' # ', 1)[1].split():
            if '=' in t:
                k, v = t.split('=', 1)
                d[k] = v
    return d


def judge(case, ans, model):
    """-> (cls, failing) where failing = None | (sig, text); cls is the histogram key.
    `ans` = answer of the real library (sanitizer build), `model` = answer of the Lean driver."""
    wide = model.endswith(' WIDE')
    if wide:
        model = model[:-5]
    if VARIANT['int63']:
        wide = False        # the repaired reader refuses such words before any signed arithmetic: fully modelled (Safety.getBodyS)
    mt = model.split()
    fsz = len(case['data'])
    if ans.startswith('NOT-RUN'):
        return 'not-run', ('open:harness-not-run', 'the harness could not be run on this input: ' + ans[:200])
    if ans.startswith('TIMEOUT'):
        if mt[0] == 'BIG':
            return 'timeout(model:BIG)', (SIG_F14 if mt[1] == 'copy' else SIG_CNT, 'open does not finish within the watchdog: the header announces data up to stream position %s in a %d-byte file' % (mt[2], fsz))
        return 'timeout', ('open:timeout', 'ncmpi_open + inquiries do not finish within the watchdog on a %d-byte file' % fsz)
    if ans.startswith('CRASH'):
        sig = crash_sig('open', ans)
        return 'crash:' + sig, (sig, 'opening a malformed %d-byte file: %s' % (fsz, ans[:700]))
    real = ans.split(' # ')[0].strip()
    tr = trailer(ans)
    rt = real.split()
    grow = int(tr.get('grow', '0'))
    too_much = grow > GROW_FACTOR * fsz + GROW_SLACK
    enomem = rt[0] == 'ERR' and int(rt[1]) == NC_ENOMEM
    if mt[0] == 'BIG':
        # the model says: the header announces data far beyond the end of the file (F14 class); the real library
        # violates the resource clause when it goes along with it (allocation refused / far beyond the file size)
        sig = SIG_F14 if mt[1] == 'copy' else SIG_CNT
        what = ('%s (allocator high-water mark +%d bytes, %s fetches, %s ms)' % (real[:40], grow, tr.get('fetches', '?'), tr.get('ms', '?')))
        cls = 'model:BIG real:%s' % (' '.join(rt[:2]) if rt[0] == 'ERR' else rt[0])
        if enomem or too_much:
            return cls, (sig, 'a %d-byte file whose header announces data up to stream position %s: ncmpi_open -> %s' % (fsz, mt[2], what))
        return cls + ':cheap', None
    if enomem:
        # allocation refused under the allocation cap although the model sees no read far beyond EOF:
        # a count field is trusted for the allocation of a pointer array before any element is seen
        return 'real:ENOMEM model:%s' % mt[0], (SIG_CNT, 'a %d-byte file makes ncmpi_open request %d bytes (NC_ENOMEM under the allocation cap); model verdict %s' % (fsz, grow, ' '.join(mt[:2])))
    if too_much:
        return 'alloc-beyond-file-size', (SIG_CNT, 'a %d-byte file makes ncmpi_open allocate %d bytes (result %s)' % (fsz, grow, ' '.join(rt[:2])))
    if rt[0] == 'OK' and tr.get('wf', 'ok') != 'ok':
        if wide:
            return 'ok-not-wf(wide)', ('open:int64-field-above-2^63-accepted-as-negative', 'a CDF-5/CDF-2 header word >= 2^63 is accepted and reported as a negative value (%s): %s' % (tr.get('wf'), real[:200]))
        return 'ok-not-wf', ('open:metadata-not-self-consistent:' + tr.get('wf', '?'), 'ncmpi_open accepts the file but the metadata is not self-consistent (%s): %s' % (tr.get('wf'), real[:300]))
    if wide:
        return 'wide(' + ('agree' if real == model else 'differ') + ')', None
    if real == model:
        return ('ok' if rt[0] == 'OK' else 'err%s' % rt[1]), None
    return 'TIE', ('TIE', 'model and implementation differ: real [%s] model [%s]' % (real[:300], model[:300]))


# ------------------------------------------------------------------------------------------
# S4b: API-level scripts on the sanitizer build
# ------------------------------------------------------------------------------------------
def gen_misc_program(rng, path):
    """single-rank program over the operations the other properties use: metadata editing, redefinition,
    fill, nonblocking and buffered requests, error-case requests (out-of-range arguments are part of it)"""
    fmt = rng.choice([1, 2, 5])
    types = apigen.XT_ALL if fmt == 5 else apigen.XT_CLASSIC
    L = ['create %s %d clobber %s' % (path, fmt, rng.choice(['-', '-', 'nc_header_align_size=64', 'nc_var_align_size=8;nc_record_align_size=16',
                                                             'nc_hash_size_dim=1;nc_hash_size_var=2;nc_hash_size_attr=1;nc_hash_size_gattr=3']))]
    dims = [('t', 0)] + [('d%d' % i, rng.range(1, 5)) for i in range(rng.range(1, 3))]
    for n, l in dims:
        L.append('def_dim %s %d' % (n, l))
    if rng.chance(1, 2):
        L.append('set_fill 1')
    vars_ = []
    for i in range(rng.range(1, 4)):
        xt = rng.choice(types)
        nd = rng.range(0, 3)
        vd = [rng.choice(dims[1:]) for _ in range(nd)]
        if nd and rng.chance(1, 2):
            vd[0] = dims[0]
        vars_.append(('v%d' % i, xt, vd))
        L.append('def_var v%d %s %d %s' % (i, xt, len(vd), ' '.join(d[0] for d in vd)))
        if rng.chance(1, 3) and xt != 'char':
            L.append('def_var_fill v%d 0 %d' % (i, rng.range(0, 100)))
    names = ['a%d' % i for i in range(4)] + ['_FillValue', 'x' * 40]

    def meta():
        r = rng.below(9)
        tgt = rng.choice(['-'] + [v[0] for v in vars_])
        nm = rng.choice(names)
        if r <= 2:
            xt = rng.choice(['char', 'short', 'int', 'float', 'double', 'byte'])
            if xt == 'char':
                n = rng.choice([0, 1, 5, 33])
                return 'put_att %s %s char %d %s' % (tgt, nm, n, ''.join('%02x' % (97 + rng.below(26)) for _ in range(n)) or '-')
            n = rng.choice([0, 1, 2, 7])
            return 'put_att %s %s %s %d %s' % (tgt, nm, xt, n, ' '.join(str(rng.range(0, 100)) for _ in range(n)))
        if r == 3:
            return 'del_att %s %s' % (tgt, nm)
        # (a _FillValue of the wrong type / length smuggled in by rename_att or copy_att is witness FILLBYPASS)
        if r == 4:
            return 'rename_att %s %s %s' % (tgt, nm, rng.choice(names[:4] + names[5:]))
        if r == 5:
            return 'copy_att %s %s %s' % (tgt, rng.choice(names[:4] + names[5:]), rng.choice(['-'] + [v[0] for v in vars_]))
        if r == 6:
            return 'get_att %s %s text' % (tgt, nm)
        if r == 7:
            return 'rename_var %s %s' % (rng.choice(vars_)[0], rng.choice(['q', 'v0', 'v1', 'zz' * 20]))
        return 'rename_dim %s %s' % (rng.choice(dims)[0], rng.choice(['d0', 'd1', 'u', 'w' * 30]))
    for _ in range(rng.range(0, 5)):
        L.append(meta())
    L.append(rng.choice(['enddef', 'enddef', 'enddef2 %d %d %d %d' % (rng.choice([0, 64, 1000]), rng.choice([1, 4, 512]), rng.choice([0, 8]), rng.choice([1, 4, 64]))]))
    numrecs = 0
    reqn = [0]

    def region(v, bad=False):
        st, ct, sd = [], [], []
        for (n, l) in v[2]:
            ext = l if l else max(numrecs, 1) + rng.below(3)
            s = rng.range(0, ext - 1)
            k = rng.choice([1, 1, 2])
            c = rng.range(1, max(1, (ext - s + k - 1) // k))
            st.append(s); ct.append(c); sd.append(k)
        if bad and st:
            d = rng.below(len(st))
            r = rng.below(4)
            # (absurd magnitudes such as 2^62 are replayed as explicit witnesses: harness/apirun.c sizes its user
            #  buffer from the counts and is not written for them)
            # (no huge start on the record dimension either: it is a VALID put that makes numrecs huge, and every later
            #  whole-variable read, fill or redefinition then takes for ever)
            if r == 0:
                st[d] = rng.choice([-1, 99, 7])
            elif r == 1:
                ct[d] = rng.choice([-1, 99, 0])
            elif r == 2:
                sd[d] = rng.choice([0, -1, 7])
            else:
                st[d], ct[d] = 99, 0
        return st, ct, sd

    def data_op():
        v = rng.choice(vars_)
        mt = 'text' if v[1] == 'char' else rng.choice(apigen.MT_FOR[v[1]])
        bad = rng.chance(1, 6)
        st, ct, sd = region(v, bad)
        n = 1
        for c in ct:
            n *= max(c, 0)
        n = min(n, 4096)
        form = rng.choice(['vara', 'vars', 'var1', 'varm']) if st else rng.choice(['var1', 'var'])
        if bad and sd and any(k != 1 for k in sd):
            form = 'vars'
        lay = rng.choice(['c', 't', 'v2', 'r2'])
        vals = ' '.join(str(rng.range(0, 100)) for _ in range(n if form != 'var1' else 1))
        kind = rng.below(6)
        nonlocal_numrecs = None
        if kind <= 1:
            return 'put %s c %s %s %s %s %s %s - : %s' % (form, v[0], mt, lay, apigen.lst(st), apigen.lst(ct), apigen.lst(sd) if form in ('vars', 'varm') else '-', vals), v, st, ct, sd, bad
        if kind == 2:
            return 'get %s c %s %s %s %s %s %s -' % (form, v[0], mt, lay, apigen.lst(st), apigen.lst(ct), apigen.lst(sd) if form in ('vars', 'varm') else '-'), None, st, ct, sd, bad
        reqn[0] += 1
        op = ['iput', 'iget', 'bput'][kind - 3]
        s = '%s q%d %s %s %s %s %s %s %s -' % (op, reqn[0], form, v[0], mt, rng.choice(['c', 't']), apigen.lst(st), apigen.lst(ct), apigen.lst(sd) if form in ('vars', 'varm') else '-')
        if op != 'iget':
            s += ' : ' + vals
        return s, (v if op != 'iget' else None), st, ct, sd, bad
    L.append('attach %d' % rng.choice([64, 4096, 65536]))
    for ph in range(rng.range(2, 5)):
        for _ in range(rng.range(1, 5)):
            s, v, st, ct, sd, bad = data_op()
            L.append(s)
            if v is not None and not bad and v[2] and v[2][0][1] == 0:
                numrecs = max(numrecs, st[0] + (ct[0] - 1) * sd[0] + 1)
        r = rng.below(6)
        if r == 0:
            L.append('waitall c ALL')
        elif r == 1:
            L.append('waitall c %s' % rng.choice(['GET', 'PUT']))
        elif r == 2 and reqn[0]:
            # (ids that were never issued are replayed as an explicit witness: WAITBOGUS)
            # (no repeated id either: the wait is refused (C02 F19) but harness/apirun.c releases the user buffers of
            #  the named requests all the same, and the still pending request then writes into freed harness memory)
            ids = list(dict.fromkeys(rng.choice(['q%d' % rng.range(1, reqn[0]), 'q%d' % rng.range(1, reqn[0]), 'NULL']) for _ in range(rng.range(1, 3))))
            L.append('%s %d %s' % (rng.choice(['wait c', 'cancel']), len(ids), ' '.join(ids)))
        elif r == 3:
            L += ['waitall c ALL', 'redef'] + [meta() for _ in range(rng.range(0, 3))]
            if rng.chance(1, 2):
                k = len(vars_)
                xt = rng.choice(types)
                vd = [dims[0]] if rng.chance(1, 2) else [rng.choice(dims[1:])]
                vars_.append(('v%d' % k, xt, vd))
                L.append('def_var v%d %s 1 %s' % (k, xt, vd[0][0]))
            L.append('enddef')
        elif r == 4:
            recv = [v for v in vars_ if v[2] and v[2][0][1] == 0]
            if recv:
                # by id: the name may have been changed by a rename_var above (an invalid varid is witness F19)
                L.append('fill_var_rec #%d %d' % (vars_.index(rng.choice(recv)), rng.range(0, 2)))
        else:
            L.append('sync')
        L.append('inq_buf')
    L += ['waitall c ALL', 'detach', 'inq', 'inq_numrecs'] + ['inq_var %s' % v[0] for v in vars_] + ['close']
    L += ['open %s r -' % path, 'inq'] + ['get var c %s %s c - - - -' % (v[0], apigen.NATIVE[v[1]]) for v in vars_ if numrecs or not (v[2] and v[2][0][1] == 0)] + ['close']
    return ''.join('%d * %s\n' % (i + 1, l) for i, l in enumerate(L))


def run_script_asan(exe, text, nprocs, wd, tag, env=None, alarm=20):
    """run an API script with harness/apirun.c built against the sanitizer build
    -> (rc, result lines merged over the ranks, complete stdout+stderr of the job)"""
    sp = os.path.join(wd, tag + '.txt')
    open(sp, 'w').write(text)
    e = dict(ASAN_ENV)
    if env:
        e.update(env)
    pref = os.path.join(wd, 'o_' + tag)
    rc, so, se = mpirun(nprocs, [exe, sp, pref, str(alarm)], timeout=240, env=e, cwd=wd)
    lines = []
    for r in range(nprocs):
        try:
            lines.extend(l.rstrip('\n') for l in open('%s.%d' % (pref, r)) if l.strip())
            os.unlink('%s.%d' % (pref, r))
        except OSError:
            pass
    return rc, lines, so + se


def script_failure(rc, lines, err):
    """None or (sig, text): a sanitizer report, a crash, a deadlock or a guard-zone violation"""
    kind, site = report_sig(err)
    if kind:
        m = re.search(r'(runtime error:|ERROR: AddressSanitizer)', err)
        return 'api:%s@%s' % (kind, site), 'sanitizer report while running an API script: %s' % err[m.start():m.start() + 900]
    if rc != 0:
        return 'api:exit-%s' % rc, 'API script run ends with exit status %s: %s' % (rc, err[-600:])
    bv = apicmp.buffer_violations(lines)
    if bv:
        return 'api:buffer-guard', 'guard zone of a user buffer modified / deadlock: %s' % bv[:2]
    return None


# ------------------------------------------------------------------------------------------
# S4d: specification-valid files whose variable carries a _FillValue attribute of any type / length
# ------------------------------------------------------------------------------------------
def fill_schema(fmt, vt, at, n, rec, begin=0):
    """one variable v (fixed: v(x=3), record: v(t)) of type vt with an attribute _FillValue of type `at` and
    `n` elements - all of it legal in the file format; schema in the syntax of checks/c04.py"""
    att = dict(name=b'_FillValue', type=at, nelems=n, value=bytes([1]) * (n * TSIZE[at]))
    dims = [dict(name=b't', size=0)] if rec else [dict(name=b'x', size=3)]
    elems = 1 if rec else 3
    vlen = (elems * TSIZE[vt] + 3) // 4 * 4
    return dict(fmt=fmt, numrecs=1 if rec else 0, dims=dims, gatts=[],
                vars=[dict(name=b'v', dimids=[0], atts=[att], type=vt, vsize=vlen, begin=begin)]), vlen


def gen_fill_files(rng, tier, c04drv):
    """-> list of dict(name, data): encoded by the Lean specification encoder (Header.encodeRaw via c04drv ENC)"""
    import c04
    params = []
    for fmt in ((1, 2, 5) if tier == 'thorough' else (1, 5)):
        types = list(range(1, 7)) if fmt < 5 else list(range(1, 12))
        for vt in types:
            ats = types if tier == 'thorough' else sorted({vt, rng.choice([t for t in types if t != vt])})
            for at in ats:
                for n in (0, 1, 2):
                    for rec in (False, True):
                        params.append((fmt, vt, at, n, rec))
    save = list(LEAN_PREFIX)
    LEAN_PREFIX[:] = []               # (c04drv has its own variant lines; ENC does not depend on them)
    try:
        r1 = lean_batch(c04drv, ['ENC ' + ' '.join(c04.schema_tokens(fill_schema(*pp)[0])) for pp in params])
        xs = [int(l.split()[1]) for l in r1]
        r2 = lean_batch(c04drv, ['ENC ' + ' '.join(c04.schema_tokens(fill_schema(*pp, begin=x)[0])) for pp, x in zip(params, xs)])
    finally:
        LEAN_PREFIX[:] = save
    out = []
    for pp, x, l in zip(params, xs, r2):
        hdr = bytes.fromhex(l.split()[0])
        if len(hdr) != x:
            raise RuntimeError('Lean encoder: header length changed between the two passes')
        out.append(dict(name='fill:fmt%d:var-type%d:_FillValue-type%d-nelems%d:%s' % (pp[0], pp[1], pp[2], pp[3], 'rec' if pp[4] else 'fixed'),
                        params=pp, data=hdr + bytes(fill_schema(*pp)[1])))
    return out


def judge_fill(case, ans):
    """-> (class, None | (sig, text))"""
    if ans.startswith('FILL') and 'close=' in ans:
        return 'clean', None
    if ans.startswith('FILL open=') and ans.split()[1] != 'open=0':
        return 'open-refused', ('fill:valid-file-refused', 'a specification-valid file is refused by ncmpi_open: %s' % ans[:200])
    if 'ncmpio_inq_var_fill' in ans:
        return 'crash:inq_var_fill', (SIG_FILLFILE, '%s: %s' % (case['name'], ans[:700]))
    if ans.startswith('CRASH'):
        sig = crash_sig('fill', ans)
        return 'crash:' + sig, (sig, '%s: %s' % (case['name'], ans[:700]))
    return ans.split()[0].lower(), ('fill:' + ans.split()[0].lower(), '%s: %s' % (case['name'], ans[:300]))


# ------------------------------------------------------------------------------------------
# S4c: witnesses
# ------------------------------------------------------------------------------------------
def be32(n):
    return n.to_bytes(4, 'big')


def name32(s):
    b = s.encode()
    return be32(len(b)) + b + bytes((4 - len(b) % 4) % 4)


def probe63_file():
    """CDF-5, one dimension "x" of length 2^63+3, no attributes, no variables"""
    be64 = lambda n: n.to_bytes(8, 'big')
    return b'CDF\x05' + be64(0) + be32(10) + be64(1) + be64(1) + b'x\0\0\0' + be64((1 << 63) + 3) + be32(0) + be64(0) + be32(0) + be64(0)


def f14_file(nelems=0x7fffffff):
    """40-byte CDF-1 file: no dimensions, ONE global attribute "a" of type NC_DOUBLE with `nelems` elements, then nothing"""
    return b'CDF\x01' + be32(0) + be32(0) + be32(0) + be32(12) + be32(1) + name32('a') + be32(6) + be32(nelems)


def f11_file():
    """spec-valid CDF-1 file: record variable int v(t) with _FillValue = {1, 2} (two elements)"""
    var = name32('v') + be32(1) + be32(0) + be32(12) + be32(1) + name32('_FillValue') + be32(4) + be32(2) + be32(1) + be32(2) + be32(4) + be32(4)
    hdr = b'CDF\x01' + be32(0) + be32(10) + be32(1) + name32('t') + be32(0) + be32(0) + be32(0) + be32(11) + be32(1) + var
    return hdr + be32(len(hdr) + 4)


def witnesses(V, tree_p, tree_a, wd, api_asan, open_p, open_a, drv, tier):
    """each known defect in a process of its own; returns list of dict(id, outcome)"""
    res = []

    def record(wid, sig, failed, text, replay):
        res.append(dict(id=wid, sig=sig, reproduced=bool(failed), outcome=text[:400]))
        if failed:
            V.failing_input(sig, text, replay, tag='w_' + wid)

    # F10: ncmpi_def_var(..., varidp = NULL)
    for exe, build in ((open_a, 'asan'), (open_p, 'plain')):
        rc, so, se = mpirun(1, [exe, '--f10'], timeout=60, env=ASAN_ENV, cwd=wd)
        kind, site = report_sig(so + se)
        died = rc != 0 or 'returned' not in so
        sig = 'api:def_var-varidp-NULL-dereferenced'
        record('F10-' + build, sig, died, 'ncmpi_def_var(ncid, "v", NC_INT, 1, dimids, NULL) [%s build]: rc=%s %s %s %s' %
               (build, rc, kind or '', site or '', (so + se)[-300:].replace('\n', ' ')), dict(harness='harness/c19_open.c --f10', build=build))
        if died:
            break
    # F11: fill_var_rec with a 2-element _FillValue -> double free
    open(os.path.join(wd, 'f11.nc'), 'wb').write(f11_file())
    text = '1 * open f11.nc w -\n2 * inq_var v\n3 * fill_var_rec v 0\n4 * close\n'
    rc, lines, err = run_script_asan(api_asan, text, 1, wd, 'f11')
    kind, site = report_sig(err)
    ok_open = any(l.split()[2:4] == ['inq_var', '0'] for l in lines if len(l.split()) > 3)
    record('F11', 'api:fill_var_rec-double-free-on-bad-_FillValue', (kind == 'asan:attempting' or rc != 0) and ok_open,
           'spec-valid file with _FillValue of 2 elements, ncmpi_fill_var_rec: rc=%s %s@%s %s' % (rc, kind, site, err[-300:].replace('\n', ' ')),
           dict(script=text, file_hex=f11_file().hex()))
    # F15: stride 2^62
    text = ('1 * create f15.nc 2 clobber -\n2 * def_dim x 10\n3 * def_var v int 1 x\n4 * enddef\n'
            '5 * put vars c v int c 0 3 4611686018427387904 - : 1 2 3\n6 * close\n')
    rc, lines, err = run_script_asan(api_asan, text, 1, wd, 'f15')
    kind, site = report_sig(err)
    record('F15', 'api:vars-stride-2^62-signed-overflow', bool(kind) or rc != 0,
           'put_vars(start 0, count 3, stride 2^62) on shape 10: rc=%s %s@%s' % (rc, kind, site), dict(script=text))
    # REC62: record index 2^62 (valid for a put: the record dimension is unlimited) -> offset arithmetic overflows
    text = ('1 * create r62.nc 5 clobber -\n2 * def_dim t 0\n3 * def_var v short 1 t\n4 * enddef\n'
            '5 * put vara c v short c 4611686018427387904 1 - - : 7\n6 * close\n')
    rc, lines, err = run_script_asan(api_asan, text, 1, wd, 'r62')
    kind, site = report_sig(err)
    record('REC62', 'api:record-index-2^62-offset-overflow', bool(kind) or rc != 0,
           'short v(rec); ncmpi_put_vara_short_all(start 2^62, count 1): rc=%s %s@%s' % (rc, kind, site), dict(script=text))
    # F19: ncmpi_fill_var_rec with a variable id that does not exist
    text = ('1 * create f19.nc 1 clobber -\n2 * def_dim t 0\n3 * def_var v int 1 t\n4 * enddef\n'
            '5 * fill_var_rec #99 0\n6 * close\n')
    rc, lines, err = run_script_asan(api_asan, text, 1, wd, 'f19')
    kind, site = report_sig(err)
    record('F19', 'api:fill_var_rec-invalid-varid-indexes-out-of-bounds', bool(kind) or rc != 0,
           'ncmpi_fill_var_rec(ncid, 99, 0) with one variable defined: rc=%s %s@%s' % (rc, kind, site), dict(script=text))
    # WAITBOGUS: a wait that is refused because of an unknown id, then wait_all
    text = ('1 * create wb.nc 5 clobber -\n2 * def_dim d0 5\n3 * def_var v0 double 1 d0\n4 * def_var v2 int64 0\n5 * enddef\n6 * attach 65536\n'
            '7 * bput q2 vara v0 int c 4 1 - - : 22\n8 * bput q3 vara v0 uchar t 3 2 - - : 59 86\n9 * wait c 3 q3 BOGUS NULL\n'
            '10 * iput q4 var v2 uint c - - - - : 71\n11 * wait c 2 q2 NULL\n12 * waitall c ALL\n')
    rc, lines, err = run_script_asan(api_asan, text, 1, wd, 'wb')
    kind, site = report_sig(err)
    record('WAITBOGUS', 'api:wait-refused-for-unknown-id-then-wait-use-after-free', bool(kind) or rc != 0,
           'bput q2, bput q3, ncmpi_wait_all(3, {q3, never-issued id, NC_REQ_NULL}) = NC_EINVAL_REQUEST, iput q4, ncmpi_wait_all(2, {q2, NC_REQ_NULL}), '
           'ncmpi_wait_all(NC_REQ_ALL): rc=%s %s@%s' % (rc, kind, site), dict(script=text))
    # FILLBYPASS: ncmpi_put_att checks type and length of _FillValue, ncmpi_copy_att / ncmpi_rename_att do not
    for wid, text in (('FILLBYPASS-copy', '1 * create cf.nc 2 clobber -\n2 * def_dim x 5\n3 * def_var a int 1 x\n4 * def_var b double 1 x\n5 * def_var_fill a 0 49\n'
                                          '6 * copy_att a _FillValue b\n7 * enddef\n8 * put vara c b ulonglong c 0 1 - - : 1\n9 * close\n'),
                      ('FILLBYPASS-rename', '1 * create rf.nc 2 clobber -\n2 * def_dim x 5\n3 * def_var b double 1 x\n4 * put_att b a0 short 1 7\n'
                                            '5 * rename_att b a0 _FillValue\n6 * enddef\n7 * put vara c b ulonglong c 0 1 - - : 1\n8 * close\n')):
        rc, lines, err = run_script_asan(api_asan, text, 1, wd, wid.lower())
        kind, site = report_sig(err)
        record(wid, 'api:_FillValue-of-wrong-type-via-copy_att-or-rename_att-over-read', bool(kind) or rc != 0,
               '%s: a 4-/2-byte attribute becomes the _FillValue of a double variable, the next converting put reads 8 bytes of it: rc=%s %s@%s' % (wid, rc, kind, site), dict(script=text))
    text = ('1 * create rf2.nc 2 clobber -\n2 * def_dim t 0\n3 * def_var b int 1 t\n4 * put_att b a0 int 2 7 8\n5 * rename_att b a0 _FillValue\n'
            '6 * enddef\n7 * fill_var_rec b 0\n8 * close\n')
    rc, lines, err = run_script_asan(api_asan, text, 1, wd, 'f11b')
    kind, site = report_sig(err)
    record('F11-via-rename_att', 'api:fill_var_rec-double-free-on-bad-_FillValue', bool(kind) or rc != 0,
           'the F11 state reached through the API alone (put_att a0 = int {7,8}; rename_att a0 -> _FillValue; fill_var_rec): rc=%s %s@%s' % (rc, kind, site), dict(script=text))
    # N2: hash size 0
    text = '1 * create n2.nc 1 clobber nc_hash_size_dim=0\n2 * def_dim x 10\n3 * def_dim y 10\n4 * enddef\n5 * close\n'
    rc, lines, err = run_script_asan(api_asan, text, 1, wd, 'n2')
    kind, site = report_sig(err)
    record('N2', 'api:hint-hash-size-0-accepted', bool(kind) or rc != 0,
           'hint nc_hash_size_dim=0, ncmpi_def_dim: rc=%s %s@%s' % (rc, kind, site), dict(script=text))
    # varn: sub-request spanning several records
    text = ('1 * create vn.nc 5 clobber -\n2 * def_dim t 0\n3 * def_dim a 3\n4 * def_dim b 4\n5 * def_var v float 3 t a b\n6 * def_var f int 1 a\n7 * enddef\n'
            '8 * put varn c v float c 0,2,0 3,1,3 - - : 1 2 3 4 5 6 7 8 9\n9 * close\n')
    rc, lines, err = run_script_asan(api_asan, text, 1, wd, 'varn')
    kind, site = report_sig(err)
    record('VARN', 'api:varn-record-subrequest-spanning-several-records-overread', bool(kind) or rc != 0,
           'float v(rec,3,4); ncmpi_put_varn_float_all(1 request, start {0,2,0}, count {3,1,3}): rc=%s %s@%s' % (rc, kind, site), dict(script=text))
    # F16: intra-node aggregation, 5 ranks, 2 aggregators per node
    text = '1 * create f16.nc 1 clobber nc_num_aggrs_per_node=2\n2 * def_dim x 10\n3 * def_var v int 1 x\n4 * enddef\n5 * put vara c v int c 0 1 - - : 1\n6 * close\n'
    rc, lines, err = run_script_asan(api_asan, text, 5, wd, 'f16', alarm=40)
    kind, site = report_sig(err)
    record('F16', 'api:intra-node-aggr-init-over-read', bool(kind),
           'hint nc_num_aggrs_per_node=2 on 5 ranks of one node: rc=%s %s@%s' % (rc, kind, site), dict(script=text, nprocs=5))
    # F14: the 40-byte file, under hard limits, on both builds; and a scaled variant that completes
    w14 = f14_file()
    p14 = os.path.join(wd, 'f14.nc')
    open(p14, 'wb').write(w14)
    m14 = lean_batch(drv, ['OPEN ' + w14.hex()])[0]
    a_plain = run_open(open_p, [p14], wd, 'f14p', None, secs=20, asmb=2048, fork=1)[0][0]
    a_asan = run_open(open_a, [p14], wd, 'f14a', ASAN_ENV_BIG, secs=20, asmb=0, fork=1)[0][0]
    small = f14_file(0x01000000)
    ps = os.path.join(wd, 'f14s.nc')
    open(ps, 'wb').write(small)
    a_small = run_open(open_a, [ps], wd, 'f14s', ASAN_ENV_BIG, secs=20, asmb=0, fork=1)[0][0]
    tr = trailer(a_small)
    scaled_bad = int(tr.get('grow', '0')) > 100 * len(small)
    failed = m14.startswith('BIG copy') and (not a_plain.startswith('OK') or int(trailer(a_plain).get('grow', '0')) > 1000) and scaled_bad
    record('F14', SIG_F14, failed,
           '40-byte CDF-1 file, global attribute nelems=0x7fffffff NC_DOUBLE: model %s; plain build under RLIMIT_AS 2 GiB + 20 s alarm: %s; sanitizer build: %s; '
           'same file with nelems=0x01000000 (completes): %s' % (m14, a_plain[:160], a_asan[:160], a_small[:200]),
           dict(file_hex=w14.hex(), scaled_file_hex=small.hex(), harness='harness/c19_open.c'))
    return res


# ------------------------------------------------------------------------------------------
def run_check(tier, seed):
    V = Verdict(PROP, tier, seed)
    local_findings(V)
    rng = SplitMix64(seed * 2654435761 + 19)
    V.assumptions = [
        'LEVEL PARTIAL. Proved (Lean, about the model): totality/progress of the header decoder, in-bounds accesses of the chunk window for every chunk size and input, self-consistency of an accepted header, work bound refuted (F14) + bound under the no-read-past-EOF hypothesis. NOT provable and only tested: absence of undefined behaviour, out-of-bounds, use-after-free, misalignment, NULL dereference in the compiled C (sanitizer build, this run\'s inputs only)',
        'the model Model/Header.lean (owned by C04) keeps header words as natural numbers; the C casts 64-bit words to the signed MPI_Offset: the model/implementation comparison is claimed only for files in which no 64-bit header word >= 2^63 is read (flag WIDE of the driver); such files are still run on the sanitizer build.  On a tree that carries the int63 repair (detected by witness replay) the variant model Safety.getBodyS covers them and they ARE compared; on a tree with the F14 repair the model is Safety.runE (no zero extension)',
        'sanitizer runs use ASAN_OPTIONS allocator_may_return_null=1:max_allocation_size_mb=256 (2048 for the F14 replays) instead of RLIMIT_AS (ASan reserves terabytes of shadow address space), the plain build RLIMIT_AS 2 GiB; every probe runs in a forked child / process of its own with an alarm',
        'names with embedded NUL bytes are accepted by the reader and truncated by the inquiry functions (lookup by name then fails): counted (miss=), not treated as a self-consistency failure',
        'OpenMPI / ROMIO, libc and the harness itself are instrumented only as far as the sanitizer build of the harness reaches (MPI library not instrumented); leak detection is off (C17 owns resource lifecycle)',
    ]
    V.cov['trusted_base'] = TRUSTED_BASE_COMMON + [
        'hand-written models lean/PnVerif/Model/Header.lean + Model/Safety.lean (tied by correspondence, not by proof)',
        'gcc 12 AddressSanitizer + UndefinedBehaviorSanitizer: what they do not report is not seen',
        'harness/c19_open.c, harness/apirun.c, checks/c19.py, checks/apigen.py (generators, classification)']
    wd = workdir('c19')
    # S1 + harness builds.  The scratch builds are shared with the other checks and evicted when /repo changes:
    # a build directory that disappears between build_impl() and the compile is rebuilt, not reported.
    for attempt in range(3):
        try:
            tree_p = build_impl('plain')
            tree_a = build_impl('asan')
            src = os.path.join(VERIF, 'harness/c19_open.c')
            open_p = cc(tree_p, [src], os.path.join(wd, 'c19_open'))
            open_a = cc(tree_a, [src], os.path.join(wd, 'c19_open_asan'), asan=True)
            api_p = apicmp.build_apirun(tree_p, wd)
            api_a = apicmp.build_apirun(tree_a, wd, '_asan')
            break
        except BuildFailed as ex:
            if attempt == 2 or 'harness compile failed' not in str(ex) or 'No such file' not in str(ex):
                cleanup(wd)
                raise
            log('[S1] scratch build evicted during the compile, rebuilding')
    try:
        # ---- S3
        ok, out = lake_build(['PnVerif.Props.C19', 'c19drv', 'c04drv'])
        failed_thms = set()
        if not ok:
            for f, ln, msg in lake_errors(out):
                t = theorem_at(f, ln)
                if t:
                    failed_thms.add(t)
            log('[S3] lake build FAILED:', sorted(failed_thms)[:20], out[-800:])
        obl = obligations_of('PnVerif/Props/C19.lean')
        discharged, bad = axiom_audit('PnVerif.Props.C19', obl, 'PnVerif.Props.C19') if ok else ([], [])
        forb = grep_forbidden([os.path.join(LEAN, f) for f in LEAN_FILES])
        V.cov['obligations'] = len(obl)
        V.cov['discharged'] = len(discharged)
        V.cov['theorems'] = obl
        V.cov['checker_cmd'] = 'cd lean && lake build PnVerif.Props.C19 c19drv && lake env lean <#print axioms of every name in Props.C19.obligations>'
        if tier == 'thorough' and ok:
            lc = leanchecker(['PnVerif.Props.C19'])
            V.cov['leanchecker'] = 'ok' if not lc else str(lc)
            if lc:
                bad.append(('leanchecker', lc))
        proof_broken = (not ok) or bad or forb or not obl
        drv = os.path.join(LEAN, '.lake/build/bin/c19drv')
        if not os.path.exists(drv):
            V.broken_tie('Lean driver c19drv does not build', out[-1500:])
            return V.finish()
        # ---- which variant does the tree follow?  (repair of B10-3/B10-5/B10-6: 64-bit header fields with the sign bit set
        # and begin + len beyond 2^63-1 are refused; Safety.getBodyS / postPassS model both, Lemmas/SafetyStrict.lean
        # proves the repaired reader conservative).  Witness replay: a CDF-5 file whose only dimension has length 2^63+3.
        pv = os.path.join(wd, 'probe63.nc')
        open(pv, 'wb').write(probe63_file())
        pa = run_open(open_a, [pv], wd, 'probe', ASAN_ENV, secs=10, fork=1)[0][0]
        if pa.startswith('ERR -51'):
            VARIANT['int63'] = True
        elif pa.startswith('OK 5 ') and ' D -' in pa:
            VARIANT['int63'] = False
        else:
            V.broken_tie('variant probe: unexpected answer of the real library for a dimension length of 2^63+3', pa[:600])
            return V.finish()
        # repair of F14: a header read beyond the end of the file is refused (Safety.runE / runWE; Props.C19
        # decode_work_bound_repaired).  Witness replay: the 8-byte file "CDF\x01" + numrecs, which the code as it stands
        # opens as an empty dataset (everything behind it is read as zeros).
        pe = os.path.join(wd, 'probe_eof.nc')
        open(pe, 'wb').write(b'CDF\x01' + be32(0))
        pb = run_open(open_a, [pe], wd, 'probe2', ASAN_ENV, secs=10, fork=1)[0][0]
        if pb.startswith('ERR -51'):
            VARIANT['eof'] = True
        elif pb.startswith('OK 1 - 0 0 0 -1'):
            VARIANT['eof'] = False
        else:
            V.broken_tie('variant probe: unexpected answer of the real library for the 8-byte file CDF1+numrecs', pb[:600])
            return V.finish()
        LEAN_PREFIX[:] = ['VARIANT int63 %d' % (1 if VARIANT['int63'] else 0), 'VARIANT eof %d' % (1 if VARIANT['eof'] else 0)]
        V.cov['tree_variant'] = dict(int63='repaired (B10-3/5/6)' if VARIANT['int63'] else 'present',
                                     eof='repaired (F14)' if VARIANT['eof'] else 'present')
        fails = []          # (sig, text, replay)
        dist = {}
        # ---- S4a malformed-file stream
        t1 = Timer()
        seeds = make_seeds(api_p, wd, tier, rng)
        cases, nfull = gen_cases(seeds, tier, rng)
        cdir = os.path.join(wd, 'm')
        os.makedirs(cdir)
        for i, c in enumerate(cases):
            c['path'] = os.path.join(cdir, '%d.nc' % i)
            open(c['path'], 'wb').write(c['data'])
        model = lean_batch(drv, ['OPEN ' + (c['data'].hex() or '-') for c in cases])
        log('[S4a] %d malformed files (of %d in the full enumeration), Lean model verdicts in %.1fs' % (len(cases), nfull, t1.s()))
        small = [i for i, m in enumerate(model) if not m.startswith('BIG')]
        big = [i for i, m in enumerate(model) if m.startswith('BIG')]
        nbig = 12 if tier == 'quick' else 150
        big_run = [big[rng.below(len(big))] for _ in range(nbig)] if len(big) > nbig else list(big)
        big_run = sorted(set(big_run))
        t1 = Timer()
        ans = {}
        # in batches: a tree on which (nearly) every open ends in a new sanitizer report is decided after the
        # first batches (each report costs ~0.3 s of symbolisation), the rest of the stream is then not run
        order = rng.shuffle(small)
        stopped = None
        known_sigs = set(k['sig'] for k in V.known)
        unknown = 0
        for b0 in range(0, len(order), 1200):
            part = order[b0:b0 + 1200]
            a1 = run_open_par(open_a, [cases[i]['path'] for i in part], wd, 'mal', ASAN_ENV, secs=10, fork=1)
            for i, a in zip(part, a1):
                ans[i] = a
                f = judge(cases[i], a, model[i])[1]
                if f and f[0] not in known_sigs:
                    unknown += 1
            if unknown >= 60 and b0 + 1200 < len(order):
                stopped = 'stream stopped after %d of %d opens: %d failing inputs with signatures that are not known findings' % (b0 + len(part), len(order), unknown)
                log('[S4a] ' + stopped)
                break
        small = sorted(ans)
        a2 = run_open(open_a, [cases[i]['path'] for i in big_run], wd, 'big', ASAN_ENV, secs=20, fork=1)[0] if big_run else []
        for i, a in zip(big_run, a2):
            ans[i] = a
        log('[S4a] sanitizer build: %d opens (+%d of %d files the model classifies BIG) in %.1fs' % (len(small), len(big_run), len(big), t1.s()))
        distinct = set()
        tie = []
        for i, a in sorted(ans.items()):
            cls, failing = judge(cases[i], a, model[i])
            key = '%s:%s' % (cases[i]['kind'], cls)
            dist[key] = dist.get(key, 0) + 1
            if not cls.startswith('ok'):
                distinct.add(hashlib.sha1(cases[i]['data']).hexdigest())
            if failing:
                sig, text = failing
                rep = dict(case=cases[i]['name'], file_hex=cases[i]['data'].hex()[:4000], implementation=a[:1500], model=model[i][:600],
                           harness='harness/c19_open.c (sanitizer build), lean/Driver/C19.lean OPEN')
                if sig == 'TIE':
                    tie.append(rep)
                else:
                    fails.append((sig, text, rep))
        dist['model:BIG-not-run'] = len(big) - len(big_run)
        if stopped:
            V.cov['stream_stopped_early'] = stopped
        nmal = len(ans)
        # thorough: the clean inputs again on 2 ranks (no fork: hdr_fetch's broadcast path) and on the plain build
        n2 = 0
        if tier == 'thorough':
            clean = [i for i in small if not (ans[i].startswith('CRASH') or ans[i].startswith('TIMEOUT') or ans[i].startswith('NOT-RUN')) and judge(cases[i], ans[i], model[i])[1] is None]
            sub = clean[::3]
            t1 = Timer()
            r2 = run_open(open_a, [cases[i]['path'] for i in sub], wd, 'mal2', ASAN_ENV, secs=20, fork=0, nprocs=2)
            for rk in range(2):
                for i, a in zip(sub, r2[rk]):
                    n2 += 1
                    ra, rb = a.split(' # ')[0].strip(), ans[i].split(' # ')[0].strip()
                    # non-root ranks do not read: compare everything but the fetch counter
                    strip = lambda s: re.sub(r' F \S+', '', s)
                    if a.startswith('CRASH') or a.startswith('TIMEOUT') or a.startswith('NOT-RUN'):
                        fails.append((crash_sig('open', a) if a.startswith('CRASH') else 'open:2ranks:' + a.split()[0], '2-rank open of a malformed file: ' + a[:600],
                                      dict(case=cases[i]['name'], file_hex=cases[i]['data'].hex()[:4000], nprocs=2)))
                    elif strip(ra) != strip(rb):
                        tie.append(dict(case=cases[i]['name'], what='2-rank result differs from 1-rank result', rank=rk, two=ra[:300], one=rb[:300]))
            log('[S4a] 2-rank opens: %d results in %.1fs' % (n2, t1.s()))
        # ---- model-level self check of the instrumented window (the theorem window_safe, evaluated)
        # (multi-chunk headers only with a large chunk: the list-based model pays O(file) per fetch)
        sm = [i for i in small if len(cases[i]['data']) < 5000]
        tsample = [cases[i] for i in sm[::max(1, len(sm) // (60 if tier == 'quick' else 400))]]
        treq = ['TRACE %d %s' % (ch, c['data'].hex() or '-') for c in tsample for ch in (36, 52, 4096)]
        treq += ['TRACE 100000 %s' % cases[i]['data'].hex() for i in small if cases[i]['kind'] == 'bighdr'][:4]
        tl = lean_batch(drv, treq)
        unsafe = [l for l in tl if l != 'BIG' and (len(l.split()) != 5 or l.split()[1] != '0' or l.split()[2] != 'false')]
        if unsafe:
            tie.append(dict(what='instrumented window run reports an unsafe access or a stuck copy loop (contradicts theorem window_safe)', lines=unsafe[:5]))
        dist['trace-evaluations'] = len(tl)
        # ---- S4b API-level scripts on the sanitizer build
        t1 = Timer()
        nprog = 6 if tier == 'quick' else 60
        nmisc = 10 if tier == 'quick' else 120
        napi = 0
        tags = {}
        for k in range(nprog):
            nprocs = rng.choice([1, 2, 3])
            p = apigen.gen_rw_program(rng, 'rw_%d.nc' % k, nprocs)
            text = p.text()
            rc, lines, err = run_script_asan(api_a, text, nprocs, wd, 'rw%d' % k)
            napi += len(lines)
            for t in p.tags:
                tags[t] = tags.get(t, 0) + 1
            f = script_failure(rc, lines, err)
            if f:
                fails.append((f[0], f[1], dict(script=text, nprocs=nprocs, replay='mpiexec -n %d apirun(asan build) <script> out' % nprocs)))
        # metadata-heavy and multi-request programs of the shared generators (copy_att over existing attributes of another
        # type, rename/delete, redefinition, cancel, abort; many varn segments, interleaving nonblocking requests per wait)
        nshared = 12 if tier == 'quick' else 60
        for k in range(nshared):
            nprocs = rng.choice([1, 1, 2])
            p = (apigen.gen_cancel_program(rng, 'sh_%d.nc' % k, nprocs) if k % 4 == 3 else apigen.gen_meta_program(rng, 'sh_%d.nc' % k, nprocs) if k % 2 == 0 else apigen.gen_mix_program(rng, 'sh_%d.nc' % k, nprocs, focus=['burst', 'burst', 'recvarn', 'burst'][(k // 4) % 4]))
            text = p.text()
            rc, lines, err = run_script_asan(api_a, text, nprocs, wd, 'sh%d' % k)
            napi += len(lines)
            for t in p.tags:
                tags[t] = tags.get(t, 0) + 1
            f = script_failure(rc, lines, err)
            if f:
                fails.append((f[0], f[1], dict(script=text, nprocs=nprocs, replay='mpiexec -n %d apirun(asan build) <script> out' % nprocs)))
        for k in range(nmisc):
            text = gen_misc_program(rng, 'misc_%d.nc' % k)
            rc, lines, err = run_script_asan(api_a, text, 1, wd, 'misc%d' % k)
            napi += len(lines)
            for l in lines:
                t = l.split()
                if len(t) > 3:
                    kk = 'op:%s%s' % (t[2], '' if t[3] == '0' else ':err')
                    tags[kk] = tags.get(kk, 0) + 1
            f = script_failure(rc, lines, err)
            if f:
                fails.append((f[0], f[1], dict(script=text, nprocs=1, replay='mpiexec -n 1 apirun(asan build) <script> out')))
        log('[S4b] %d + %d API scripts (%d result lines) on the sanitizer build in %.1fs' % (nprog, nmisc, napi, t1.s()))
        # ---- S4d files with _FillValue attributes of every type / length 0,1,2 (valid headers from the Lean encoder)
        t1 = Timer()
        c04drv = os.path.join(LEAN, '.lake/build/bin/c04drv')
        nfill = 0
        if os.path.exists(c04drv):
            fcases = gen_fill_files(rng, tier, c04drv)
            fdir = os.path.join(wd, 'fill')
            os.makedirs(fdir)
            for i, c in enumerate(fcases):
                c['path'] = os.path.join(fdir, '%d.nc' % i)
                open(c['path'], 'wb').write(c['data'])
            fans = run_open_par(open_a, [c['path'] + ' FILL' for c in fcases], wd, 'fill', ASAN_ENV, secs=10, fork=1)
            for c, a in zip(fcases, fans):
                cls, failing = judge_fill(c, a)
                dist['fillfile:' + cls] = dist.get('fillfile:' + cls, 0) + 1
                nfill += 1
                if cls != 'clean':
                    distinct.add(hashlib.sha1(c['data']).hexdigest())
                if failing:
                    fails.append((failing[0], failing[1], dict(case=c['name'], file_hex=c['data'].hex(), implementation=a[:1500],
                                                               harness='harness/c19_open.c (sanitizer build), request `<file> FILL`')))
            log('[S4d] %d files with a _FillValue attribute (every type, 0/1/2 elements, fixed + record variable) in %.1fs' % (nfill, t1.s()))
        else:
            tie.append(dict(what='c04drv (Lean specification encoder) is not built: the _FillValue file stream did not run'))
        # ---- S4c witnesses
        t1 = Timer()
        wres = witnesses(V, tree_p, tree_a, wd, api_a, open_p, open_a, drv, tier)
        log('[S4c] witnesses in %.1fs: %s' % (t1.s(), ' '.join('%s=%s' % (w['id'], 'reproduced' if w['reproduced'] else 'not-reproduced') for w in wres)))
        # ---- evidence
        V.cov['evaluations'] = nmal + n2 + napi + nfill + len(tl) + len(wres)
        V.cov['distinct_nontrivial'] = len(distinct)
        V.cov['traces_validated_against_impl'] = nmal - len(tie)
        V.cov['rule'] = ('S4a: seed files of CDF-1/2/5 written by the real library; every truncation point, every 4-byte-aligned header word replaced by each of %d 32-bit and %d 64-bit '
                         'extreme values, by its own value +-1 and by ndims-1/ndims/ndims+1 (quick tier: all truncations of one format, a third of the others, all off-by-one neighbours, a seeded fifth of the dictionary substitutions; thorough: all), random 2-4-field '
                         'corruptions and 1-3 bit flips; each opened by the sanitizer build in a forked child (open, inq, every dim/att/var inquiry, inq_varoffset, a read of every variable, '
                         'close) and compared with the model verdict incl. bytes fetched. non-trivial = the answer is not a plain OK; distinct = distinct sha1(file). '
                         'S4b: API scripts on the sanitizer build; S4c: one process per known defect; S4d: valid files (Lean encoder) whose variable has a _FillValue of any type with 0/1/2 elements, then inq_var_fill, converting out-of-range put + iput, fill_var_rec, redefinition in fill mode' % (len(DICT4), len(DICT8)))
        V.cov['distribution'] = dict(sorted(dist.items()))
        V.cov['api_tags'] = dict(sorted(tags.items()))
        V.cov['witnesses'] = wres
        V.cov['files'] = dict(seeds=[dict(name=s['name'], header_bytes=s['hs'], file_bytes=len(s['data'])) for s in seeds], malformed=len(cases),
                              full_enumeration=nfull, model_big=len(big), model_big_run=len(big_run), api_rw=nprog, api_misc=nmisc)
        V.cov['claim'] = ('PARTIAL: obligations/discharged count the Lean theorems about the header-decoder model (half A); the memory-safety half (B) is '
                          'sanitizer-backed execution of the inputs of this run only (evaluations / distribution / witnesses), supporting evidence and not proof')
        V.cov['samples'] = [dict(case=cases[i]['name'], implementation=ans[i][:300], model=model[i][:200]) for i in sorted(ans)[::max(1, len(ans) // 5)]][:6]
        # ---- S5
        nnew = 0
        seen_sig = {}
        for sig, text, rep in fails:
            seen_sig[sig] = seen_sig.get(sig, 0) + 1
        done = set()
        for sig, text, rep in fails:
            if sig in done:
                continue
            done.add(sig)
            if V.failing_input(sig, text + ' [%d inputs of this run share the signature]' % seen_sig[sig], rep, tag='in%d' % nnew):
                nnew += 1
                if nnew >= 40:
                    break
        V.cov['failing_inputs_by_signature'] = dict(sorted(seen_sig.items()))
        if nnew == 0 and not V.violations:
            if tie:
                V.broken_tie('correspondence: model Safety.openGuarded / Safety.bytesFetched and the real ncmpi_open differ', tie[:8])
            if proof_broken:
                V.broken_tie('proof obligations no longer check',
                             dict(failed_theorems=sorted(failed_thms), axiom_audit=bad[:10], forbidden=forb[:10], lake_tail=out[-1500:] if not ok else ''))
        return V.finish()
    finally:
        cleanup(wd)


if __name__ == '__main__':
    tier, seed, replay = args(sys.argv[1:])
    sys.exit(run_check(tier, seed))
