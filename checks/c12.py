#!/usr/bin/env python3
"""C12 — the burst-buffer driver is transparent to the application (DESIGN.md §4 C12)."""
import os, sys, json, subprocess, shutil
sys.path.insert(0, os.path.dirname(os.path.abspath(__file__)))
from common import *
import apigen, apicmp

PROP = 'C12'


def flush_lines(rng, tier):
    lines = []
    n = 1500 if tier == 'thorough' else 300
    for _ in range(n):
        k = rng.range(0, 12)
        es = []
        for _ in range(k):
            es.append('%d:%d' % (0 if rng.chance(1, 5) else 1, rng.choice([0, 1, 2, 3, 4, 5, 7, 8, 16, 33])))
        fbs = rng.choice([0, 0, 1, 2, 4, 7, 8, 9, 16, 17, 40, 1000])
        lines.append('F %d %d %s' % (fbs, k, ' '.join(es)))
    # exhaustive small logs: up to 4 entries, sizes 1..3, buffer 1..5
    import itertools
    for k in range(0, 4 if tier == 'quick' else 5):
        for sizes in itertools.product([1, 2, 3], repeat=k):
            for valid in itertools.product([0, 1], repeat=k):
                for fbs in (1, 2, 3, 5):
                    if tier == 'quick' and k == 3 and fbs == 5:
                        continue
                    lines.append('F %d %d %s' % (fbs, k, ' '.join('%d:%d' % (v, s) for v, s in zip(valid, sizes))))
    return lines


def run_check(tier, seed):
    V = Verdict(PROP, tier, seed)
    rng = SplitMix64(seed * 15485863 + 5)
    V.assumptions = [
        'proved part: the flush-round logic (Model/BBLog.lean, literal transcription of the two passes of ncbbio_log_flush_core); the log encoding on disk (ncbbio_log*.c), putlist bookkeeping and the sharedfile layer are exercised through the API stream, not modelled',
        'equivalence with the default driver is decided against the driver-independent dataset specification (Spec/Dataset.lean): the same script must give the specified results with the burst buffer on; programs do not write an element twice between flushes (documented limitation)',
        'the library is reconfigured with --enable-burst-buffering for this check (the pinned build has the driver disabled)',
    ]
    V.cov['trusted_base'] = TRUSTED_BASE_COMMON + ['harness/c12_unit.c (stub lower driver), harness/apirun.c, checks/apigen.py', 'lean/Driver/Api.lean + Spec/Dataset.lean']
    try:
        tree = build_impl('bb')
    except BuildFailed as ex:
        V.broken_tie('burst-buffering build of the working tree failed', str(ex)[-1500:])
        return V.finish()
    wd = workdir('c12')
    try:
        ok, out = lake_build(['PnVerif.Props.C12', 'c12drv', 'apidrv'])
        obl = obligations_of('PnVerif/Props/C12.lean')
        discharged, bad, failed_thms = [], [], set()
        if ok:
            discharged, bad = axiom_audit('PnVerif.Props.C12', obl, 'PnVerif.Props.C12')
        else:
            for f, ln, msg in lake_errors(out):
                t = theorem_at(f, ln)
                if t:
                    failed_thms.add(t)
        forb = grep_forbidden([os.path.join(LEAN, p) for p in ('PnVerif/Model/BBLog.lean', 'PnVerif/Props/C12.lean', 'Driver/C12.lean')])
        V.cov['obligations'] = len(obl)
        V.cov['discharged'] = len(discharged)
        V.cov['checker_cmd'] = 'cd lean && lake build PnVerif.Props.C12 c12drv apidrv && lake env lean <#print axioms of every obligation>'
        if tier == 'thorough' and ok:
            lc = leanchecker(['PnVerif.Props.C12'])
            V.cov['leanchecker'] = 'ok' if not lc else str(lc)
            if lc:
                bad.append(('leanchecker', lc))
        proof_broken = (not ok) or bad or forb
        drv = os.path.join(LEAN, '.lake/build/bin/c12drv')
        if not os.path.exists(drv) or not os.path.exists(apicmp.APIDRV):
            V.broken_tie('Lean drivers do not build', out[-1500:])
            return V.finish()
        nfail, tie_diffs, distinct = 0, [], set()
        # ---- S4a: the real ncbbio_log_flush_core with a stub lower driver vs the model
        uexe = os.path.join(wd, 'c12u')
        cc(tree, [os.path.join(VERIF, 'harness/c12_unit.c')], uexe,
           extra=['-DHAVE_CONFIG_H', '-I' + os.path.join(tree, 'src/drivers/ncbbio'), '-I' + os.path.join(tree, 'src/drivers/include'), '-I' + os.path.join(tree, 'src/include')])
        lines = flush_lines(rng, tier)
        inp = '\n'.join(lines) + '\n'
        pc = subprocess.run([uexe], input=inp, stdout=subprocess.PIPE, stderr=subprocess.PIPE, text=True, timeout=600)
        pl = subprocess.run([drv], input=inp, stdout=subprocess.PIPE, stderr=subprocess.PIPE, text=True)
        co, lo = pc.stdout.split('\n'), pl.stdout.split('\n')
        if len(co) < len(lines) or len(lo) < len(lines):
            # a hang (alarm) or crash inside the real flush loop is itself a failing input: find the line
            k = len([x for x in co if x.strip()])
            if V.failing_input('C12:flush-hang-or-crash', 'ncbbio_log_flush_core did not return (rc=%s) on log %s' % (pc.returncode, lines[min(k, len(lines) - 1)]),
                               dict(line=lines[min(k, len(lines) - 1)], harness='harness/c12_unit.c'), tag='u0'):
                nfail += 1
        else:
            for i, line in enumerate(lines):
                impl, model = co[i].strip(), lo[i].strip()
                distinct.add(line)
                # property oracle on the implementation's own rounds: every valid entry exactly once, in order, data intact
                t = line.split()
                valid_idx = [str(j) for j, e in enumerate(t[3:3 + int(t[2])]) if e.startswith('1:')]
                rounds_txt = impl[:impl.index('extra=')].strip() if 'extra=' in impl else impl
                replayed = [x for r in rounds_txt.split('|') for x in r.split(',') if x != '']
                if replayed != valid_idx or 'data=ok' not in impl or 'status=0' not in impl or '!num' in impl:
                    if V.failing_input('C12:flush-replay', 'flush replays entries %s, log has valid entries %s (%s)' % (replayed, valid_idx, impl[-40:]),
                                       dict(line=line, impl=impl, model=model, harness='harness/c12_unit.c'), tag='u%d' % nfail):
                        nfail += 1
                elif impl != model:
                    tie_diffs.append((line, impl, model))
                if nfail >= 5:
                    break
        n_unit = len(lines)
        # ---- S4b: API scripts with the burst buffer enabled against the driver-independent specification
        exe = apicmp.build_apirun(tree, wd)
        bbdir = os.path.join(wd, 'bblogs')
        nprog = 90 if tier == 'thorough' else 25
        api_lines, tags = 0, {}
        samples = []
        leftovers = 0
        for k in range(nprog):
            shutil.rmtree(bbdir, ignore_errors=True)
            os.makedirs(bbdir)
            nprocs = rng.choice([1, 2, 3, 4] if tier == 'thorough' else [1, 2, 2, 3])
            fb = rng.choice([None, 1, 8, 16, 64, 4096])
            shared = rng.chance(1, 3)
            retain = rng.chance(1, 5)
            hints = 'nc_burst_buf=enable;nc_burst_buf_dirname=%s;nc_burst_buf_overwrite=enable' % bbdir
            if fb:
                hints += ';nc_burst_buf_flush_buffer_size=%d' % fb
            if shared:
                hints += ';nc_burst_buf_shared_logs=enable'
            if retain:
                hints += ';nc_burst_buf_del_on_close=disable'
            if k % 5 in (1, 3):
                # metadata in define and data mode, redefinition, cancel, flush, second session (ncbbio_open) ending in close or abort.
                # The reopening session sometimes runs WITHOUT the burst buffer: a file written through it is an ordinary file
                p = apigen.gen_meta_program(rng, 'c12_%d.nc' % k, nprocs, hints=hints, ohints=(hints if rng.chance(2, 3) else '-'), flush_each=True, cancel_rec=False)
            elif k % 5 == 4:
                p = apigen.gen_mix_program(rng, 'c12_%d.nc' % k, nprocs, hints=hints, focus=[None, 'burst', 'recvarn'][(k // 5) % 3], cancel_rec=False)    # many varn segments / several nonblocking requests per wait
            elif k % 5 == 2:
                p = apigen.gen_nb_program(rng, 'c12_%d.nc' % k, nprocs, hints=hints)     # nonblocking requests through the log
            else:
                p = apigen.gen_rw_program(rng, 'c12_%d.nc' % k, nprocs, hints=hints, norewrite=True, fill='none')
            text = p.text()
            rc, impl, spec, err = apicmp.run_both(exe, text, nprocs, wd, tag='b%d' % k)
            api_lines += len(impl)
            # attached-buffer inquiries are outside the transparency property (the burst-buffer driver does not use the
            # attached buffer: ncmpi_inq_buffer_usage/size answer NC_ENULLABUF there) - observation recorded in DESIGN.md
            keep = lambda ls: [l for l in ls if ' inq_buf ' not in l]
            impl, spec = keep(impl), keep(spec)
            mism = apicmp.compare(spec, impl)
            bv = apicmp.buffer_violations(impl)
            for t in list(p.tags) + ['flushbuf=%s' % fb, 'shared' if shared else 'per-process', 'retain' if retain else 'delete']:
                tags[t] = tags.get(t, 0) + 1
            distinct.add('%s|%s|%s|%s' % (k, fb, shared, nprocs))
            if k < 1:
                samples.append(dict(hints=hints.replace(bbdir, '<dir>'), script_head=text.split('\n')[:12]))
            left = [f for f in os.listdir(bbdir)]
            if rc != 0 or mism or bv:
                rc2, impl2, spec2, err2 = apicmp.run_both(exe, text, nprocs, wd, tag='b%d' % k)
                if rc2 == 0 and not apicmp.compare(keep(spec2), keep(impl2)) and not apicmp.buffer_violations(impl2):
                    V.cov['flaky_runs_ignored'] = V.cov.get('flaky_runs_ignored', 0) + 1
                    continue
                what = 'with the burst buffer enabled the program no longer behaves as specified: rc=%s %s %s' % (rc, [(a[1], a[2]) for a in mism[:3]], bv[:2])
                if V.failing_input('C12:bb-differs', what[:700], dict(script=text, nprocs=nprocs, hints=hints, stderr=err[-400:]), tag='b%d' % nfail):
                    nfail += 1
            elif (left and not retain):
                if V.failing_input('C12:logs-left', 'log files %s remain after close although retention was not requested' % left[:4],
                                   dict(script=text, nprocs=nprocs, hints=hints), tag='b%d' % nfail):
                    nfail += 1
            elif retain and not left:
                tie_diffs.append(('retention requested but no log file left', hints))
            if nfail >= 3:
                break
        # ---- S4c: log-size boundaries.  The shared-log layer works in 8 MiB blocks; a log append / flush read whose end offset falls
        #      exactly on (or one element before / after) a multiple of the block size must not be lost.  Per rank: one large
        #      put that fills the log (8-byte log header + data) up to `target - k*esz`, then small puts across the boundary;
        #      close; reopen WITHOUT the burst buffer; every boundary element read back (values known: index + 0.5-free ints).
        BLK = 8388608
        nbound = 0
        for (xt, mt, esz) in (('double', 'double', 8), ('int', 'int', 4)) if nfail < 3 else ():
            for shared in (True, False):
                shutil.rmtree(bbdir, ignore_errors=True); os.makedirs(bbdir)
                nprocs = 2
                ncol = BLK // esz + 64
                hints = 'nc_burst_buf=enable;nc_burst_buf_dirname=%s;nc_burst_buf_overwrite=enable' % bbdir + (';nc_burst_buf_shared_logs=enable' if shared else '')
                name = 'c12bd_%d.nc' % nbound
                big = (BLK - 8) // esz - 6            # elements of the first put: the log then ends 6 elements before the block boundary
                L = ['1 * create %s 5 clobber %s' % (name, hints), '2 * def_dim r %d' % nprocs, '3 * def_dim c %d' % ncol, '4 * def_var v %s 2 r c' % xt, '5 * enddef']
                # the large put: values 1..; to keep the script short the harness fills values cyclically when fewer are given
                L.append('6 * begin_indep')
                texts = {r: 'put vara i v %s c %d,0 1,%d - - : %s' % (mt, r, big, ' '.join(str((i % 97) + 1) for i in range(8))) for r in range(nprocs)}   # only the first values are given: the rest of the buffer keeps the harness' fill pattern, it is there for its size
                st = 7
                for r in range(nprocs):
                    L.append('%d %d %s' % (st, r, texts[r]))
                st += 1
                small = list(range(big, big + 12))
                for c in small:
                    for r in range(nprocs):
                        L.append('%d %d put var1 i v %s c %d,%d - - - : %d' % (st, r, mt, r, c, (c % 89) + 3))
                    st += 1
                L.append('%d * end_indep' % st); st += 1
                L.append('%d * close' % st); st += 1
                L.append('%d * open %s r -' % (st, name)); st += 1
                probes = [0, 1, 7] + small
                g0 = st
                for c in probes:
                    for r in range(nprocs):
                        L.append('%d %d get var1 i v %s c %d,%d - - -' % (st, r, mt, r, c))
                    st += 1
                L.append('%d * close' % st)
                # the probes are read with collective var1 gets (one line per rank per step)
                text = '\n'.join(l.replace(' get var1 i ', ' get var1 c ') if ' get var1 i ' in l else l for l in L) + '\n'
                # collective var1 gets need every rank in every step: already the case (one line per rank per step)
                sp = os.path.join(wd, 'bound_%d.txt' % os.getpid())
                open(sp, 'w').write(text)
                rc, impl, err = apicmp.run_impl(exe, sp, nprocs, wd, timeout=300, alarm=120)
                nbound += 1
                api_lines += len(impl)
                got = {}
                for l in impl:
                    t = l.split()
                    if len(t) > 4 and t[2] == 'get' and int(t[0]) >= g0:
                        got[(int(t[0]) - g0, int(t[1]))] = (t[3], t[-1])
                bad = []
                for i, c in enumerate(probes):
                    exp = (c % 97) + 1 if c < big else (c % 89) + 3
                    for r in range(nprocs):
                        if got.get((i, r)) != ('0', str(exp)):
                            bad.append((r, c, got.get((i, r)), exp))
                left = os.listdir(bbdir)
                tags['boundary-%s-%s' % (xt, 'shared' if shared else 'per-process')] = 1
                distinct.add('boundary %s %s' % (xt, shared))
                if rc != 0 or bad or left:
                    if V.failing_input('C12:log-boundary', 'puts whose log entries end at / next to the 8 MiB block boundary of the log are not all in the file after close: rc=%s wrong (rank, column, got, expected) %s, log files left %s' % (rc, bad[:4], left[:3]),
                                       dict(script_head=text[:600] + ' ... ' + text[-1500:], nprocs=nprocs, hints=hints, first_put_elements=big), tag='bd%d' % nfail):
                        nfail += 1
                try:
                    os.unlink(os.path.join(wd, name))
                except OSError:
                    pass
        V.cov['evaluations'] = n_unit + api_lines
        V.cov['distinct_nontrivial'] = len(distinct)
        V.cov['traces_validated_against_impl'] = n_unit + nprog
        V.cov['rule'] = ('unit: the real ncbbio_log_flush_core on hand-built logs (all logs of up to 3-4 entries with sizes 1..3, every valid/cancelled pattern, buffer sizes 1..5, plus seeded random logs of up to 12 entries, '
                         'flush buffer from 1 byte to unlimited) with a stub lower driver recording rounds; oracle = every valid entry replayed exactly once in order with its own data; model = execRounds/nrounds. '
                         'API: seeded programs (all blocking write forms, collective/independent, 1-4 ranks, reads in between, reopen) with nc_burst_buf=enable, flush buffer sizes 1..4096/unlimited, shared or per-process logs, '
                         'retention on/off, compared with the driver-independent specification; log directory listed after close. distinct = distinct unit lines + (program, configuration) pairs')
        V.cov['distribution'] = dict(unit_lines=n_unit, api_programs=nprog, api_result_lines=api_lines, tags=tags)
        V.cov['samples'] = [lines[0], lines[len(lines) // 3]] + samples + ['theorem rounds_eq_count (buf fuel es) (hne : es ≠ []) (hf : es.length ≤ fuel) (hfit : ∀ e ∈ es, e.1 = true → e.2 ≤ buf) : (execRounds buf fuel es).length = nrounds buf es']
        if nfail == 0:
            if tie_diffs:
                V.broken_tie('correspondence stream flush: model and implementation differ', tie_diffs[:10])
            if proof_broken:
                V.broken_tie('proof obligations no longer check', dict(failed_theorems=sorted(failed_thms), axiom_audit=bad[:10], forbidden=forb[:10], lake_tail=out[-1500:] if not ok else ''))
        return V.finish()
    finally:
        cleanup(wd)


if __name__ == '__main__':
    tier, seed, replay = args(sys.argv[1:])
    sys.exit(run_check(tier, seed))
