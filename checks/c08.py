#!/usr/bin/env python3
"""C08 — collective calls match on all ranks: no deadlock, errors stay local (DESIGN.md §4 C08).

S3  lake build PnVerif.Props.C08 (theorems over Model/World.lean) + axiom audit
S4  harness/c08_coll.c (PMPI shim records every rank's sequence of collectives inside each collective API
    call of the real library) vs lean/Driver/C08.lean (localTrace / localRet / matcher of the model) on the
    same case lines; property oracle on the real library's outputs: same sequence on every rank, no hang,
    every rank gets its own code (safe mode: one code), valid ranks' data stored.
"""
import os, sys, re, json, subprocess, concurrent.futures
sys.path.insert(0, os.path.dirname(os.path.abspath(__file__)))
from common import *

PROP = 'C08'
LEANFILES = ['PnVerif/Model/World.lean', 'PnVerif/Lemmas/World.lean', 'PnVerif/Props/C08.lean']

# the code the documentation promises for each kind of bad argument (spec side of "gets its error code")
KIND_CODE = {'coords': -40, 'coordsrec': -40, 'edge': -57, 'stride': -58, 'negcnt': -210, 'notvar': -49, 'global': -50,
             'echar': -56, 'einval': -36, 'nullstart': -226, 'iomis': -209, 'etype': -230, 'notrec': -233,
             'notfill': -234, 'badname': -59}

PUT_CLASSES = {
    'vara': ['V', 'Z', 'E coords', 'E edge', 'E negcnt', 'E notvar', 'E global', 'E echar', 'E einval', 'D iomis'],
    'vars': ['V', 'Z', 'E coords', 'E edge', 'E negcnt', 'E stride', 'E notvar'],
    'var1': ['V', 'E coords', 'E notvar'],
    'varm': ['V', 'Z', 'E edge', 'E stride', 'E notvar'],
    'var': ['V', 'E notvar'],
    'varn': ['V', 'Z', 'E nullstart', 'E edge', 'E coords', 'E notvar'],
    'mvara': ['V', 'Z', 'E edge', 'E coords', 'E notvar'],
    'vard': ['V', 'Z', 'E einval', 'E notvar', 'D iomis', 'D etype'],
}


def classes_for(form, isget, isrec):
    c = list(PUT_CLASSES[form])
    if isget and isrec and form in ('vara', 'vars', 'var1'):
        c.append('E coordsrec')
    return c


class Gen:
    def __init__(self, rng):
        self.rng = rng
        self.k = 0
        self.cases = []

    def add(self, n, api, vk, ins, safe=0, hcoll=0, aggr=0, indep=0, nr=2, x=None, tmo=None, dm=None):
        self.k += 1
        cid = 'c%d' % self.k
        line = 'CASE %s %s %s safe=%d hcoll=%d aggr=%d indep=%d nr=%d' % (cid, api, vk, safe, hcoll, aggr, indep, nr)
        if dm is not None:
            line += ' dm=%d' % dm
        if x:
            line += ' x=%s' % x
        line += ''.join(' | ' + i for i in ins)
        self.cases.append(dict(id=cid, n=n, api=api, vk=vk, ins=list(ins), safe=safe, hcoll=hcoll, aggr=aggr, indep=indep,
                               nr=nr, x=x, line=line))

    def concretise(self, classes, isget, isrec, nr):
        """give distinct rows to the V ranks"""
        rows = self.rng.shuffle(list(range(0, nr)) if (isget and isrec) else (list(range(nr, nr + 6)) + [0] if isrec else list(range(8))))
        out, r = [], 0
        for c in classes:
            if c == 'V':
                out.append('V %d' % rows[r % len(rows)]); r += 1
            else:
                out.append(c)
        return out

    def flags(self):
        r = self.rng
        return dict(safe=1 if r.chance(1, 4) else 0, hcoll=1 if r.chance(1, 4) else 0, aggr=1 if r.chance(1, 5) else 0)

    def getput(self, n, api, vk, classes, **kw):
        isget = api.startswith('get_')
        isrec = vk == 'rec'
        nr = kw.pop('nr', self.rng.range(2, 4))
        if api.endswith('_var'):
            nr = max(nr, 1)
        self.add(n, api, vk, self.concretise(classes, isget, isrec, nr), nr=nr, **kw)


def gen_cases(rng, tier, ns):
    g = Gen(rng)
    forms = ['vara', 'vars', 'var1', 'varm', 'var', 'varn', 'mvara', 'vard']
    # 1. every pair (valid | x), (x | valid) for every class x of every API form, fixed and record, put and get, safe off
    for form in forms:
        for d in ('put', 'get'):
            for vk in ('fix', 'rec'):
                cl = classes_for(form, d == 'get', vk == 'rec')
                for x in cl:
                    for pos in (0, 1):
                        n = ns[0]
                        classes = ['V'] * n
                        classes[pos if pos == 0 else n - 1] = x
                        g.getput(n, '%s_%s' % (d, form), vk, classes)
    # 2. random assignments on 2..k ranks, random flags
    nrand = 120 if tier == 'quick' else 1500
    for _ in range(nrand):
        form = rng.choice(forms); d = rng.choice(['put', 'put', 'get']); vk = rng.choice(['fix', 'rec', 'rec'])
        n = rng.choice(ns)
        cl = classes_for(form, d == 'get', vk == 'rec')
        classes = [rng.choice(cl) if rng.chance(1, 2) else rng.choice(['V', 'V', 'Z'] if 'Z' in cl else ['V']) for _ in range(n)]
        g.getput(n, '%s_%s' % (d, form), vk, classes, **g.flags())
    # 3. wait_all with different numbers of pending requests
    for _ in range(40 if tier == 'quick' else 400):
        n = rng.choice(ns); vk = rng.choice(['fix', 'rec', 'rec'])
        anybad = rng.chance(1, 6)
        ins = []
        for r in range(n):
            how = rng.choice(['all', 'list'])
            if anybad and rng.chance(1, 2):
                how = 'bad'
            ins.append('P %d %d %s' % (rng.choice([0, 0, 1, 2, 3]), rng.choice([0, 0, 1, 2]), how))
        g.add(n, 'wait_all', vk, ins, nr=rng.range(0, 3), **g.flags())
    # 4. fill_var_rec
    for _ in range(24 if tier == 'quick' else 200):
        n = rng.choice(ns); fl = g.flags(); nr = rng.range(0, 3)
        rec = rng.range(0, 6)
        ins = []
        for r in range(n):
            c = rng.choice(['V', 'V', 'V', 'E notrec', 'E notfill'])
            if c == 'V':
                # different record numbers only in safe mode (without it that is an inconsistent call, not an error)
                ins.append('V %d' % (rng.range(0, 6) if (fl['safe'] and rng.chance(1, 3)) else rec))
            else:
                ins.append(c)
        g.add(n, 'fill_var_rec', 'rec', ins, nr=nr, **fl)
    # 5. mode switches, syncs, enddef, close, create, open, rename
    for _ in range(10 if tier == 'quick' else 60):
        n = rng.choice(ns)
        for api in ('sync', 'sync_numrecs', 'end_indep', 'redef', 'close', 'begin_indep'):
            fl = g.flags(); indep = 1 if (api == 'end_indep' or rng.chance(1, 2)) else 0
            if api == 'begin_indep':
                indep = 0
            ins = ['I %d' % (rng.range(0, 7) if rng.chance(2, 3) else -1) if indep else '-' for _ in range(n)]
            if indep:      # independent writes to distinct records
                used = set()
                for i, s in enumerate(ins):
                    v = int(s.split()[1])
                    while v >= 0 and v in used:
                        v += 1
                    used.add(v); ins[i] = 'I %d' % v
            g.add(n, api, 'rec', ins, indep=indep, nr=rng.range(0, 3), **fl)
        for x in (None, 'bigatt', 'addfix', 'addfixfill', 'addrec'):
            g.add(n, 'enddef', 'rec', ['-'] * n, nr=rng.range(0, 3), x=x, **g.flags())
        # new variables in fill mode with fewer elements / existing records than ranks (ranks with an empty share of the fill)
        for x in ('addtinyfill', 'addrecfill'):
            g.add(n, 'enddef', 'rec', ['-'] * n, nr=rng.range(0, max(0, n - 1)), x=x, **g.flags())
        fl = g.flags()
        ins = ['-'] * n
        if rng.chance(1, 2):
            ins[rng.below(n)] = 'E einval'
        if fl['safe'] and rng.chance(1, 2):
            ins[rng.range(1, n - 1)] = 'E multi'
        g.add(n, 'enddef_', 'rec', ins, nr=rng.range(0, 3), **fl)
        g.add(n, 'close_def', 'rec', ['-'] * n, nr=rng.range(0, 3), **g.flags())
        for api in ('create', 'open'):
            ins = ['-'] + [('E' if rng.chance(1, 3) else '-') for _ in range(n - 1)]
            g.add(n, api, 'rec', ins, nr=0, **g.flags())
        fl = g.flags()
        ins = ['-'] * n
        if rng.chance(1, 2):
            ins[rng.below(n)] = 'E badname'
        if fl['safe'] and rng.chance(1, 2):
            ins[rng.range(1, n - 1)] = 'E multi'
        g.add(n, 'rename_var', 'rec', ins, nr=0, **fl)
    gen_meta_cases(g, rng, tier, ns)
    return g.cases


# safe-mode metadata calls: slots of `M name name2 ident xtype len vals` (meaning per kind: see harness/c08_coll.c)
META = {
    #  kind: (base arguments, [(slot, alternative value)], data mode allowed, alternative bases)
    'putatt': ([1, 0, 0, 0, 4, 7], [(0, 2), (2, 1), (3, 1), (4, 0), (4, 2), (5, 8)], True, [[1, 0, 0, 0, 0, 7]]),
    'defdim': ([1, 0, 0, 0, 4, 0], [(0, 2), (4, 5)], False, []),
    'defvar': ([1, 0, 0, 0, 2, 0], [(0, 2), (3, 1), (4, 0), (4, 1), (5, 1)], False, [[1, 0, 0, 0, 0, 0]]),
    'renamedim': ([0, 0, 0, 0, 0, 0], [(0, 1), (2, 1)], True, []),
    'renameatt': ([1, 0, 0, 0, 0, 0], [(0, 2), (1, 1), (2, 1)], True, []),
    'delatt': ([1, 0, 0, 0, 0, 0], [(0, 2), (2, 1)], False, []),
    'copyatt': ([2, 0, 0, 0, 0, 0], [(0, 1), (2, 1)], True, []),
    'setfill': ([0, 0, 0, 1, 0, 0], [(3, 0)], False, []),
    'defvarfill': ([0, 0, 1, 0, 1, 5], [(2, 0), (3, 1), (4, 0), (5, 6)], False, [[0, 0, 1, 0, 0, 5]]),
}
META_NAMED = ('putatt', 'defdim', 'defvar', 'renamedim', 'renameatt')      # a bad name gives NC_EBADNAME on that rank


def gen_meta_cases(g, rng, tier, ns):
    def m(a):
        return 'M ' + ' '.join(str(x) for x in a)
    kn = 0
    for kind, (base, alts, dmok, bases2) in META.items():
        api = 'meta_' + kind
        sizes = ['small', 'big'] if kind in ('putatt', 'copyatt') else ['small']
        # --- agreement, safe mode on and off, define and data mode
        for safe in (0, 1):
            for dm in ((0, 1) if dmok else (0,)):
                n = ns[kn % len(ns[:2])]; kn += 1
                g.add(n, api, 'rec', [m(base)] * n, safe=safe, hcoll=rng.below(2), nr=2, x=sizes[kn % len(sizes)], dm=dm)
        # --- one argument differs, on root or on the last rank; safe mode (without it this is not an error but an inconsistent call)
        allbases = [base] + bases2
        for b in allbases:
            for slot, v in alts:
                if b[slot] == v:
                    v = base[slot] if b is not base else v
                    if b[slot] == v:
                        continue
                odd = list(b); odd[slot] = v
                for pos in ('root', 'last'):
                    for sz in sizes:
                        if tier == 'quick' and sz == 'big' and not (kind == 'putatt' and slot in (4, 5)):
                            continue
                        n = ns[kn % len(ns[:2])]; kn += 1
                        ins = [m(b)] * n
                        ins[0 if pos == 'root' else n - 1] = m(odd)
                        dm = 1 if (dmok and rng.chance(1, 3)) else 0
                        g.add(n, api, 'rec', ins, safe=1, hcoll=rng.below(2), nr=2, x=sz, dm=dm)
        # --- two ranks disagree in different ways (3 ranks): the calls compared in the dispatcher hand the minimum to everybody
        if kind not in ('setfill', 'defvarfill') and len(alts) >= 2 and 3 in ns:
            for _ in range(2 if tier == 'quick' else 6):
                (s1, v1), (s2, v2) = rng.choice(alts), rng.choice(alts)
                o1 = list(base); o1[s1] = v1
                o2 = list(base); o2[s2] = v2
                g.add(3, api, 'rec', [m(base), m(o1), m(o2)], safe=1, hcoll=rng.below(2), nr=2, x='small', dm=0)
        # --- an argument that is in error on one rank only
        if kind in META_NAMED:
            for safe in (0, 1):
                for dm in ((0, 1) if dmok else (0,)):
                    n = ns[kn % len(ns[:2])]; kn += 1
                    ins = [m(base)] * n
                    ins[rng.below(n)] = 'E badname ' + ' '.join(str(x) for x in base)
                    g.add(n, api, 'rec', ins, safe=safe, hcoll=rng.below(2), nr=2, x='small', dm=dm)


WITNESSES = [
    # (name, repair index, n, line)       -- replayed on every run; decide which model variant the tree matches
    ('F2-var', 0, 2, 'CASE w1 put_vara rec safe=0 hcoll=0 aggr=0 indep=0 nr=2 tmo=12 | E edge | V 3'),
    ('F2-vard', 0, 2, 'CASE w2 put_vard rec safe=0 hcoll=0 aggr=0 indep=0 nr=2 tmo=12 | E einval | V 3'),
    ('fill', 1, 2, 'CASE w3 fill_var_rec rec safe=0 hcoll=0 aggr=0 indep=0 nr=2 tmo=12 | V 3 | E notrec'),
    ('meta-rename', 2, 2, 'CASE w4 rename_var rec safe=0 hcoll=1 aggr=0 indep=0 nr=0 tmo=12 | - | E badname'),
    ('meta-enddef', 2, 2, 'CASE w5 enddef_ rec safe=0 hcoll=1 aggr=0 indep=0 nr=2 tmo=12 | - | E einval'),
    ('safe-fill', 5, 3, 'CASE w6 fill_var_rec rec safe=1 hcoll=0 aggr=0 indep=0 nr=2 tmo=12 | V 3 | E notfill | V 5'),
    ('F2-aggr', 0, 3, 'CASE w7 put_vars rec safe=0 hcoll=0 aggr=1 indep=0 nr=2 tmo=12 | V 3 | E stride | V 4'),
    ('F2-badvarid', 3, 2, 'CASE w8 put_vara rec safe=0 hcoll=0 aggr=0 indep=0 nr=2 tmo=12 | E notvar | V 3'),
    # vardGuard (index 4) is not about matching: under NC_HCOLL a zero-length vard whose filetype reaches record 0 makes
    # root rewrite numrecs (one more collective write) iff getput_vard advances numrecs for requests that write nothing
    ('vard-guard', 4, 2, 'CASE w9 put_vard rec safe=0 hcoll=1 aggr=0 indep=0 nr=0 tmo=12 | Z | Z'),
]


# witnesses of defects that are replayed only once their finding line is in KNOWN_FINDINGS.txt (until then the generator
# stays away from them: a check must be silent on the unchanged tree).  (name, signature, ranks, case line)
COND_WITNESSES = [
    ('safe-defvarfill', 'def_var_fill-safe-mode-rank-keeps-own-code', 3,
     'CASE w10 meta_defvarfill rec safe=1 hcoll=0 aggr=0 indep=0 nr=2 dm=0 x=small tmo=12 | M 0 0 1 0 1 5 | M 0 0 1 1 1 5 | M 0 0 1 0 1 6'),
    ('safe-putatt-xtype', 'put_att-safe-mode-xtype-disagreement-mismatched-bcast', 2,
     'CASE w11 meta_putatt rec safe=1 hcoll=0 aggr=0 indep=0 nr=2 dm=0 x=big tmo=12 | M 1 0 0 4 4 7 | M 1 0 0 3 4 7'),
]


def run_harness(exe, wd, tag, n, lines, timeout):
    d = os.path.join(wd, tag)
    os.makedirs(d, exist_ok=True)
    sp = os.path.join(d, 'script.txt')
    with open(sp, 'w') as f:
        f.write('\n'.join(lines) + '\n')
    rc, so, se = mpirun(n, [exe, sp, d], timeout=timeout)
    res = {}       # id -> dict(R={rank:(ret,tr,nr)}, H={rank:(phase,tr)}, D={rank:msg}, L=str)
    ended = set()
    for r in range(n):
        try:
            txt = open(os.path.join(d, 'out.%d' % r)).read()
        except OSError:
            continue
        for ln in txt.split('\n'):
            t = ln.split()
            if not t:
                continue
            if t[0] == 'END':
                ended.add(r); continue
            if len(t) < 2:
                continue
            e = res.setdefault(t[1], dict(R={}, H={}, D={}, L=None))
            if t[0] == 'R' and len(t) >= 6:
                tr = t[4][3:]
                e['R'][int(t[2])] = (int(t[3][4:]), [] if tr == '-' else tr.split(','), int(t[5][3:]))
            elif t[0] in ('H', 'K') and len(t) >= 5:
                tr = t[4][3:]
                e['H'][int(t[2])] = (t[0] + ':' + t[3][6:], [] if tr == '-' else tr.split(','))
            elif t[0] == 'D' and len(t) >= 4:
                e['D'][int(t[2])] = t[3][5:]
            elif t[0] == 'L':
                e['L'] = t[2]
    return res, ended, rc


def lean_model(drv, lines, rp, lays):
    inp = []
    for ln in lines:
        cid = ln.split()[1]
        hdr, sep, rest = ln.partition(' |')
        hdr += ' rp=%s' % rp
        if lays.get(cid):
            hdr += ' ' + lays[cid]
        inp.append(hdr + sep + rest)
    p = subprocess.run([drv], input='\n'.join(inp) + '\n', stdout=subprocess.PIPE, stderr=subprocess.PIPE, text=True)
    out = {}
    for ln in p.stdout.split('\n'):
        if not ln.strip():
            continue
        cid, _, body = ln.partition(' ')
        if '||' not in body:
            out[cid] = None
            continue
        groups, _, m = body.partition(' || ')
        ranks = []
        for gtxt in groups.split(' | '):
            kv = dict(x.split('=', 1) for x in gtxt.split())
            ranks.append((int(kv['ret']), [] if kv['tr'] == '-' else kv['tr'].split(','), kv['trig'] == '1'))
        mt = m.split()
        out[cid] = dict(ranks=ranks, completed=(mt[1] == 'completed'), entered=[int(x) for x in mt[2:]])
    return out


def trigger_sig(case, model=None, rps='000000'):
    api = case['api']
    if api.startswith('put_') and model is not None and rps[0] == '1':
        # the proposed F2 repair is in the tree: what is left are the ranks whose variable ID is unusable
        trig = [case['ins'][r] for r, (_, _, t) in enumerate(model['ranks']) if t]
        if trig and all(i in ('E notvar', 'E global') for i in trig):
            return 'put_all-recvar-bad-varid-zero-path-skips-numrecs-allreduce'
    if api.startswith('put_vard'):
        return 'put_vard_all-recvar-argerr-zero-path-skips-numrecs-allreduce'
    if api.startswith('put_'):
        return 'put_var_all-recvar-argerr-zero-path-skips-numrecs-allreduce'
    if api == 'fill_var_rec':
        return 'fill_var_rec-argerr-returns-before-collective-fill'
    if api in ('rename_var', 'enddef_') or api.startswith('meta_'):
        return 'hcoll-metadata-call-argerr-returns-before-collective-header-write'
    return 'unmatched-collectives:%s' % api


def judge(case, model, obs, V, stats, rps='000000'):
    """compare one case; returns (tie_diff or None).  Property failures go to V.failing_input."""
    n = case['n']
    cid = case['id']
    desc = case['line']
    if model is None:
        return 'model could not interpret the case'
    if obs is None:
        return 'no output from the harness'
    R, H, D = obs['R'], obs['H'], obs['D']
    hang = bool(H) or len(R) < n
    traces = [tuple(R[r][1]) for r in sorted(R)]
    same_trace = len(set(traces)) <= 1 and not hang
    # ---- property oracle on the real library's behaviour (independent of the model's prediction)
    prop_fail = None
    if hang:
        prop_fail = 'deadlock: ' + ', '.join('rank %d %s after %s' % (r, H[r][0], ','.join(H[r][1]) or '-') for r in sorted(H))
    elif not same_trace:
        prop_fail = 'ranks executed different sequences of collectives: ' + ' / '.join(','.join(t) or '-' for t in traces)
    code_fail = None
    if not hang:
        if case['safe'] == 0:
            for r in range(n):
                t = case['ins'][r].split()
                want = None
                if t[0] in ('V', 'Z', '-', 'I', 'P', 'M') and (t[0] != 'P' or t[3] != 'bad'):
                    want = 0
                    if case['api'] in ('create', 'open'):
                        want = None
                elif t[0] in ('E', 'D') and len(t) > 1 and t[1] in KIND_CODE:
                    want = KIND_CODE[t[1]]
                if want is not None and R[r][0] != want:
                    code_fail = 'rank %d passed %s and got code %d instead of %d' % (r, case['ins'][r], R[r][0], want)
        elif case['api'] in ('create', 'open', 'enddef', 'enddef_', 'rename_var', 'fill_var_rec') or case['api'].startswith('meta_'):
            if len(set(R[r][0] for r in R)) > 1:
                code_fail = 'safe mode: ranks got different codes ' + str([R[r][0] for r in sorted(R)])
        bad = [(r, D[r]) for r in sorted(D) if D[r] != 'ok']
        if bad and not code_fail:
            code_fail = 'data of ranks with valid requests not stored: %s' % (bad[:2],)
    # ---- correspondence with the model
    tie = None
    for r in range(n):
        mret, mtr, _ = model['ranks'][r]
        if r in R:
            if list(R[r][1]) != mtr or R[r][0] != mret:
                tie = 'rank %d: implementation ret=%d tr=%s, model ret=%d tr=%s' % (r, R[r][0], ','.join(R[r][1]) or '-', mret, ','.join(mtr) or '-')
                break
        elif r in H:
            ht = H[r][1]
            ent = model['entered'][r] if not model['completed'] else len(mtr) + 1
            if H[r][0].endswith('call'):
                if mtr[:len(ht)] != ht or (not model['completed'] and len(ht) < ent) or model['completed']:
                    tie = 'rank %d hangs inside the call after %s, model: %s (%s)' % (r, ','.join(ht) or '-', ','.join(mtr) or '-', 'completes' if model['completed'] else 'blocks after %d' % ent)
                    break
            elif ht != mtr:
                tie = 'rank %d returned with tr=%s, model %s' % (r, ','.join(ht) or '-', ','.join(mtr) or '-')
                break
        elif not H:
            tie = 'rank %d produced no output' % r
            break
    if tie is None and model['completed'] and hang:
        tie = 'implementation deadlocks, model completes'
    stats['prop_fail' if prop_fail else 'ok'] = stats.get('prop_fail' if prop_fail else 'ok', 0) + 1
    exp = case.get('expect_sig')
    if exp and (prop_fail or code_fail):
        V.failing_input(exp, prop_fail or code_fail, dict(case=desc, ranks=n, observed={str(k): v for k, v in R.items()},
                                                          hung={str(k): v for k, v in H.items()}, harness='harness/c08_coll.c'))
        return None
    if prop_fail:
        sig = trigger_sig(case, model, rps) if (not model['completed'] and tie is None and any(t for _, _, t in model['ranks'])) else \
            'unmatched-collectives:%s:%s' % (case['api'], '+'.join(sorted(set(i.split()[0] + (i.split()[1] if i[0] in 'ED' and len(i.split()) > 1 else '') for i in case['ins']))))
        V.failing_input(sig, prop_fail, dict(case=desc, ranks=n, observed={str(k): v for k, v in R.items()}, hung={str(k): v for k, v in H.items()},
                                            harness='harness/c08_coll.c', how='mpiexec -n %d c08_coll <script with this line> <dir>' % n))
        if tie is None:
            return None
    if code_fail:
        sig = 'fill_var_rec-safe-mode-rank-keeps-own-code' if (case['api'] == 'fill_var_rec' and case['safe'] == 1 and 'different codes' in code_fail and tie is None) \
            else 'wrong-code-or-data:%s' % case['api']
        V.failing_input(sig, code_fail, dict(case=desc, ranks=n, observed={str(k): v for k, v in R.items()}, data={str(k): v for k, v in D.items()},
                                            harness='harness/c08_coll.c'))
    return tie


def run_check(tier, seed):
    V = Verdict(PROP, tier, seed)
    rng = SplitMix64(seed * 104729 + 8)
    V.assumptions = [
        'Model/World.lean is a hand transcription of the nprocs>1 paths of the dispatchers and the ncmpio driver; tied to the source by the differential run below (PMPI-recorded sequences of the real library vs localTrace on the same cases)',
        'a token = one blocking MPI collective over the file communicator or the collective file handle; MPI_File_{read,write}_all and _at_all are one token (the library mixes them); operations on MPI_COMM_SELF handles are not tokens',
        'MPI calls are assumed to succeed (failing I/O is C11); progress inside OpenMPI once sequences match is not modelled',
        'without safe mode, passing different (but individually legal) arguments to a collective metadata call is outside the property; the generator produces such disagreement only with safe mode on',
        'the mapping of concrete arguments to the input classes {valid, zero-length, error kind} is done by the harness (the checks that compute the class are property C15)',
    ]
    V.cov['trusted_base'] = TRUSTED_BASE_COMMON + ['harness/c08_coll.c (PMPI shim, class->argument mapping)', 'lean/Driver/C08.lean (case parsing)']
    tree = build_impl('plain')
    wd = workdir('c08')
    try:
        # ---- S3
        ok, out = lake_build(['PnVerif.Props.C08', 'c08drv'])
        obl = obligations_of('PnVerif/Props/C08.lean')
        failed_thms = set()
        if not ok:
            for f, ln, msg in lake_errors(out):
                t = theorem_at(f, ln)
                if t:
                    failed_thms.add(t)
            log('[S3] lake build FAILED:', sorted(failed_thms)[:10])
        discharged, bad = axiom_audit('PnVerif.Props.C08', obl, 'PnVerif.Props.C08') if ok else ([], [])
        forb = grep_forbidden([os.path.join(LEAN, f) for f in LEANFILES])
        V.cov['obligations'] = len(obl)
        V.cov['discharged'] = len(discharged)
        V.cov['checker_cmd'] = 'cd lean && lake build PnVerif.Props.C08 c08drv && lake env lean <#print axioms of every name in Props.C08.obligations>'
        if tier == 'thorough' and ok:
            lc = leanchecker(['PnVerif.Props.C08'])
            V.cov['leanchecker'] = 'ok' if not lc else str(lc)
            if lc:
                bad.append(('leanchecker', lc))
        proof_broken = (not ok) or bad or forb or len(discharged) != len(obl)
        drv = os.path.join(LEAN, '.lake/build/bin/c08drv')
        if not os.path.exists(drv):
            V.broken_tie('Lean driver c08drv does not build', out[-1500:])
            return V.finish()
        # ---- S4
        exe = cc(tree, [os.path.join(VERIF, 'harness/c08_coll.c')], os.path.join(wd, 'c08_coll'))
        ns = [2, 3] if tier == 'quick' else [2, 3, 4, 6, 8]
        t1 = Timer()
        pool = concurrent.futures.ThreadPoolExecutor(max_workers=8)
        # witnesses (launched now, evaluated below): which repairs does this tree contain?
        known_sigs = set(k['sig'] for k in V.known)
        cond = [(nm, -1, n, line, sig) for nm, sig, n, line in COND_WITNESSES if sig in known_sigs]
        allw = [w + (None,) for w in WITNESSES] + cond
        wf = {w[0]: pool.submit(run_harness, exe, wd, 'w_' + w[0], w[2], [w[3]], 90) for w in allw}
        cases = gen_cases(rng, tier, ns)
        lays = {}
        # which cases may leave the common sequence (judged with the unrepaired model: a superset for any tree)
        model1 = lean_model(drv, [c['line'] for c in cases], '000000', lays)
        risky, calm = [], []
        for c in cases:
            m = model1.get(c['id'])
            if m is None or not m['completed'] or any(t for _, _, t in m['ranks']):
                risky.append(c)
            else:
                calm.append(c)
        # predicted-to-hang cases cost a watchdog timeout each: run a sample, one mpiexec per case, in parallel
        maxrisky = 10 if tier == 'quick' else 60
        risky_run = rng.shuffle(risky)[:maxrisky]
        futs = {}
        for c in risky_run:
            futs[c['id']] = pool.submit(run_harness, exe, wd, 'r_' + c['id'], c['n'], [c['line'].replace(' |', ' tmo=8 |', 1)], 60)
        obs = {}
        batches = []
        for n in ns:
            cs = [c for c in calm if c['n'] == n]
            chunk = 150
            for i in range(0, len(cs), chunk):
                batches.append((n, cs[i:i + chunk]))
        bf = [(n, cs, pool.submit(run_harness, exe, wd, 'b%d_%d' % (n, i), n, [c['line'] for c in cs], 900)) for i, (n, cs) in enumerate(batches)]
        rerun = []
        for n, cs, f in bf:
            res, ended, rc = f.result()
            obs.update(res)
            if len(ended) < n:
                # a batch died (unexpected hang/crash): the cases after the last reported one were not run
                done = set(res.keys())
                rest = [c for c in cs if c['id'] not in done]
                rerun.append((n, rest))
        # a batch that died hides the cases after the one that hung: run a bounded sample of them one by one
        refs = []
        for n, rest in rerun:
            for c in rest[:12]:
                refs.append(pool.submit(run_harness, exe, wd, 'x_' + c['id'], n, [c['line'].replace(' |', ' tmo=8 |', 1)], 60))
        for f in refs:
            res, ended, rc = f.result()
            obs.update(res)
        for cid, f in futs.items():
            res, ended, rc = f.result()
            obs.update(res)
        wres = {k: f.result() for k, f in wf.items()}
        pool.shutdown()
        rp = [None, None, None, None, None, None]
        for name, idx, n, line in WITNESSES:
            if idx < 0:
                continue
            cid = line.split()[1]
            o = wres[name][0].get(cid)
            clean = bool(o) and len(o['R']) == n and not o['H'] and len(set(tuple(o['R'][r][1]) for r in o['R'])) == 1
            if idx == 4:
                clean = clean and o['R'][0][1] == ['setView', 'writeAll', 'allreduce']
            if idx == 5:      # safeMinCode: the three ranks of the safe-mode fill_var_rec witness return one code
                clean = clean and len(set(o['R'][r][0] for r in o['R'])) == 1
            if rp[idx] is None:
                rp[idx] = clean
            elif rp[idx] != clean:
                rp[idx] = False     # repaired at one site only: treat as unrepaired, the differing site shows up as a tie difference
        rps = ''.join('1' if x else '0' for x in rp)
        log('[S4] repairs present in this tree (zeroPathNumrecs, fillVarRecErr, metaErrJoins, zeroPathBadVarid, vardGuard, safeMinCode) = %s' % rps)
        for cid, o in obs.items():
            if o.get('L'):
                lays[cid] = o['L']
        ran = [c for c in cases if c['id'] in obs]
        model = lean_model(drv, [c['line'] for c in ran], rps, lays)
        log('[S4] %d cases generated, %d run on the real library (%d predicted unmatched, run singly) in %.1fs' % (len(cases), len(ran), len(risky_run), t1.s()))
        stats, tie_diffs, distinct, dist = {}, [], set(), {}
        for c in ran:
            tie = judge(c, model.get(c['id']), obs.get(c['id']), V, stats, rps)
            if tie:
                tie_diffs.append((c['line'], tie))
            key = c['line'].split(' ', 2)[2]
            kinds = set(i.split()[0] + (':' + i.split()[1] if i[0] in 'ED' and len(i.split()) > 1 else '') for i in c['ins'])
            if len(kinds) > 1 or c['api'] == 'wait_all' or c['safe'] or kinds - {'V', '-'}:
                distinct.add(key)
            dist[c['api']] = dist.get(c['api'], 0) + 1
            for k in kinds:
                dist['in:' + k] = dist.get('in:' + k, 0) + 1
        # witnesses: judged like every other case (this is what prints the KNOWN-FINDING lines)
        wcases = []
        for name, idx, n, line, esig in allw:
            t = line.split(' | ')
            h = t[0].split()
            kv = dict(x.split('=') for x in h[4:] if '=' in x)
            wcases.append(dict(id=h[1], n=n, api=h[2], vk=h[3], ins=t[1:], safe=int(kv['safe']), hcoll=int(kv['hcoll']), aggr=int(kv['aggr']),
                               indep=0, nr=int(kv['nr']), x=None, line=line, name=name, expect_sig=esig))
        wl = {}
        for w in wcases:
            o = wres[w['name']][0].get(w['id'])
            if o and o.get('L'):
                wl[w['id']] = o['L']
        wmodel = lean_model(drv, [w['line'] for w in wcases], rps, wl)
        for w in wcases:
            tie = judge(w, wmodel.get(w['id']), wres[w['name']][0].get(w['id']), V, stats, rps)
            if tie:
                tie_diffs.append((w['line'], tie))
        nev = len(ran) + len(wcases)
        V.cov['evaluations'] = nev
        V.cov['distinct_nontrivial'] = len(distinct)
        V.cov['traces_validated_against_impl'] = nev - len(tie_diffs)
        V.cov['rule'] = ('one case = one collective API call on a fresh file by 2-3 (thorough: up to 8) ranks, each rank given an input class; every (valid|x) and '
                         '(x|valid) pair for every class x of every get/put form on fixed and record variables, then seeded random assignments with safe mode / '
                         'romio_no_indep_rw / intra-node aggregation on or off, wait_all with different pending sets, fill_var_rec, sync/sync_numrecs/end_indep/redef/'
                         'close from collective and independent mode, enddef after five kinds of redefinition, _enddef, create, open, rename_var in data mode. '
                         'non-trivial = ranks do not all pass the same plain valid input, or safe mode is on, or the call is wait_all; distinct = distinct case lines')
        V.cov['distribution'] = dist
        V.cov['outcomes'] = stats
        V.cov['repairs_detected'] = rps
        V.cov['ranks'] = ns
        V.cov['samples'] = [c['line'] for c in (ran[:2] + ran[len(ran) // 2:len(ran) // 2 + 2] + ran[-2:])] + \
            ['theorem trace_rank_independent_partial (rp api cfg world a b) (ha : a ∈ world) (hb : b ∈ world) (hta : ¬ Trigger rp api cfg a) (htb : ¬ Trigger rp api cfg b) : localTrace rp api cfg world a = localTrace rp api cfg world b']
        # ---- S5
        if not V.violations:
            if tie_diffs:
                V.broken_tie('correspondence stream coll: model and implementation differ', tie_diffs[:10])
            if proof_broken:
                V.broken_tie('proof obligations no longer check', dict(failed_theorems=sorted(failed_thms), axiom_audit=bad[:10], forbidden=forb[:10],
                                                                      lake_tail=out[-1500:] if not ok else ''))
        return V.finish()
    finally:
        cleanup(wd)


if __name__ == '__main__':
    tier, seed, replay = args(sys.argv[1:])
    sys.exit(run_check(tier, seed))
