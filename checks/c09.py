#!/usr/bin/env python3
"""C09 — numeric type conversion and range checking are exact (DESIGN.md §4 C09)."""
import os, sys, json, struct, subprocess, math
sys.path.insert(0, os.path.dirname(os.path.abspath(__file__)))
from common import *
import apigen, apicmp

PROP = 'C09'
INT_TYPES = {
    'schar': (-2**7, 2**7 - 1), 'uchar': (0, 2**8 - 1), 'short': (-2**15, 2**15 - 1), 'ushort': (0, 2**16 - 1),
    'int': (-2**31, 2**31 - 1), 'uint': (0, 2**32 - 1), 'long': (-2**63, 2**63 - 1),
    'longlong': (-2**63, 2**63 - 1), 'ulonglong': (0, 2**64 - 1)}


def f32bits(x):
    try:
        return struct.unpack('<I', struct.pack('<f', x))[0]
    except OverflowError:
        return 0x7f800000 if x > 0 else 0xff800000


def f64bits(x):
    return struct.unpack('<Q', struct.pack('<d', x))[0]


def bits_f32(b):
    return struct.unpack('<f', struct.pack('<I', b))[0]


def bits_f64(b):
    return struct.unpack('<d', struct.pack('<Q', b))[0]


def float_inputs(ct, reals, rng, nrand):
    """interesting bit patterns of C type ct around the given real numbers"""
    out = set()
    if ct == 'float':
        enc, dec, mx = f32bits, bits_f32, 0xffffffff
        spec = [0x7fc00000, 0x7f800000, 0xff800000, 0x0, 0x80000000, 0x1, 0x80000001, 0x7f7fffff, 0xff7fffff,
                0x00800000, 0x3f800000, 0xbf800000, 0x3f000000, 0xbf000000, 0x7fa00000, 0xffc00001]
    else:
        enc, dec, mx = f64bits, bits_f64, 0xffffffffffffffff
        spec = [0x7ff8000000000000, 0x7ff0000000000000, 0xfff0000000000000, 0x0, 0x8000000000000000, 0x1,
                0x7fefffffffffffff, 0xffefffffffffffff, 0x3ff0000000000000, 0xbff0000000000000,
                0x3fe0000000000000, 0xbfe0000000000000, 0x47efffffe0000000, 0xc7efffffe0000000,
                0x47efffffe0000001, 0x47effffff0000000, 0x47f0000000000000, 0x36a0000000000000, 0x7ff4000000000000]
    out.update(spec)
    for r in reals:
        for d in (0.0, 0.5, -0.5, 0.25, -0.25, 1.0, -1.0, 0.999, -0.999):
            try:
                b = enc(float(r) + d)
            except OverflowError:
                continue
            for k in (-2, -1, 0, 1, 2):
                bb = b + k
                if 0 <= bb <= mx:
                    out.add(bb)
    for _ in range(nrand):
        out.add(rng.next() & mx)
    return sorted(out)


def int_inputs(ct, others, rng, nrand, full16):
    lo, hi = INT_TYPES[ct]
    if hi - lo < 256 or (full16 and hi - lo < 65536):
        return list(range(lo, hi + 1))
    c = {lo, lo + 1, lo + 2, hi, hi - 1, hi - 2, 0, 1, -1, 2, -2}
    for o in others:
        for d in (-2, -1, 0, 1, 2):
            c.add(o + d)
    for k in range(0, 65):
        for s in (1, -1):
            for d in (-1, 0, 1):
                c.add(s * (1 << k) + d)
    for _ in range(nrand):
        c.add(lo + rng.below(hi - lo + 1))
        c.add(rng.range(-70000, 70000))
    return sorted(x for x in c if lo <= x <= hi)


BOUND_REALS = [0, 1, -1, 127, 128, -128, -129, 255, 256, 32767, 32768, -32768, -32769, 65535, 65536,
               2**31 - 1, 2**31, -2**31, -2**31 - 1, 2**32 - 1, 2**32, 2**53, 2**63 - 1, 2**63, -2**63, -2**63 - 1025,
               2**64 - 1, 2**64, 2**64 + 4096, 16777216, 16777217, 3.4028234663852886e+38, 3.4028235677973366e+38,
               -3.4028234663852886e+38, 1e39, -1e39, 9.969209968386869e+36, 1e-46, 1e300]
ALL_BOUNDS = sorted({b for lo, hi in INT_TYPES.values() for b in (lo, hi)} |
                    {-127, 255, -32767, 65535, -2147483647, 4294967295, -9223372036854775806, 18446744073709551614})


def canon_float(tok, ct):
    """canonicalise -0.0 -> +0.0 and every NaN to one pattern"""
    if not tok.startswith('0x'):
        return tok
    b = int(tok, 16)
    if ct == 'float':
        if b == 0x80000000:
            b = 0
        if (b & 0x7f800000) == 0x7f800000 and (b & 0x7fffff):
            b = 0x7fc00000
    else:
        if b == 0x8000000000000000:
            b = 0
        if (b & 0x7ff0000000000000) == 0x7ff0000000000000 and (b & 0xfffffffffffff):
            b = 0x7ff8000000000000
    return hex(b)


def classify_input(e, tok):
    """tags for the evidence distribution and for known-finding signatures"""
    tags = []
    if e['in_ct'] in ('float', 'double'):
        b = int(tok, 16)
        x = bits_f32(b) if e['in_ct'] == 'float' else bits_f64(b)
        if x != x:
            tags.append('nan')
        elif x in (float('inf'), float('-inf')):
            tags.append('inf')
        else:
            tags.append('finite')
            if x == 2.0**63:
                tags.append('2^63')
            if x == 2.0**64:
                tags.append('2^64')
    return tags


def signature(e, tags, impl, spec):
    """known-finding signature of a failing (impl != spec) case"""
    fi = e['in_ct'] in ('float', 'double') and e['out_ct'] in INT_TYPES
    if fi and 'nan' in tags and impl[1] == '0':
        return 'nan-to-integer-noerr'
    if fi and e['out_ct'] in ('long', 'longlong') and '2^63' in tags and impl[1] == '0':
        return 'float-2^63-to-int64-noerr'
    if fi and e['out_ct'] == 'ulonglong' and '2^64' in tags and impl[1] == '0':
        return 'float-2^64-to-uint64-noerr'
    if e['kind'] == 'put' and e['in_ct'] == 'float' and e['out_ct'] == 'double' and 'inf' in tags and impl[1] == '-60':
        return 'put-float-inf-to-double-erange'
    return 'C09:%s' % e['nm']


def run_check(tier, seed):
    V = Verdict(PROP, tier, seed)
    rng = SplitMix64(seed * 7919 + 9)
    V.assumptions = [
        'IEEE rounding of C casts (float)x/(double)x is a parameter of the model (Rounding); the driver instantiates it with a Lean implementation of round-to-nearest-even that the harness exercises against the compiled C',
        'FV.toInt of NaN/Inf/out-of-range is undefined behaviour in C; only the error code is compared on such inputs',
        'translator tools/gen_ncx.py (clang-14 typed AST -> Lean) is trusted to render the C subset faithfully; it fails closed and every generated definition is also executed against the compiled C',
        'spec choice: float->integer is in range iff lo <= v <= hi as real numbers (fractional values between MAX and MAX+1 are out of range, the netCDF convention)',
    ]
    V.cov['trusted_base'] = TRUSTED_BASE_COMMON + ['tools/gen_ncx.py + clang-14 AST', 'Driver/Round.lean (IEEE codecs for the driver only)']
    tree = build_impl('plain')
    wd = workdir('c09')
    try:
        # ---- S2 regenerate the model from the source
        gen_out = os.path.join(wd, 'gen')
        p = subprocess.run([sys.executable, os.path.join(VERIF, 'tools/gen_ncx.py'), tree, gen_out],
                           stdout=subprocess.PIPE, stderr=subprocess.PIPE, text=True)
        log('[S2]', p.stdout.strip().split('\n')[-1] if p.stdout.strip() else p.stderr[-300:])
        gen_fail = []
        if p.returncode not in (0, 2) or not os.path.exists(os.path.join(gen_out, 'Ncx.lean')):
            V.broken_tie('translator gen_ncx.py failed', p.stderr[-2000:])
            return V.finish()
        table = json.load(open(os.path.join(gen_out, 'ncx_table.json')))
        gen_fail = table['failures']
        changed = []
        for f in ('Ncx.lean', 'NcxProofs.lean', 'NcxTable.lean', 'ncx_table.json'):
            if write_if_changed(os.path.join(LEAN, 'PnVerif/Gen', f), open(os.path.join(gen_out, f)).read()):
                changed.append(f)
        if changed:
            log('[S2] generated model differs from the committed baseline:', changed)
        # ---- S3 prove
        obl_gen = obligations_of('PnVerif/Gen/NcxProofs.lean')
        ok_drv, out_drv = lake_build(['c09drv'])
        ok, out = lake_build(['PnVerif.Props.C09'])
        failed_thms = set()
        if not ok:
            for f, ln, msg in lake_errors(out):
                t = theorem_at(f, ln)
                if t:
                    failed_thms.add(t)
            log('[S3] lake build FAILED; theorems that no longer check:', sorted(failed_thms)[:20])
        forb = grep_forbidden([os.path.join(LEAN, 'PnVerif', d, f) for d in ('Base', 'Gen', 'Model', 'Spec', 'Props')
                               for f in (os.listdir(os.path.join(LEAN, 'PnVerif', d)) if os.path.isdir(os.path.join(LEAN, 'PnVerif', d)) else [])
                               if f.endswith('.lean')])
        obl_props = obligations_of('PnVerif/Props/C09.lean')
        discharged, bad = [], []
        if ok:
            d1, b1 = axiom_audit('PnVerif.Gen.NcxProofs', obl_gen, 'PnVerif.Gen.NcxProofs')
            d2, b2 = axiom_audit('PnVerif.Props.C09', obl_props, 'PnVerif.Props.C09')
            discharged, bad = d1 + d2, b1 + b2
        V.cov['obligations'] = len(obl_gen) + len(obl_props) + len(gen_fail)
        V.cov['discharged'] = len(discharged)
        V.cov['checker_cmd'] = 'python3 tools/gen_ncx.py <scratch tree> lean/PnVerif/Gen && cd lean && lake build PnVerif.Props.C09 c09drv && lake env lean <#print axioms of every obligation>'
        if tier == 'thorough' and ok:
            lc = leanchecker(['PnVerif.Gen.NcxProofs', 'PnVerif.Props.C09'])
            V.cov['leanchecker'] = 'ok' if not lc else str(lc)
            if lc:
                bad.append(('leanchecker', lc))
        proof_broken = (not ok) or bad or forb or gen_fail
        if forb:
            log('[S3] forbidden constructs:', forb[:5])
        # ---- S4 correspondence + property oracle on the compiled C
        elems = []
        for pz in table['prims']:
            elems.append(dict(nm=pz['name'].replace('ncmpix_', ''), kind=pz['kind'], in_ct=pz['in_ct'], out_ct=pz['out_ct'], X=pz['X'], T=pz['T']))
        for l in table['loops']:
            if l['shape'] == 'inline':
                elems.append(dict(nm=l['name'].replace('ncmpix_', '') + '_elem', kind=l['kind'], in_ct=l['in_ct'], out_ct=l['out_ct'], X=l['X'], T=l['T']))
        hsrc = os.path.join(wd, 'c09h.c')
        subprocess.check_call([sys.executable, os.path.join(VERIF, 'tools/gen_c09_harness.py'),
                               os.path.join(gen_out, 'ncx_table.json'), hsrc])
        hexe = os.path.join(wd, 'c09h')
        cc(tree, [hsrc], hexe, extra=['-DHAVE_CONFIG_H', '-I' + os.path.join(tree, 'src/drivers/common'),
                                      '-I' + os.path.join(tree, 'src/include'), '-I' + os.path.join(tree, 'src/drivers/include')])
        full16 = (tier == 'thorough')
        nrand = 2000 if tier == 'thorough' else 120
        lines, meta = [], []
        # corpus first
        corpus = os.path.join(VERIF, 'corpus', 'C09', 'lines.txt')
        if os.path.exists(corpus):
            byname = {e['nm']: e for e in elems}
            for l in open(corpus):
                t = l.split()
                if len(t) == 5 and t[0] == 'P' and t[1] in byname:
                    lines.append(l.strip()); meta.append((byname[t[1]], t[4]))
        for e in elems:
            if e['in_ct'] in INT_TYPES:
                dlo, dhi = INT_TYPES.get(e['out_ct'], (0, 0))
                ins = [str(x) for x in int_inputs(e['in_ct'], ALL_BOUNDS + [dlo, dhi], rng, nrand, full16)]
            else:
                ins = [hex(b) for b in float_inputs(e['in_ct'], BOUND_REALS, rng, nrand)]
            if e['kind'] == 'put':
                if e['out_ct'] in INT_TYPES:
                    lo, hi = INT_TYPES[e['out_ct']]
                    fill = str(rng.range(max(lo, -99), min(hi, 99)))
                    cur = str(rng.range(max(lo, -50), min(hi, 50)))
                else:
                    fill = hex(f32bits(1.5)) if e['out_ct'] == 'float' else hex(f64bits(2.5))
                    cur = hex(f32bits(-3.0)) if e['out_ct'] == 'float' else hex(f64bits(-3.0))
            else:
                fill, cur = '-', '-'
            for v in ins:
                lines.append('P %s %s %s %s' % (e['nm'], fill, cur, v))
                meta.append((e, v))
        # loops: offending elements at random positions
        nloops = 0
        byname = {e['nm']: e for e in elems}
        for l in table['loops']:
            ln = l['name'].replace('ncmpix_', '')
            if l['shape'] == 'memcpy':
                continue
            en = ln + '_elem' if l['shape'] == 'inline' else '%s_NC_%s_%s' % (l['kind'], l['X'], l['T'])
            e = byname.get(en)
            if e is None:
                continue
            for rep in range(3 if tier == 'thorough' else 1):
                n = rng.range(1, 17)
                if e['in_ct'] in INT_TYPES:
                    lo, hi = INT_TYPES[e['in_ct']]
                    dlo, dhi = INT_TYPES.get(e['out_ct'], (lo, hi))
                    vs = []
                    for _ in range(n):
                        if rng.chance(1, 3):
                            vs.append(rng.choice([x for x in (dlo - 1, dhi + 1, lo, hi, dlo, dhi) if lo <= x <= hi]))
                        else:
                            vs.append(rng.range(max(lo, dlo, -100), min(hi, dhi, 100)))
                    vs = [str(x) for x in vs]
                else:
                    # known-deviation inputs (NaN, ±Inf, 2^63, 2^64) are covered per primitive; loops use finite values
                    dec = bits_f32 if e['in_ct'] == 'float' else bits_f64
                    pool = [b for b in float_inputs(e['in_ct'], [0, 1, 100, 300, 70000, 2**31, 2**62], rng, 4)
                            if math.isfinite(dec(b)) and abs(dec(b)) not in (2.0**63, 2.0**64)]
                    vs = [hex(rng.choice(pool)) for _ in range(n)]
                if e['kind'] == 'put':
                    if e['out_ct'] in INT_TYPES:
                        fill, cur = '7', '3'
                    else:
                        fill = hex(f32bits(1.5)) if e['out_ct'] == 'float' else hex(f64bits(2.5))
                        cur = fill
                else:
                    fill, cur = '-', '-'
                lines.append('L %s %s %s %d %s' % (ln, fill, cur, n, ' '.join(vs)))
                meta.append((e, None))
                nloops += 1
        inp = '\n'.join(lines) + '\n'
        t1 = Timer()
        pc = subprocess.run([hexe], input=inp, stdout=subprocess.PIPE, stderr=subprocess.PIPE, text=True)
        drv = os.path.join(LEAN, '.lake/build/bin/c09drv')
        if not ok_drv or not os.path.exists(drv):
            V.broken_tie('Lean driver c09drv does not build against the regenerated model', out_drv[-1500:])
            return V.finish()
        pl = subprocess.run([drv], input=inp, stdout=subprocess.PIPE, stderr=subprocess.PIPE, text=True)
        co, lo_ = pc.stdout.split('\n'), pl.stdout.split('\n')
        log('[S4] %d lines (%d loop requests) through C harness and Lean driver in %.1fs' % (len(lines), nloops, t1.s()))
        if pc.returncode != 0 or len(co) < len(lines) or len(lo_) < len(lines):
            V.broken_tie('harness/driver crashed', 'C rc=%s (%d lines) Lean rc=%s (%d lines) stderr=%s' %
                         (pc.returncode, len(co), pl.returncode, len(lo_), (pc.stderr + pl.stderr)[-500:]))
            return V.finish()
        distinct, tie_diffs, prop_fail, dist = set(), [], [], {}
        for i, line in enumerate(lines):
            e, v = meta[i]
            ct = co[i].split()
            lt = lo_[i].split()
            if v is None:       # loop request:  outs.. status  vs  outs.. mstatus sstatus
                outs_c = [canon_float(x, e['out_ct']) for x in ct[:-1]]
                outs_m = [canon_float(x, e['out_ct']) for x in lt[:-2]]
                dist['loop'] = dist.get('loop', 0) + 1
                if ct[-1] != '0':
                    distinct.add(line)
                if len(lt) < 2 or ct[-1] != lt[-2] or (outs_c != outs_m and lt[-2] == lt[-1] and not _ub_loop(e, line)):
                    tie_diffs.append((line, co[i], lo_[i]))
                if len(lt) >= 2 and ct[-1] != lt[-1]:
                    prop_fail.append((e, ['loop'], line, (co[i], ct[-1]), (lo_[i], lt[-1])))
                continue
            if len(ct) != 2 or len(lt) != 4:
                tie_diffs.append((line, co[i], lo_[i]))
                continue
            tags = classify_input(e, v)
            impl = (canon_float(ct[0], e['out_ct']), ct[1])
            model = (canon_float(lt[0], e['out_ct']), lt[1])
            spec = (canon_float(lt[2], e['out_ct']), lt[3])
            ub = (model[1] == '0' and spec[1] != '0' and e['in_ct'] in ('float', 'double') and e['out_ct'] in INT_TYPES)
            key = 'erange' if impl[1] != '0' else ('ub' if ub else 'ok')
            dist[key] = dist.get(key, 0) + 1
            for tg in tags:
                if tg != 'finite':
                    dist[tg] = dist.get(tg, 0) + 1
            if impl[1] != '0' or ub or tags not in ([], ['finite']) or _near_bound(e, v):
                distinct.add(line)
            same_model = (impl[1] == model[1]) and (ub or impl[0] == model[0])
            if not same_model:
                tie_diffs.append((line, co[i], lo_[i]))
            same_spec = (impl == spec)
            if not same_spec:
                prop_fail.append((e, tags, line, impl, spec))
        # ---- API-level stream: the same rules through the public API (dispatch in convert_swap.m4, fill substitution in
        # put_varm, NC_ECHAR checks in dispatchers and drivers, CDF-1/2 byte/uchar exemption), compared with Spec/Dataset.lean
        api_fail, api_lines, api_progs = 0, 0, (40 if tier == 'thorough' else 10)
        okapi, outapi = lake_build(['apidrv'])
        if okapi and os.path.exists(apicmp.APIDRV):
            aexe = apicmp.build_apirun(tree, wd)
            for k in range(api_progs):
                pr = apigen.gen_conv_program(rng, 'c09_%d.nc' % k, 1, fmt=[1, 2, 5][k % 3])
                text = pr.text()
                rc, impl, spec, err = apicmp.run_both(aexe, text, 1, wd, tag='cv%d' % k)
                api_lines += len(impl)
                mism = apicmp.compare(spec, impl)
                if rc != 0 or mism:
                    def still(t):
                        rc2, i2, s2, _ = apicmp.run_both(aexe, t, 1, wd, tag='shr')
                        return rc2 != 0 or bool(apicmp.compare(s2, i2))
                    small = apicmp.shrink(aexe, text, 1, wd, still, budget=40)
                    rc3, i3, s3, e3 = apicmp.run_both(aexe, small, 1, wd, tag='shr')
                    m3 = apicmp.compare(s3, i3)
                    what = 'API-level conversion differs from the rules: rc=%s %s' % (rc3, '; '.join('spec[%s] impl[%s]' % (a[1], a[2]) for a in m3[:3]))
                    if V.failing_input('C09:api', what[:600], dict(script=small, mismatches=m3[:5], rc=rc3, stderr=e3[-300:]), tag='api%d' % api_fail):
                        api_fail += 1
                        new_fail_api = True
                    if api_fail >= 3:
                        break
        else:
            tie_diffs.append(('apidrv does not build', outapi[-500:]))
        V.cov['api_conversion_programs'] = api_progs
        V.cov['api_result_lines'] = api_lines
        V.cov['evaluations'] = len(lines) + api_lines
        V.cov['distinct_nontrivial'] = len(distinct)
        V.cov['traces_validated_against_impl'] = len(lines) - len(tie_diffs)
        V.cov['rule'] = ('every generated primitive / inlined loop element run on the compiled C and on the Lean model+spec: all values of 8-bit '
                         'inputs (thorough: 16-bit too), ±2 around every bound of every type, ±2^k±1, NaN/±Inf/±0/denormals/±FLT_MAX/±DBL_MAX and '
                         'neighbours (±2 ulp, ±0.5) of every integer bound for float inputs, seeded random values; loops with offending elements at '
                         'random positions. non-trivial = input within 2 of a bound, non-finite, UB-guarded, or producing NC_ERANGE; distinct = distinct request lines')
        V.cov['distribution'] = dist
        V.cov['samples'] = [lines[0], lines[len(lines) // 3], lines[len(lines) // 2], lines[-1],
                            'theorem put_NC_SHORT_int_ok (R) (fill : Option Int) (cur v : Int) (hlo : -2147483648 ≤ v) (hhi : v ≤ 2147483647) : put_NC_SHORT_int R fill cur v = ConvSpec.specII (-32768) 32767 (fill.getD (-32767)) v']
        V.cov['primitives'] = len(elems)
        # ---- S5 decide
        new_fail = 0
        for e, tags, line, impl, spec in prop_fail:
            sig = signature(e, tags, impl, spec)
            if V.failing_input(sig, 'conversion %s: implementation gives %s, specification %s' % (e['nm'], impl, spec),
                               dict(line=line, impl=impl, spec=spec, harness='tools/gen_c09_harness.py + lean/Driver/C09.lean'),
                               tag='in%d' % new_fail):
                new_fail += 1
                if new_fail >= 5:
                    break
        if new_fail == 0 and api_fail == 0:
            if tie_diffs:
                V.broken_tie('correspondence stream conv: model and implementation differ', tie_diffs[:10])
            if proof_broken:
                V.broken_tie('proof obligations no longer check',
                             dict(failed_theorems=sorted(failed_thms), axiom_audit=bad[:10], forbidden=forb[:10],
                                  untranslatable=gen_fail[:10], lake_tail=out[-1500:] if not ok else ''))
        return V.finish()
    finally:
        cleanup(wd)


def _near_bound(e, v):
    if e['in_ct'] in INT_TYPES:
        x = int(v)
        return any(abs(x - b) <= 2 for b in ALL_BOUNDS)
    b = int(v, 16)
    x = bits_f32(b) if e['in_ct'] == 'float' else bits_f64(b)
    if x != x or x in (float('inf'), float('-inf')):
        return True
    return any(abs(x - bb) <= 2 for bb in ALL_BOUNDS)


def _ub_loop(e, line):
    return e['in_ct'] in ('float', 'double') and e['out_ct'] in INT_TYPES


if __name__ == '__main__':
    tier, seed, replay = args(sys.argv[1:])
    sys.exit(run_check(tier, seed))
