#!/usr/bin/env python3
"""C16 — fill-value semantics (DESIGN.md §4 C16).

S3  lake build PnVerif.Props.C16 + c16drv, axiom audit of every obligation.
S4  (unit)  harness/c16_unit.c includes the tree's ncmpio_fill.c and calls the real static
            fillerup_aggregate / fill_var_rec for arbitrary (nprocs, rank); the hindexed file view, the
            write offset/count and the fill buffer are diffed against lean/Driver/C16.lean; the property
            oracle "the segments of all ranks partition exactly the slots of the new fill-mode variables"
            is evaluated on the implementation's own output;
    (api)   harness/c16_api.c: schemas with random fill settings (ncmpi_set_fill before/between/after
            definitions, ncmpi_def_var_fill with/without value, _FillValue attributes, all types), 1..4
            (thorough ..8) ranks, partial writes (also independent with different record counts per rank
            right before ncmpi_redef), ncmpi_fill_var_rec, redefinitions adding fixed and record
            variables, reopen.  Oracle: never-written elements of fill-mode fixed variables and of
            filled records read as the fill value, written elements are intact, the per-rank file
            view of every enddef equals the model's plan.
"""
import os, sys, json, re, struct, subprocess
sys.path.insert(0, os.path.dirname(os.path.abspath(__file__)))
from common import *
import c06 as H            # shared helpers of my C06 check: value_of, decode, XSZ, parse_out

PROP = 'C16'
XSZ = H.XSZ
FLOAT_FILL = float(15 * 2 ** 119)
DEFAULT_FILL = {1: -127, 2: 0, 3: -32767, 4: -2147483647, 5: FLOAT_FILL, 6: FLOAT_FILL, 7: 255, 8: 65535,
                9: 4294967295, 10: -9223372036854775806, 11: 18446744073709551614}
TYPE_OF_XSZ = {1: 1, 2: 3, 4: 4, 8: 6}


def run_driver(lines):
    drv = os.path.join(LEAN, '.lake/build/bin/c16drv')
    p = subprocess.run([drv], input='\n'.join(lines) + '\n', stdout=subprocess.PIPE, stderr=subprocess.PIPE, text=True)
    return p.stdout.split('\n')


# ---------------------------------------------------------------------------------------
# unit stream
# ---------------------------------------------------------------------------------------
def gen_layout(rng, nv):
    """new variables laid out the way NC_begins does: fixed first (4-byte aligned), then the record"""
    vs = []
    kinds = [(rng.choice([1, 2, 4, 8]), rng.choice([1, 1, 2, 3, 5, 7, rng.range(1, 40), rng.range(1, 300)]),
              1 if rng.chance(2, 5) else 0, 1 if rng.chance(1, 4) else 0) for _ in range(nv)]
    off = rng.range(0, 50) * 4
    for (xsz, vl, isrec, nofill) in kinds:
        if not isrec:
            vs.append([off, xsz, vl, 0, nofill]); off += H.rndup(xsz * vl, 4)
    off += rng.choice([0, 4, 64])
    recbase = off
    for (xsz, vl, isrec, nofill) in kinds:
        if isrec:
            vs.append([off, xsz, vl, 1, nofill]); off += H.rndup(xsz * vl, 4)
    recsize = off - recbase + rng.choice([0, 0, 8])
    # keep definition order random between the two classes (the C makes two passes over the same list)
    fixed = [v for v in vs if not v[3]]
    recs = [v for v in vs if v[3]]
    out = []
    for (xsz, vl, isrec, nofill) in kinds:
        out.append((recs if isrec else fixed).pop(0))
    return out, recbase, recsize


def gen_unit(rng, tier):
    """-> list of (line, tags, family id or None).  A family = the same configuration for every rank"""
    lines = []
    fam = 0
    # exhaustive small scope of the share arithmetic through the real fillerup_aggregate
    maxlen, maxp = (10, 6) if tier == 'quick' else (24, 12)
    for ln in range(1, maxlen + 1):      # a fixed dimension has length >= 1
        for p in range(1, maxp + 1):
            for r in range(p):
                lines.append(('FP %d %d 0 0 1 16 2 %d 0 0' % (p, r, ln), ['exhaustive-share'], None))
    nfam = 80 if tier == 'quick' else 1000
    for _ in range(nfam):
        p = rng.choice([1, 2, 3, 4, 5, 7, 8, 13, 64])
        nv = rng.range(1, 5)
        vs, recbase, recsize = gen_layout(rng, nv)
        nrecs = rng.choice([0, 0, 1, 2, 3, 5])
        tags = []
        if any(v[2] % p for v in vs):
            tags.append('nprocs-does-not-divide')
        if any(v[2] < p for v in vs):
            tags.append('nprocs>len')
        if nrecs and any(v[3] and not v[4] for v in vs):
            tags.append('existing-records-filled')
        if any(v[4] for v in vs) and any(not v[4] for v in vs):
            tags.append('mixed-fill-nofill')
        fam += 1
        ranks = range(p) if p <= 13 else [0, 1, rng.below(p), p - 1]
        for r in ranks:
            lines.append(('FP %d %d %d %d %d %s' % (p, r, recsize, nrecs, nv, ' '.join(' '.join(map(str, v)) for v in vs)),
                          tags, (fam, p, recsize, nrecs, vs) if p <= 13 else None))
    nfr = 60 if tier == 'quick' else 500
    for _ in range(nfr):
        p = rng.choice([1, 2, 3, 4, 7, 8, 100, 1000])
        r = rng.below(p)
        xsz = rng.choice([1, 2, 4, 8])
        vl = rng.choice([1, 2, 3, rng.range(1, 50), rng.range(1, 5000)])
        isrec = 1 if rng.chance(3, 4) else 0
        lines.append(('FR %d %d %d %d %d %d %d %d' % (p, r, rng.range(0, 500) * 4, rng.range(0, 9), rng.range(0, 400) * 4, xsz, vl, isrec),
                      ['fill_var_rec'] + (['nprocs>len'] if vl < p else []), None))
    return lines


def partition_oracle(p, recsize, nrecs, vs, plans):
    """union over ranks of the real segments == every byte of every slot of a fill-mode new variable, once"""
    cover = {}
    for segs in plans:
        for off, ln in segs:
            for b in range(off, off + ln):
                cover[b] = cover.get(b, 0) + 1
    want = set()
    for (begin, xsz, vl, isrec, nofill) in vs:
        if nofill:
            continue
        if isrec:
            for rec in range(nrecs):
                want.update(range(begin + recsize * rec, begin + recsize * rec + vl * xsz))
        else:
            want.update(range(begin, begin + vl * xsz))
    twice = [b for b, c in cover.items() if c > 1]
    extra = [b for b in cover if b not in want]
    missing = [b for b in want if b not in cover]
    if extra:
        return 'byte %d outside every new fill-mode variable is written' % min(extra)
    if missing:
        return 'byte %d of a fill-mode variable is not filled by any process' % min(missing)
    if twice:
        return 'byte %d is filled by more than one process' % min(twice)
    return None


# ---------------------------------------------------------------------------------------
# API stream
# ---------------------------------------------------------------------------------------
def pick_fillval(rng, t):
    if t == 2:
        return rng.range(33, 120)
    if t in (7, 8, 9, 11):
        return rng.range(1, 200)
    return rng.range(-100, 100)


class Scen:
    def __init__(self, nprocs):
        self.nprocs = nprocs
        self.ops, self.acts = [], []
        self.kinds = set()
        # generation-time view (only what the generator needs to produce valid calls)
        self.dims, self.vars = [], []      # vars: dict(t, d, nofill, hasatt, phase)
        self.dsfill = False

    def op(self, s, *act):
        self.ops.append(s)
        self.acts.append(act if act else ('none',))

    def has_unlim(self):
        return 0 in self.dims

    def is_rec(self, v):
        d = self.vars[v]['d']
        return len(d) > 0 and self.dims[d[0]] == 0

    def text(self):
        return '\n'.join(self.ops) + '\n'


def g_defs(rng, sc, phase, nd, nv, fmt):
    types = H.TYPES_CDF5 if fmt == 5 else H.TYPES_CLASSIC
    setfill_at = rng.choice(['before', 'middle', 'after', 'never', 'before', 'toggle'])
    sc.kinds.add('setfill-' + setfill_at)

    def setfill(m):
        sc.op('setfill %d' % m, 'setfill', m)
        sc.dsfill = bool(m)
        for v in sc.vars:
            v['nofill'] = not m
    if setfill_at in ('before', 'toggle'):
        setfill(1)
    for _ in range(nd):
        ln = 0 if (not sc.has_unlim() and rng.chance(1, 2)) else rng.range(1, 6)
        sc.dims.append(ln)
        sc.op('dim %d' % ln, 'ok')
    newv = []
    for k in range(nv):
        if setfill_at == 'middle' and k == nv // 2:
            setfill(1)
        if setfill_at == 'toggle' and k == nv // 2:
            setfill(0)
        t = rng.choice(types)
        fixed_dims = [i for i, l in enumerate(sc.dims) if l != 0]
        dids = []
        if sc.has_unlim() and rng.chance(2, 5):
            dids.append(sc.dims.index(0))
        for _ in range(rng.choice([0, 1, 1, 2])):
            if fixed_dims:
                dids.append(rng.choice(fixed_dims))
        sc.vars.append(dict(t=t, d=dids, nofill=not sc.dsfill, hasatt=False, phase=phase))
        v = len(sc.vars) - 1
        newv.append(v)
        sc.op('var %d %d %s' % (t, len(dids), ' '.join(map(str, dids))), 'defvar', t, dids)
    if setfill_at == 'after':
        setfill(1)
    # per-variable settings on the NEW variables only (a _FillValue on an old variable is NC_ELATEFILL)
    for v in newv:
        k = rng.below(6)
        t = sc.vars[v]['t']
        if k == 0:
            val = pick_fillval(rng, t)
            sc.op('varfill %d 0 1 %d' % (v, val), 'varfill', v, 0, 1, val)
            sc.vars[v]['nofill'] = False; sc.vars[v]['hasatt'] = True
            sc.kinds.add('def_var_fill-value')
        elif k == 1:
            sc.op('varfill %d 0 0 0' % v, 'varfill', v, 0, 0, 0)
            sc.vars[v]['nofill'] = False
            sc.kinds.add('def_var_fill-default')
        elif k == 2:
            sc.op('varfill %d 1 %d 5' % (v, rng.below(2)), 'varfill', v, 1, 0, 0)
            sc.vars[v]['nofill'] = True
            sc.kinds.add('def_var_fill-nofill')
        elif k == 3:
            val = pick_fillval(rng, t)
            sc.op('fvatt %d %d' % (v, val), 'fvatt', v, val)
            sc.vars[v]['hasatt'] = True
            sc.kinds.add('put_att-_FillValue')
    for v in newv:
        if rng.chance(1, 3):
            sc.op('inqfill %d' % v, 'inqfill', v)
    return newv


def g_enddef(rng, sc):
    sc.op('planreset')
    if rng.chance(2, 3):
        sc.op('enddef', 'enddef')
    else:
        sc.op('enddef4 %d %d %d %d' % (rng.choice([0, 0, 8, 200]), rng.choice([0, 4, 16, 512]), rng.choice([0, 0, 4, 40]),
                                       rng.choice([0, 4, 8, 64])), 'enddef')
    sc.op('plan', 'plan')
    sc.op('layout', 'layout', 'new')


def g_writes(rng, sc, allow_indep=True):
    np_ = sc.nprocs
    indep = False
    allv = list(range(len(sc.vars)))
    recvars = [v for v in allv if sc.is_rec(v)]
    # explicit record fills first (collective data mode only)
    for v in recvars:
        if (not sc.vars[v]['nofill'] or sc.vars[v]['hasatt']) and rng.chance(1, 2):
            for _ in range(rng.range(1, 2)):
                rec = rng.range(0, 4)
                sc.op('fillrec %d %d' % (v, rec), 'fillrec', v, rec)
                sc.kinds.add('fill_var_rec')
    for v in allv:
        if rng.chance(1, 3):
            continue
        d = sc.vars[v]['d']
        shape = [sc.dims[di] for di in d]
        start, count = [], []
        for i, l in enumerate(shape):
            if l == 0:
                s = rng.range(0, 3); c = rng.range(1, 3)
            elif rng.chance(1, 3):
                s, c = 0, l
            else:
                s = rng.range(0, l - 1); c = rng.range(1, l - s)
            start.append(s); count.append(c)
        seed = rng.below(1000000)
        sc.op('cput %d %d %s %s' % (v, seed, ' '.join(map(str, start)), ' '.join(map(str, count))), 'put', v, seed, start, count)
        sc.kinds.add('partial-write')
    if recvars and rng.chance(1, 3):
        v = rng.choice(recvars)
        if not sc.vars[v]['nofill'] or sc.vars[v]['hasatt']:
            rec = rng.range(0, 5)
            sc.op('fillrec %d %d' % (v, rec), 'fillrec', v, rec)
            sc.kinds.add('fill_var_rec-after-write')
    if allow_indep and recvars and rng.chance(1, 2):
        sc.op('indep', 'ok'); indep = True
        sc.kinds.add('indep-different-numrecs')
        base = rng.range(0, 3)
        for r in range(np_):
            if rng.chance(1, 4):
                continue
            v = rng.choice(recvars)
            d = sc.vars[v]['d']
            shape = [sc.dims[di] for di in d]
            # every rank writes its own record: concurrent independent writes to one element have no defined outcome
            rec = base + (r if rng.chance(2, 3) else np_ + r)
            start = [rec] + [0] * (len(d) - 1)
            count = [1] + shape[1:]
            seed = rng.below(1000000)
            sc.op('iput %d %d %d %s %s' % (r, v, seed, ' '.join(map(str, start)), ' '.join(map(str, count))), 'put', v, seed, start, count)
    return indep


def g_reads(sc, phase):
    for v in range(len(sc.vars)):
        sc.op('read %d' % v, 'read', v, phase)


def gen_scenario(rng, nprocs):
    sc = Scen(nprocs)
    fmt = rng.choice([1, 2, 5, 5])
    sc.fmt = fmt
    sc.op('moveunit %d' % rng.choice([1, 3, 8, 67108864]))
    sc.op('create %d' % fmt, 'ok')
    g_defs(rng, sc, 0, rng.range(1, 3), rng.range(1, 4), fmt)
    g_enddef(rng, sc)
    g_reads(sc, 'after-create-enddef')
    indep = g_writes(rng, sc)
    if not indep:
        g_reads(sc, 'after-writes')
    nredef = rng.choice([0, 1, 1, 2])
    for k in range(nredef):
        if indep and rng.chance(1, 3):
            sc.op('coll', 'ok'); indep = False
        if indep:
            sc.kinds.add('redef-from-indep')
        sc.op('redef', 'redef'); indep = False
        sc.op('layout', 'layout', 'old')
        if rng.chance(1, 3):
            sc.op('att -1 %d' % rng.choice([5, 700]), 'ok')
        newv = g_defs(rng, sc, k + 1, rng.range(0, 1), rng.range(1, 3), fmt)
        if any(sc.is_rec(v) for v in newv):
            sc.kinds.add('redef-new-record-var')
        if any(not sc.is_rec(v) for v in newv):
            sc.kinds.add('redef-new-fixed-var')
        g_enddef(rng, sc)
        g_reads(sc, 'after-redef-enddef')
        if rng.chance(1, 2):
            indep = g_writes(rng, sc)
            if not indep:
                g_reads(sc, 'after-writes')
    if indep:
        sc.op('coll', 'ok')
    sc.op('close', 'ok')
    sc.op('open 0', 'ok')
    g_reads(sc, 'after-reopen')
    sc.op('close', 'ok')
    return sc


def evaluate(sc, outs, np_):
    """replay the actions over the answers.  -> (failures, plan requests [(line, rank, real)], nontrivial?)"""
    res = outs[0]
    fails, plans = [], []
    rep = dict(nprocs=np_, script=sc.ops)
    dims = []
    vars_ = []          # dict(t, d, nofill, fillval, phase)
    known = {}          # v -> {idx: value}
    dsfill = False
    phase = 0
    nrecs_at_def = 0
    numrecs_min = 0
    lay_new = None
    pending_new = []
    nontrivial = False
    di = 0

    def inner(v):
        n = 1
        for i, d in enumerate(vars_[v]['d']):
            if i == 0 and dims[d] == 0:
                continue
            n *= dims[d]
        return n

    def isrec(v):
        d = vars_[v]['d']
        return len(d) > 0 and dims[d[0]] == 0

    def fillv(v):
        fv = vars_[v]['fillval']
        t = vars_[v]['t']
        if fv is None:
            return DEFAULT_FILL[t]
        return float(fv) if t in (5, 6) else fv

    for li, act in enumerate(sc.acts):
        ans = res.get(li + 1)
        opline = sc.ops[li]
        opname = opline.split()[0]
        if act[0] == 'none':
            continue
        if ans is None:
            fails.append(('api-no-answer', 'no answer for op %d (%s)' % (li + 1, opline), rep)); break
        t = ans.split()
        k = act[0]
        if k == 'ok':
            if opname == 'dim':
                dims.append(int(opline.split()[1]))
            if t[-1] != '0':
                fails.append(('api-error:%s' % opname, 'valid call `%s` returned %s' % (opline, t[-1]), rep)); break
        elif k == 'defvar':
            if t[-1] != '0':
                fails.append(('api-error:var', 'valid call `%s` returned %s' % (opline, t[-1]), rep)); break
            vars_.append(dict(t=act[1], d=list(act[2]), nofill=not dsfill, fillval=None, phase=phase))
            pending_new.append(len(vars_) - 1)
        elif k == 'setfill':
            if t[1] != '0':
                fails.append(('api-error:setfill', '`%s` returned %s' % (opline, t[1]), rep)); break
            if int(t[2]) != (1 if dsfill else 0):
                fails.append(('set_fill-old-mode', 'ncmpi_set_fill reported old mode %s, expected %d' % (t[2], dsfill), rep))
            dsfill = bool(act[1])
            for v in vars_:
                v['nofill'] = not dsfill
        elif k == 'varfill':
            if t[1] != '0':
                fails.append(('api-error:varfill', '`%s` returned %s' % (opline, t[1]), rep)); break
            _, v, nofill, hasval, val = act
            vars_[v]['nofill'] = bool(nofill)
            if hasval and not nofill:
                vars_[v]['fillval'] = val
        elif k == 'fvatt':
            if t[1] != '0':
                fails.append(('api-error:fvatt', '`%s` returned %s' % (opline, t[1]), rep)); break
            vars_[act[1]]['fillval'] = act[2]
        elif k == 'inqfill':
            v = act[1]
            if t[1] != '0':
                fails.append(('api-error:inqfill', '`%s` returned %s' % (opline, t[1]), rep)); continue
            if int(t[2]) != (1 if vars_[v]['nofill'] else 0):
                fails.append(('inq_var_fill-mode', 'variable %d: no_fill reported %s, expected %d' % (v, t[2], vars_[v]['nofill']), rep))
            got = H.decode(vars_[v]['t'], t[3])
            if got != fillv(v):
                fails.append(('inq_var_fill-value', 'variable %d (type %d): fill value reported %r, expected %r' % (v, vars_[v]['t'], got, fillv(v)), rep))
        elif k == 'redef':
            if t[1] != '0':
                fails.append(('api-error:redef', '`%s` returned %s' % (opline, t[1]), rep)); break
            phase += 1
            pending_new = []
        elif k == 'layout':
            nums = list(map(int, t[1:]))
            if act[1] == 'old':
                nrecs_at_def = nums[3]
                if nrecs_at_def < numrecs_min:
                    fails.append(('numrecs-stale-at-redef', 'numrecs %d after ncmpi_redef although record %d was written' % (nrecs_at_def, numrecs_min - 1), rep))
            else:
                lay_new = nums
        elif k == 'enddef':
            if t[1] != '0':
                fails.append(('api-error:enddef', '`%s` returned %s' % (opline, t[1]), rep)); break
            for v in pending_new:
                if vars_[v]['nofill']:
                    continue
                n = inner(v)
                kn = known.setdefault(v, {})
                if isrec(v):
                    for idx in range(nrecs_at_def * n):
                        kn[idx] = fillv(v)
                    if nrecs_at_def:
                        nontrivial = True
                else:
                    for idx in range(n):
                        kn[idx] = fillv(v)
                    nontrivial = True
        elif k == 'plan':
            # per-rank file view of the enddef just executed; needs the layout that follows
            nxt = outs[0].get(li + 2)
            if nxt is None or not nxt.startswith('layout'):
                continue
            nums = list(map(int, nxt.split()[1:]))
            recsize, offs = nums[2], nums[5:]
            fv = []
            for v in pending_new:
                vl = inner(v)
                fv.append('%d %d %d %d %d' % (offs[v], XSZ[vars_[v]['t']], vl, 1 if isrec(v) else 0, 1 if vars_[v]['nofill'] else 0))
            for r in range(np_):
                real = outs[r].get(li + 1)
                plans.append(('FP %d %d %d %d %d %s' % (np_, r, recsize, nrecs_at_def, len(pending_new), ' '.join(fv)), r, real, sc))
            pending_new_done = list(pending_new)
            pending_new = []
            nrecs_at_def = 0
        elif k == 'put':
            if t[1] != '0':
                fails.append(('api-error:put', '`%s` returned %s' % (opline, t[1]), rep)); break
            _, v, seed, start, count = act
            d = vars_[v]['d']
            shape = [dims[x] for x in d]
            n = 1
            for c in count:
                n *= c
            kn = known.setdefault(v, {})
            for q in range(n):
                rem, coord = q, [0] * len(d)
                for i in range(len(d) - 1, -1, -1):
                    coord[i] = start[i] + rem % count[i]; rem //= count[i]
                idx, mul = 0, 1
                for i in range(len(d) - 1, -1, -1):
                    idx += coord[i] * mul
                    mul *= 1 if (i == 0 and shape[0] == 0) else shape[i]
                val = H.value_of(vars_[v]['t'], v, idx, seed)
                kn[idx] = float(val) if vars_[v]['t'] in (5, 6) else val
            if isrec(v) and n > 0:
                numrecs_min = max(numrecs_min, start[0] + count[0])
        elif k == 'fillrec':
            _, v, rec = act
            if t[1] != '0':
                fails.append(('api-error:fillrec', '`%s` returned %s' % (opline, t[1]), rep)); break
            n = inner(v)
            kn = known.setdefault(v, {})
            for i in range(n):
                kn[rec * n + i] = fillv(v)
            numrecs_min = max(numrecs_min, rec + 1)
            nontrivial = True
        elif k == 'read':
            v, ph = act[1], act[2]
            ty = vars_[v]['t']
            if t[2] != '0':
                fails.append(('api-error:read', 'reading variable %d %s returned %s' % (v, ph, t[2]), rep)); continue
            # every rank's own view is checked on the elements whose value is determined
            for r in range(np_):
                ar = outs[r].get(li + 1)
                if ar is None or ':' not in ar or ar.split()[2] != '0':
                    fails.append(('api-error:read', 'rank %d: reading variable %d %s failed: %s' % (r, v, ph, (ar or '')[:60]), rep)); break
                vals = ar.split(':', 1)[1].split()
                bad_here = False
                for idx, val in known.get(v, {}).items():
                    if idx >= len(vals):
                        fails.append(('element-missing-%s' % ph, 'rank %d: element %d of variable %d is beyond the variable size %s (numrecs %s)'
                                      % (r, idx, v, ph, ar.split()[3]), rep))
                        bad_here = True; break
                    got = H.decode(ty, vals[idx])
                    if got != val:
                        what = 'fill value' if val == fillv(v) else 'written value'
                        sig = ('unwritten-not-fill-%s' % ph) if val == fillv(v) else ('written-value-changed-%s' % ph)
                        fails.append((sig, 'rank %d: element %d of variable %d (type %d, %s, no_fill=%d): expected %s %r, reads %r %s'
                                      % (r, idx, v, ty, 'record' if isrec(v) else 'fixed', vars_[v]['nofill'], what, val, got, ph), rep))
                        bad_here = True; break
                if bad_here:
                    break
    return fails, plans, nontrivial

# ---------------------------------------------------------------------------------------
# `_FillValue` arriving through every metadata path
# ---------------------------------------------------------------------------------------
FV_PATHS = ['put_att', 'put_att_typed', 'def_var_fill', 'copy_att-other-file-same-varid', 'copy_att-other-file-other-varid',
            'copy_att-same-file-other-var', 'copy_att-self', 'rename_att-to-_FillValue']
NC_EBADTYPE, NC_EINVAL, NC_ELATEFILL = -45, -36, -122


def fv_rule(vt, at, n, is_old):
    """the documented rule: same type as the variable, exactly one element, only for a variable defined in this define mode"""
    if at != vt:
        return NC_EBADTYPE
    if n != 1:
        return NC_EINVAL
    if is_old:
        return NC_ELATEFILL
    return 0


class FvScen:
    def __init__(self, nprocs):
        self.nprocs = nprocs
        self.ops, self.exp = [], []
        self.kinds = set()
        self.fvreqs = []          # (driver line, op line index)

    def op(self, s, kind=None, payload=None):
        self.ops.append(s)
        if kind:
            self.exp.append((len(self.ops) - 1, kind, payload))

    def text(self):
        return '\n'.join(self.ops) + '\n'


def gen_fv_scenario(rng, nprocs):
    sc = FvScen(nprocs)
    fmt = rng.choice([5, 5, 1, 2])
    types = [4, 3, 6, 5, 1, 10, 7, 9] if fmt == 5 else [4, 3, 6, 5, 1]
    vars_ = []                      # dict(t, rec, fv (custom value or None), phase)
    known = {}
    numrecs = 0
    valctr = [rng.range(1, 20)]
    attctr = [0]

    def newval():
        valctr[0] += 1
        return valctr[0] % 100 + 1

    def fillv(v):
        x = vars_[v]['fv'] if vars_[v]['fv'] is not None else DEFAULT_FILL[vars_[v]['t']]
        return float(x) if vars_[v]['t'] in (5, 6) else x

    def reads(ph):
        for v in range(len(vars_)):
            sc.op('inqfill %d' % v, 'inqfill', (v, vars_[v]['t'], fillv(v)))
            sc.op('read %d' % v, 'read', (v, vars_[v]['t'], dict(known.get(v, {})), fillv(v), ph))

    sc.op('create %d' % fmt, 'code', 0)
    sc.op('setfill 1', 'setfill', 0)
    sc.op('dim 4', 'code', 0)
    sc.op('dim 0', 'code', 0)
    for phase in range(2):
        is_redef = phase == 1
        if is_redef:
            sc.op('redef', 'code', 0)
        first_new = len(vars_)
        for _ in range(rng.range(2, 3) if not is_redef else rng.range(1, 2)):
            ty = rng.choice(types)
            rec = rng.chance(1, 3)
            vars_.append(dict(t=ty, rec=rec, fv=None, phase=phase))
            sc.op('var %d %s' % (ty, '2 1 0' if rec else '1 0'), 'code', 0)
        # template: variable i has (mostly) the type of main variable i, so that same-varid copies are type-correct
        ttypes = [(vars_[i]['t'] if i < len(vars_) and rng.chance(2, 3) else rng.choice(types)) for i in range(len(vars_) + 1)]
        tvals = [newval() for _ in ttypes]
        sc.op('tmakev ' + ' '.join('%d:%d' % (a, b) for a, b in zip(ttypes, tvals)), 'code', 0)
        sc.op('topen 0', 'code', 0)
        for _ in range(rng.range(4, 8)):
            tv = rng.below(len(vars_))
            vt = vars_[tv]['t']
            is_old = vars_[tv]['phase'] < phase
            path = rng.below(len(FV_PATHS))
            hasatt = vars_[tv]['fv'] is not None
            at = vt if rng.chance(2, 3) else rng.choice([x for x in types if x != vt])
            n = rng.choice([1, 1, 1, 2])
            val = newval()
            line = None
            if path == 0:
                line = 'fvput %d %d %d %d 0' % (tv, at, n, val)
            elif path == 1:
                line = 'fvput %d %d %d %d 1' % (tv, at, n, val)
            elif path == 2:
                at, n = vt, 1
                line = 'varfill %d 0 1 %d' % (tv, val)
            elif path == 3:
                if tv >= len(ttypes):
                    continue
                at, n, val = ttypes[tv], 1, tvals[tv]
                line = 'copyatt 0 %d _FillValue %d' % (tv, tv)
            elif path == 4:
                j = rng.choice([i for i in range(len(ttypes)) if i != tv])
                at, n, val = ttypes[j], 1, tvals[j]
                line = 'copyatt 0 %d _FillValue %d' % (j, tv)
            elif path == 5:
                srcs = [i for i in range(len(vars_)) if i != tv and vars_[i]['fv'] is not None]
                if not srcs:
                    continue
                sv = rng.choice(srcs)
                at, n, val = vars_[sv]['t'], 1, vars_[sv]['fv']
                line = 'copyatt 2 %d _FillValue %d' % (sv, tv)
            elif path == 6:
                if not hasatt:
                    continue
                line = 'copyatt 2 %d _FillValue %d' % (tv, tv)
            elif path == 7:
                if hasatt:
                    continue
                nm = 'x%d' % attctr[0]; attctr[0] += 1
                sc.op('attany %d %s %d %d %d' % (tv, nm, at, n, val), 'code', 0)
                line = 'renatt %d %s _FillValue' % (tv, nm)
            want = 0 if path == 6 else fv_rule(vt, at, n, is_old)
            sc.op(line, 'fvcode', (want, FV_PATHS[path], 'old' if is_old else ('new-in-redef' if is_redef else 'create')))
            sc.fvreqs.append(('FV %d %d %d %d %d' % (path, vt, at, n, 1 if is_old else 0), len(sc.ops) - 1))
            sc.kinds.add('fv:%s:%s:%s' % (FV_PATHS[path], 'old' if is_old else ('new-in-redef' if is_redef else 'create'),
                                          {0: 'accepted', NC_EBADTYPE: 'EBADTYPE', NC_EINVAL: 'EINVAL', NC_ELATEFILL: 'ELATEFILL'}[want]))
            if want == 0 and path != 6:
                vars_[tv]['fv'] = val
        # on a NEW variable the attribute may also leave again (rename away / delete): back to the default fill value
        for v in range(first_new, len(vars_)):
            if vars_[v]['fv'] is not None and rng.chance(1, 5):
                if rng.chance(1, 2):
                    sc.op('renatt %d _FillValue was_fv' % v, 'code', 0)
                else:
                    sc.op('delatt %d _FillValue' % v, 'code', 0)
                vars_[v]['fv'] = None
                sc.kinds.add('fv:attribute-removed-from-new-variable')
        sc.op('tclose', 'code', 0)
        sc.op('enddef', 'code', 0)
        for v in range(first_new, len(vars_)):
            kn = known.setdefault(v, {})
            if vars_[v]['rec']:
                for i in range(numrecs * 4):
                    kn[i] = fillv(v)
            else:
                for i in range(4):
                    kn[i] = fillv(v)
        reads('after-enddef-%d' % phase)
        # partial writes and explicit record fills
        for v in range(first_new, len(vars_)):
            seed = rng.below(100000)
            if vars_[v]['rec']:
                rec = numrecs if rng.chance(1, 2) else 0
                sc.op('fillrec %d %d' % (v, rec), 'code', 0)
                kn = known.setdefault(v, {})
                for i in range(4):
                    kn[rec * 4 + i] = fillv(v)
                numrecs = max(numrecs, rec + 1)
                sc.op('cput %d %d %d 0 1 2' % (v, seed, rec), 'code', 0)
                for i in range(2):
                    x = H.value_of(vars_[v]['t'], v, rec * 4 + i, seed)
                    kn[rec * 4 + i] = float(x) if vars_[v]['t'] in (5, 6) else x
            else:
                s0 = rng.range(0, 2)
                sc.op('cput %d %d %d 2' % (v, seed, s0), 'code', 0)
                kn = known.setdefault(v, {})
                for i in range(s0, s0 + 2):
                    x = H.value_of(vars_[v]['t'], v, i, seed)
                    kn[i] = float(x) if vars_[v]['t'] in (5, 6) else x
        reads('after-writes-%d' % phase)
    sc.op('close', 'code', 0)
    sc.op('open 0', 'code', 0)
    for v in range(len(vars_)):
        sc.op('read %d' % v, 'read', (v, vars_[v]['t'], dict(known.get(v, {})), fillv(v), 'after-reopen'))
    sc.op('close', 'code', 0)
    return sc


def evaluate_fv(sc, outs, np_):
    fails = []
    rep = dict(nprocs=np_, script=sc.ops)
    res = outs[0]
    for li, kind, payload in sc.exp:
        ans = res.get(li + 1)
        if ans is None:
            fails.append(('api-no-answer', 'no answer for op %d (%s)' % (li + 1, sc.ops[li]), rep)); break
        t = ans.split()
        if kind == 'code':
            if t[-1] != str(payload):
                fails.append(('api-error:%s' % sc.ops[li].split()[0], 'valid call `%s` returned %s' % (sc.ops[li], t[-1]), rep)); break
        elif kind == 'setfill':
            if t[1] != '0':
                fails.append(('api-error:setfill', '`%s` returned %s' % (sc.ops[li], t[1]), rep)); break
        elif kind == 'fvcode':
            want, path, sit = payload
            if int(t[-1]) != want:
                fails.append(('fillvalue-rule:%s:%s' % (path, sit),
                              '_FillValue delivered through %s onto a variable (%s): `%s` returned %s, the documented rule gives %d'
                              % (path, sit, sc.ops[li], t[-1], want), rep))
                break      # later expectations depend on this outcome
        elif kind == 'inqfill':
            v, ty, fv = payload
            if t[1] != '0' or t[2] != '0' or H.decode(ty, t[3]) != fv:
                fails.append(('inq_var_fill-current-value', 'variable %d: ncmpi_inq_var_fill gives %s, expected fill mode on and value %r' % (v, ' '.join(t[1:]), fv), rep))
        elif kind == 'read':
            v, ty, kn, fv, ph = payload
            for r in range(np_):
                ar = outs[r].get(li + 1)
                if ar is None or ':' not in ar or ar.split()[2] != '0':
                    fails.append(('api-error:read', 'rank %d: reading variable %d %s failed: %s' % (r, v, ph, (ar or '')[:60]), rep)); break
                vals = ar.split(':', 1)[1].split()
                bad = False
                for idx, val in kn.items():
                    got = H.decode(ty, vals[idx]) if idx < len(vals) else None
                    if got != val:
                        isf = (val == fv)
                        fails.append((('unwritten-not-current-fill-%s' % ph) if isf else ('written-value-changed-%s' % ph),
                                      'rank %d: element %d of variable %d (type %d): expected %s %r, reads %r %s'
                                      % (r, idx, v, ty, 'the current fill value' if isf else 'written value', val, got, ph), rep))
                        bad = True; break
                if bad:
                    break
    return fails


def run_check(tier, seed):
    V = Verdict(PROP, tier, seed)
    rng = SplitMix64(seed * 7919 + 16)
    V.assumptions = [
        'MPI semantics are parameters: a collective write through an hindexed file view of monotone, non-overlapping blocks stores the contiguous buffer block by block; not modelled: MPI errors, MPI_Aint overflow of offsets (the C skips the variable), fill_var_buf failing on a malformed _FillValue attribute (C19/F11)',
        'fill mode "on for a variable" is taken as: last of ncmpi_set_fill / ncmpi_def_var_fill(no_fill) / dataset mode at definition (a _FillValue attribute alone does not switch a no-fill variable to fill mode in fillerup_aggregate; such variables carry no expectation on unwritten elements)',
        'the layout facts NewLayoutOK (hypothesis of plan_monotone) are evaluated on every real layout of the API stream',
    ]
    V.cov['trusted_base'] = TRUSTED_BASE_COMMON + [
        'lean/PnVerif/Model/Fill.lean is a hand transcription of the share arithmetic, fillerup_aggregate (segment list + buffer), fill_var_rec, the default fill byte tables and the no_fill bookkeeping; tied to the source by differential execution only',
        'harness/c16_unit.c (PMPI interception of MPI_Type_create_hindexed / MPI_File_write_at(_all)), harness/c16_api.c, harness/c06_api.c, generators in checks/c16.py']
    tree = build_impl('plain')
    wd = workdir('c16')
    try:
        ok, out = lake_build(['PnVerif.Props.C16', 'c16drv'])
        obl = obligations_of('PnVerif/Props/C16.lean')
        failed_thms = set()
        if not ok:
            for f, ln, msg in lake_errors(out):
                th = theorem_at(f, ln)
                if th:
                    failed_thms.add(th)
            log('[S3] lake build FAILED:', sorted(failed_thms)[:10], out[-600:])
        discharged, bad = axiom_audit('PnVerif.Props.C16', obl, 'PnVerif.Props.C16') if ok else ([], [])
        forb = grep_forbidden([os.path.join(LEAN, f) for f in ('PnVerif/Model/Fill.lean', 'PnVerif/Props/C16.lean', 'Driver/C16.lean',
                                                            'PnVerif/Model/Redef.lean', 'PnVerif/Lemmas/Redef.lean')])
        V.cov['obligations'] = len(obl)
        V.cov['discharged'] = len(discharged)
        V.cov['checker_cmd'] = 'cd lean && lake build PnVerif.Props.C16 c16drv && lake env lean <#print axioms of every name in PnVerif.Props.C16.obligations>'
        if tier == 'thorough' and ok:
            lc = leanchecker(['PnVerif.Props.C16'])
            V.cov['leanchecker'] = 'ok' if not lc else str(lc)
            if lc:
                bad.append(('leanchecker', lc))
        proof_broken = (not ok) or bad or forb
        if not ok or not os.path.exists(os.path.join(LEAN, '.lake/build/bin/c16drv')):
            V.broken_tie('proof obligations / driver do not build', dict(failed_theorems=sorted(failed_thms), lake_tail=out[-1500:]))
            return V.finish()

        inc = ['-DHAVE_CONFIG_H', '-I' + os.path.join(tree, 'src/drivers/ncmpio'), '-I' + os.path.join(tree, 'src/drivers/include'),
               '-I' + os.path.join(tree, 'src/include'), '-I' + os.path.join(tree, 'src/drivers/common'), '-I' + tree,
               '-I' + os.path.join(VERIF, 'harness')]
        # the API harness runs the real ncmpi_enddef with a small MOVE_UNIT (same run-time copy as C06)
        src = open(os.path.join(tree, 'src/drivers/ncmpio/ncmpio_enddef.c')).read()
        src2, nsub = re.subn(r'^[ \t]*#[ \t]*define[ \t]+MOVE_UNIT[ \t]+\d+[ \t]*$', '#define MOVE_UNIT verif_move_unit', src, flags=re.M)
        inc_api = list(inc)
        if nsub == 1:
            esrc = os.path.join(wd, 'enddef_mu.c')
            open(esrc, 'w').write(src2)
            inc_api.append('-DENDDEF_SRC="%s"' % esrc)
        try:
            uexe = cc(tree, [os.path.join(VERIF, 'harness/c16_unit.c')], os.path.join(wd, 'c16_unit'), extra=inc)
            aexe = cc(tree, [os.path.join(VERIF, 'harness/c16_api.c')], os.path.join(wd, 'c16_api'), extra=inc_api)
        except BuildFailed as ex:
            V.broken_tie('correspondence: harness does not compile against the tree (static function signatures changed?)', str(ex)[-1500:])
            return V.finish()

        dist, samples, distinct = {}, [], set()
        nevals = 0
        prop_fail = []

        def bump(k):
            dist[k] = dist.get(k, 0) + 1

        # ---- default fill bytes: model table vs the tree's table as the library itself decodes it is covered by the
        #      API stream (reads of unwritten elements); here: the model's bytes decode to the documented values
        fb = run_driver(['FB %d' % t for t in range(0, 13)])
        tie_problems = []
        for t in range(1, 12):
            b = bytes.fromhex(fb[t])
            if t in (5, 6):
                val = struct.unpack('>f' if t == 5 else '>d', b)[0]
            else:
                val = int.from_bytes(b, 'big', signed=t in (1, 3, 4, 10))
            if val != DEFAULT_FILL[t]:
                tie_problems.append('model fill bytes of type %d decode to %r, documented %r' % (t, val, DEFAULT_FILL[t]))
        if fb[0] != 'none' or fb[12] != 'none':
            tie_problems.append('model has fill bytes for an invalid type')

        # ---- unit stream
        t1 = Timer()
        ul = []
        cfile = os.path.join(VERIF, 'corpus', 'C16', 'unit.txt')
        if os.path.exists(cfile):
            ul += [(l.strip(), ['corpus'], None) for l in open(cfile) if l.strip() and not l.startswith('#')]
        ul += gen_unit(rng, tier)
        script = os.path.join(wd, 'unit.txt')
        open(script, 'w').write('\n'.join(l for l, _, _ in ul) + '\n')
        pu = subprocess.run([uexe, script, os.path.join(wd, 'unit.bin')], stdout=subprocess.PIPE, stderr=subprocess.PIPE, text=True, timeout=280)
        real = [x for x in pu.stdout.split('\n') if x]
        unit_diffs = []
        if pu.returncode != 0 or len(real) != len(ul):
            unit_diffs.append(dict(what='unit harness crashed', rc=pu.returncode, lines_out=len(real), lines_in=len(ul), stderr=pu.stderr[-400:]))
        else:
            model = run_driver([l for l, _, _ in ul])
            fams = {}
            for i, (l, tags, famd) in enumerate(ul):
                nevals += 1
                for tg in tags:
                    bump('unit:' + tg)
                if [tg for tg in tags if tg not in ('exhaustive-share', 'fill_var_rec', 'corpus')] or \
                        (tags == ['exhaustive-share'] and int(l.split()[8]) % int(l.split()[1]) != 0):
                    distinct.add(l)
                if real[i].strip() != model[i].strip():
                    unit_diffs.append(dict(line=l[:300], impl=real[i][:300], model=model[i][:300]))
                if famd is not None:
                    segs = real[i].split('|')[0].split()
                    n = int(segs[0]) if segs and segs[0].lstrip('-').isdigit() else -1
                    pl = [(int(segs[1 + 2 * k]), int(segs[2 + 2 * k])) for k in range(max(n, 0))]
                    fams.setdefault(famd[0], (famd, []))[1].append(pl)
            for famid, (famd, pls) in fams.items():
                _, p, recsize, nrecs, vs = famd
                if len(pls) != p:
                    continue
                nevals += 1
                why = partition_oracle(p, recsize, nrecs, vs, pls)
                if why:
                    prop_fail.append(('fill-plan-not-partition', 'fillerup_aggregate on %d processes: %s' % (p, why),
                                      dict(nprocs=p, recsize=recsize, nrecs=nrecs, new_vars=vs, plans=pls)))
            samples.append(ul[len(ul) // 2][0][:200])
            samples.append(ul[-1][0][:200])
        log('[S4] unit stream: %d requests, %d differences (%.1fs)' % (len(ul), len(unit_diffs), t1.s()))

        # ---- fill-mode bookkeeping: random op sequences, model vs spec written independently here (last writer wins)
        fm_lines, fm_exp = [], []
        for _ in range(60 if tier == 'quick' else 600):
            ops, ds, nf = [], False, []
            for _ in range(rng.range(1, 12)):
                k = rng.below(4)
                if k == 0:
                    m = rng.below(2); ops.append('S%d' % m); ds = bool(m); nf = [not ds] * len(nf)
                elif k == 1 or not nf:
                    ops.append('D'); nf.append(not ds)
                else:
                    v = rng.below(len(nf)); x = rng.below(2); ops.append('V%d:%d' % (v, x)); nf[v] = bool(x)
            fm_lines.append('FM ' + ' '.join(ops))
            fm_exp.append(' '.join([str(int(ds)), str(len(nf))] + [str(int(b)) for b in nf]))
        for l, e, g in zip(fm_lines, fm_exp, run_driver(fm_lines)):
            nevals += 1
            if e.strip() != g.strip():
                tie_problems.append('fill-mode model differs from the documented rule on %s: %s vs %s' % (l, g, e))

        # ---- API stream
        t2 = Timer()
        ranks_api = [1, 2, 3, 4] if tier == 'quick' else [1, 2, 3, 4, 5, 7, 8]
        per_rank = 20 if tier == 'quick' else 150
        plan_reqs = []
        nscen = 0
        for np_ in ranks_api:
            scen = [gen_scenario(rng, np_) for _ in range(per_rank)]
            nscen += len(scen)
            results = run_scenarios(aexe, wd, np_, scen, True)
            if results is None:
                results = run_scenarios(aexe, wd, np_, scen, False)
            for sc, outs in zip(scen, results):
                nevals += len(sc.ops)
                for kd in sc.kinds:
                    bump('api:' + kd)
                bump('api:nprocs=%d' % np_)
                if outs == 'skipped':
                    bump('api:skipped-after-crashes')
                    continue
                if outs is None:
                    prop_fail.append(('api-crash-or-hang', 'harness crashed or hung on a valid fill scenario (%d ranks)' % np_,
                                      dict(nprocs=np_, script=sc.ops)))
                    continue
                fails, plans, nontriv = evaluate(sc, outs, np_)
                prop_fail += fails
                plan_reqs += plans
                if nontriv:
                    distinct.add(sc.text())
                if nontriv and len(samples) < 5:
                    samples.append(sc.ops[:45])
        plan_diffs = []
        layout_bad = []
        if plan_reqs:
            model = run_driver([p[0] for p in plan_reqs])
            for (line, r, realp, sc), m in zip(plan_reqs, model):
                nevals += 1
                mm = m.split('|')[0].split()
                rr = (realp or '').split()
                # real: "plan <calls> <n> off len ..." ; model: "<n> off len ..."
                if len(rr) < 3 or rr[0] != 'plan':
                    plan_diffs.append(dict(line=line, impl=realp, model=m)); continue
                calls, n = int(rr[1]), int(rr[2])
                if mm[0] == '-1':
                    same = (calls == 0)
                else:
                    same = (calls == 1 and rr[2:] == mm)
                if not same:
                    plan_diffs.append(dict(line=line, rank=r, impl=realp, model=m, script=sc.ops))
                # hypothesis NewLayoutOK of plan_monotone on the real layout: blocks sorted and disjoint
                segs = [(int(rr[3 + 2 * k]), int(rr[4 + 2 * k])) for k in range(max(n, 0))] if calls else []
                for a, b in zip(segs, segs[1:]):
                    if a[0] + a[1] > b[0]:
                        layout_bad.append(dict(problem='file view blocks not monotone/disjoint: %s then %s' % (a, b), line=line, script=sc.ops))
        log('[S4] api stream: %d scenarios on ranks %s, %d per-rank plans compared, %d property failures, %d plan differences (%.1fs)'
            % (nscen, ranks_api, len(plan_reqs), len(prop_fail), len(plan_diffs), t2.s()))

        # ---- `_FillValue` through every metadata path
        t3 = Timer()
        nfv = 0
        fv_reqs, fv_real = [], []
        for np_ in ([1, 2, 3] if tier == 'quick' else [1, 2, 3, 4]):
            scen = [gen_fv_scenario(rng, np_) for _ in range(12 if tier == 'quick' else 80)]
            nfv += len(scen)
            results = run_scenarios(aexe, wd, np_, scen, True)
            if results is None:
                results = run_scenarios(aexe, wd, np_, scen, False)
            for sc, outs in zip(scen, results):
                if outs == 'skipped':
                    continue
                nevals += len(sc.ops)
                for kd in sc.kinds:
                    bump('api:' + kd)
                if outs is None:
                    prop_fail.append(('api-crash-or-hang', 'harness crashed or hung on a _FillValue scenario (%d ranks)' % np_,
                                      dict(nprocs=np_, script=sc.ops)))
                    continue
                prop_fail += evaluate_fv(sc, outs, np_)
                distinct.add(sc.text())
                for line, li in sc.fvreqs:
                    a = outs[0].get(li + 1)
                    if a is not None:
                        fv_reqs.append(line); fv_real.append((a.split()[-1], sc.ops[li]))
        fv_diffs = []
        if fv_reqs:
            for line, (realc, opl), m in zip(fv_reqs, fv_real, run_driver(fv_reqs)):
                nevals += 1
                if m.strip() != realc:
                    fv_diffs.append(dict(request=line, op=opl, impl=realc, model=m.strip()))
        log('[S4] _FillValue paths: %d scenarios, %d deliveries compared with the model rule, %d differences (%.1fs)'
            % (nfv, len(fv_reqs), len(fv_diffs), t3.s()))
        V.cov['fillvalue_deliveries'] = len(fv_reqs)

        V.cov['evaluations'] = nevals
        V.cov['distinct_nontrivial'] = len(distinct)
        V.cov['traces_validated_against_impl'] = nevals - len(unit_diffs) - len(plan_diffs)
        V.cov['rule'] = ('unit: every (len<=10|24, nprocs<=6|12, rank) through the real fillerup_aggregate plus random families of new variables '
                         '(all ranks of nprocs in {1..8,13}, sampled ranks of 64) and random fill_var_rec calls up to nprocs=1000; non-trivial = '
                         'nprocs does not divide a length, nprocs > length, existing records filled, or fill and no-fill variables mixed (distinct '
                         'request lines); api: random schema x fill settings x partial writes x fill_var_rec x redefinitions x reopen, non-trivial = '
                         'at least one variable or record actually had to read back as fill (distinct scripts)')
        V.cov['distribution'] = dist
        V.cov['samples'] = samples
        V.cov['api_scenarios'] = nscen
        V.cov['plans_compared'] = len(plan_reqs)

        new_fail = 0
        seen = set()
        for sig, desc, rp in prop_fail:
            if sig in seen and new_fail >= 3:
                continue
            seen.add(sig)
            if V.failing_input(sig, desc, rp, tag='in%d' % new_fail):
                new_fail += 1
                if new_fail >= 5:
                    break
        if new_fail == 0:
            if unit_diffs:
                V.broken_tie('correspondence unit: real fillerup_aggregate / fill_var_rec and the model differ', unit_diffs[:8])
            if fv_diffs:
                V.broken_tie('correspondence _FillValue rule: return code of the real library differs from the model fvAccept', fv_diffs[:8])
            if plan_diffs:
                V.broken_tie('correspondence api: the file view built by the real ncmpi_enddef differs from the model plan', plan_diffs[:5])
            if layout_bad:
                V.broken_tie('hypothesis of plan_monotone does not hold on a real layout', layout_bad[:5])
            if tie_problems:
                V.broken_tie('model/constant check', tie_problems[:8])
            if proof_broken:
                V.broken_tie('proof obligations no longer check',
                             dict(failed_theorems=sorted(failed_thms), axiom_audit=bad[:10], forbidden=forb[:10]))
        return V.finish()
    finally:
        cleanup(wd)


def run_scenarios(aexe, wd, np_, scen, batch):
    """-> per scenario: list over ranks of {line no: answer} (None = crash/hang); None if the batch failed"""
    if batch:
        lines, offs = [], []
        for sc in scen:
            offs.append(len(lines)); lines += sc.ops
        script = os.path.join(wd, 'api_%d.txt' % np_)
        open(script, 'w').write('\n'.join(lines) + '\n')
        outp = os.path.join(wd, 'api_%d.out' % np_)
        rc, so, se = mpirun(np_, [aexe, script, os.path.join(wd, 'api_%d.nc' % np_), outp], timeout=90)
        if rc != 0:
            return None
        allres = [H.parse_out('%s.%d' % (outp, r)) for r in range(np_)]
        return [[{i + 1: allres[r].get(offs[k] + i + 1) for i in range(len(sc.ops))} for r in range(np_)]
                for k, sc in enumerate(scen)]
    res, nbad = [], 0
    for k, sc in enumerate(scen):
        if nbad >= 3:
            res.append('skipped')        # enough crashing/hanging scenarios to report; keep the run time bounded
            continue
        script = os.path.join(wd, 'api_%d_%d.txt' % (np_, k))
        open(script, 'w').write(sc.text())
        outp = os.path.join(wd, 'api_%d_%d.out' % (np_, k))
        rc, so, se = mpirun(np_, [aexe, script, os.path.join(wd, 'api_%d_%d.nc' % (np_, k)), outp], timeout=20)
        res.append([H.parse_out('%s.%d' % (outp, r)) for r in range(np_)] if rc == 0 else None)
        nbad += (rc != 0)
    return res


if __name__ == '__main__':
    tier, seed, replay = args(sys.argv[1:])
    sys.exit(run_check(tier, seed))
