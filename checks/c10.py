#!/usr/bin/env python3
"""C10 — hints, process count and execution modes never change results (DESIGN.md §4 C10; partial)."""
import os, sys, json, subprocess, re
sys.path.insert(0, os.path.dirname(os.path.abspath(__file__)))
from common import *
import apigen, apicmp

PROP = 'C10'
ALIGN_KEYS = ['nc_header_align_size', 'nc_var_align_size', 'nc_record_align_size']


def rand_config(rng):
    """one configuration: (hints string for the info object, env dict, enddef op)"""
    h = []
    def maybe(key, vals, num=1, den=2):
        if rng.chance(num, den):
            h.append('%s=%s' % (key, rng.choice(vals)))
    maybe('nc_header_align_size', [1, 4, 7, 64, 100, 512, 1000, 4096])
    maybe('nc_var_align_size', [1, 4, 6, 64, 100, 1024])
    maybe('nc_record_align_size', [1, 4, 10, 64, 512, 1000])
    maybe('nc_in_place_swap', ['enable', 'disable', 'auto'])
    maybe('nc_ibuf_size', [1, 16, 64, 4096, 16777216], 1, 3)
    maybe('nc_header_read_chunk_size', [36, 64, 512, 4096], 1, 3)
    for k in ('nc_hash_size_dim', 'nc_hash_size_var', 'nc_hash_size_gattr', 'nc_hash_size_vattr'):
        maybe(k, [1, 2, 8, 256], 1, 3)
    maybe('nc_num_aggrs_per_node', [0, 1, 2, 3], 1, 2)
    maybe('romio_no_indep_rw', ['true', 'false'], 1, 4)
    env = {}
    if rng.chance(1, 3):
        env['PNETCDF_SAFE_MODE'] = '1'
    hints = ';'.join(h) if h else '-'
    if rng.chance(1, 4) and h:
        # same hints through the environment form instead of the info object
        env['PNETCDF_HINTS'] = ';'.join(h)
        hints = '-'
    enddef = 'enddef'
    if rng.chance(1, 3):
        enddef = 'enddef2 %d %d %d %d' % (rng.choice([0, 0, 10, 300]), rng.choice([0, 4, 100, 512]), rng.choice([0, 0, 8, 100]), rng.choice([0, 4, 12, 256]))
    return hints, env, enddef


def dump_lines(lines, steps, spec_lines=None):
    """rank-0 result lines of the logical-dump steps; cells the specification leaves unspecified ('?':
    never written, not filled) are masked, their content is arbitrary and may differ between runs"""
    out = []
    ss = set(steps)
    spec = {}
    for l in (spec_lines or []):
        t = l.split()
        if len(t) >= 3 and t[0].isdigit() and int(t[0]) in ss and t[1] == '0':
            spec[int(t[0])] = t[2:]
    for l in lines:
        t = l.split()
        if len(t) >= 3 and t[0].isdigit() and int(t[0]) in ss and t[1] == '0':
            toks = t[2:]
            m = spec.get(int(t[0]))
            if m and len(m) == len(toks):
                toks = ['?' if a == '?' else b for a, b in zip(m, toks)]
            out.append(' '.join(toks))
    return out


def run_check(tier, seed):
    V = Verdict(PROP, tier, seed)
    rng = SplitMix64(seed * 7368787 + 3)
    V.assumptions = [
        'PARTIAL: proved = decomposition/order independence of disjoint writes (putElems_perm, split_any_way) and the alignment-hint precedence logic (resolveAlign, transcription of ncmpio__enddef); '
        'every other setting (in-place swap, packing buffer, hash sizes, collective header I/O, intra-node aggregation, safe mode, PNETCDF_HINTS tokenizer, OpenMPI/ROMIO hints) is decided differentially between configurations on the real library, not proved',
        'configurations are compared through the logical dump (inquiries + whole-variable reads after reopen) and through the abstract dataset specification (Spec/Dataset.lean), which has no configuration input at all',
    ]
    V.cov['trusted_base'] = TRUSTED_BASE_COMMON + ['harness/apirun.c, checks/apigen.py', 'lean/Driver/Api.lean + Spec/Dataset.lean']
    tree = build_impl('plain')
    wd = workdir('c10')
    try:
        ok, out = lake_build(['PnVerif.Props.C10', 'c10drv', 'apidrv'])
        obl = obligations_of('PnVerif/Props/C10.lean')
        discharged, bad, failed_thms = [], [], set()
        if ok:
            discharged, bad = axiom_audit('PnVerif.Props.C10', obl, 'PnVerif.Props.C10')
        else:
            for f, ln, msg in lake_errors(out):
                t = theorem_at(f, ln)
                if t:
                    failed_thms.add(t)
        forb = grep_forbidden([os.path.join(LEAN, p) for p in ('PnVerif/Model/Hints.lean', 'PnVerif/Base/File.lean', 'PnVerif/Props/C10.lean', 'Driver/C10.lean')])
        V.cov['obligations'] = len(obl)
        V.cov['discharged'] = len(discharged)
        V.cov['checker_cmd'] = 'cd lean && lake build PnVerif.Props.C10 c10drv apidrv && lake env lean <#print axioms of every obligation>'
        if tier == 'thorough' and ok:
            lc = leanchecker(['PnVerif.Props.C10'])
            V.cov['leanchecker'] = 'ok' if not lc else str(lc)
            if lc:
                bad.append(('leanchecker', lc))
        proof_broken = (not ok) or bad or forb
        drv = os.path.join(LEAN, '.lake/build/bin/c10drv')
        if not os.path.exists(drv) or not os.path.exists(apicmp.APIDRV):
            V.broken_tie('Lean drivers do not build', out[-1500:])
            return V.finish()
        exe = apicmp.build_apirun(tree, wd)
        nfail, tie_diffs, evals, distinct = 0, [], 0, set()
        # ---- stream A: alignment hints reported == model == in force
        nA = 120 if tier == 'thorough' else 30
        hint_vals = ['-', '-', '0', '1', '4', '6', '7', '64', '100', '512', '1000', '4096', '-8']
        for k in range(nA):
            eh, ev, er = rng.choice(hint_vals), rng.choice(hint_vals), rng.choice(hint_vals)
            av, ar = rng.choice([0, 0, 4, 10, 100, 512]), rng.choice([0, 0, 4, 12, 256])
            hmin, vmin = rng.choice([0, 0, 10, 300]), rng.choice([0, 0, 8, 100])
            nfix, nrec = rng.choice([0, 1, 2]), rng.choice([0, 1, 2])
            if nfix + nrec == 0:
                nfix = 1
            hints = ';'.join('%s=%s' % (kk, vv) for kk, vv in zip(ALIGN_KEYS, (eh, ev, er)) if vv != '-') or '-'
            p = apigen.Prog('c10a_%d.nc' % k, 1)
            p.all('create c10a_%d.nc %d clobber %s' % (k, rng.choice([1, 2, 5]), hints))
            p.all('def_dim t 0'); p.all('def_dim x 3')
            names = []
            for i in range(nfix):
                p.all('def_var f%d int 1 x' % i); names.append('f%d' % i)
            for i in range(nrec):
                p.all('def_var r%d short 2 t x' % i); names.append('r%d' % i)
            use2 = rng.chance(2, 3)
            p.all(('enddef2 %d %d %d %d' % (hmin, av, vmin, ar)) if use2 else 'enddef')
            s_info = p.all('inq_info ' + ' '.join(ALIGN_KEYS))
            s_hdr = p.all('inq_header')
            s_off = {n: p.all('inq_varoffset %s' % n) for n in names}
            p.all('close')
            rc, impl, err = apicmp.run_impl(exe, _write(wd, 'a.txt', p.text()), 1, wd)
            evals += 1
            # ncmpio__enddef computes num_fix_vars = ndefined - num_rec_vars BEFORE num_rec_vars is recounted: on a newly
            # created file num_rec_vars is still 0, so the value the code uses is the number of ALL variables
            line = 'RA %s %s %s %d %d %d 0' % (eh, ev, er, av if use2 else 0, ar if use2 else 0, nfix + nrec)
            m = subprocess.run([drv], input=line + '\n', stdout=subprocess.PIPE, text=True).stdout.split()
            got = {}
            for l in impl:
                t = l.split()
                if int(t[0]) == s_info:
                    got = dict(x.split('=', 1) for x in t[4:])
                if int(t[0]) == s_hdr:
                    hsize, hext, recsz = int(t[4]), int(t[5]), int(t[6])
            offs = {}
            for n, st in s_off.items():
                for l in impl:
                    t = l.split()
                    if int(t[0]) == st:
                        offs[n] = int(t[4])
            if rc != 0 or not got or len(m) != 3:
                tie_diffs.append((line, 'rc=%s' % rc, err[-300:]))
                continue
            rep = [got.get(kk, '?') for kk in ALIGN_KEYS]
            distinct.add(line)
            # property oracle: the reported values are the ones in force
            h, r = int(rep[0]), int(rep[2])
            inforce = True
            first_fixed = offs.get('f0')
            first_rec = offs.get('r0')
            if first_fixed is not None and first_fixed % h != 0:
                inforce = False
            if first_fixed is None and first_rec is not None and first_rec % h != 0 and first_rec % r != 0:
                inforce = False
            if first_rec is not None and first_rec % r != 0:
                inforce = False
            if not inforce:
                if V.failing_input('C10:hint-not-in-force', 'reported alignment %s but variable offsets %s' % (rep, offs),
                                   dict(script=p.text(), reported=rep, offsets=offs), tag='a%d' % nfail):
                    nfail += 1
            elif rep != m:
                tie_diffs.append((line, rep, m))
        # ---- stream B: same logical program under different configurations / process counts
        nB = 40 if tier == "thorough" else 7
        ncfg = 4 if tier == 'thorough' else 3
        cfg_hist = {}
        samples = []
        for k in range(nB):
            lseed = rng.next()
            ref_dump, ref_desc = None, None
            for c in range(ncfg):
                nprocs = [1, 2, 3, 4][c % 4] if tier == 'thorough' else rng.choice([1, 2, 3])
                if c == 0:
                    hints, env, enddef = '-', {}, 'enddef'
                    nprocs = 1
                else:
                    hints, env, enddef = rand_config(rng)
                big = (k % 2 == 1)
                if big and c > 0:
                    # aggregation-focused configurations: several ranks, 0 < aggregators < ranks, larger strided collective writes
                    nprocs = rng.choice([2, 3, 4])
                    ag = 'nc_num_aggrs_per_node=%d' % rng.range(1, max(1, nprocs - 1))
                    hints = ag if hints == '-' else ';'.join([h for h in hints.split(';') if not h.startswith('nc_num_aggrs_per_node')] + [ag])
                    if 'PNETCDF_HINTS' in env:
                        env = dict(env); env['PNETCDF_HINTS'] = hints; 
                rl, rd = SplitMix64(lseed), SplitMix64(rng.next())
                p = apigen.gen_rw_program(rl, 'c10b_%d_%d.nc' % (k, c), nprocs, hints=hints, rd=rd, enddef=enddef, big=big)
                text = p.text()
                sp = _write(wd, 'b.txt', text)
                rc, impl, err = apicmp.run_impl(exe, sp, nprocs, wd, env=env)
                src, spec, serr = apicmp.run_spec(sp, nprocs)
                evals += len(impl)
                for kv in (hints.split(';') if hints != '-' else []) + list(env.keys()) + ['np%d' % nprocs, enddef.split()[0]]:
                    kk = kv.split('=')[0]
                    cfg_hist[kk] = cfg_hist.get(kk, 0) + 1
                desc = dict(hints=hints, env=env, enddef=enddef, nprocs=nprocs)
                distinct.add(json.dumps(desc, sort_keys=True) + str(lseed))
                if k == 0 and c == 1:
                    samples.append(dict(config=desc, script_head=text.split('\n')[:10]))
                mism = apicmp.compare(spec, impl)
                bv = apicmp.buffer_violations(impl)
                d = dump_lines(impl, getattr(p, 'dump_steps', []), spec)
                problem = None
                if rc != 0 or mism or bv:
                    problem = 'configuration changes the result w.r.t. the specification: rc=%s %s %s' % (rc, [(a[1], a[2]) for a in mism[:2]], bv[:2])
                elif ref_dump is not None and d != ref_dump:
                    diff = [(a, b) for a, b in zip(ref_dump, d) if a != b][:3]
                    problem = 'logical dump differs between configurations %s and %s: %s' % (ref_desc, desc, diff)
                if problem:
                    # reproduce once more before calling it a failure (the sandbox is shared and loaded)
                    rc2, impl2, _ = apicmp.run_impl(exe, sp, nprocs, wd, env=env)
                    if rc2 == 0 and not apicmp.compare(spec, impl2) and dump_lines(impl2, p.dump_steps, spec) == (ref_dump or dump_lines(impl2, p.dump_steps, spec)):
                        tie_diffs.append(('flaky', problem[:300], desc))
                    elif V.failing_input('C10:config-changes-result', problem[:700],
                                         dict(script=text, config=desc, logical_seed=lseed, stderr=err[-300:]), tag='b%d' % nfail):
                        nfail += 1
                if ref_dump is None and not problem:
                    ref_dump, ref_desc = d, desc
                if nfail >= 3:
                    break
            if nfail >= 3:
                break
        # ---- stream C: metadata-heavy programs (rename / delete / copy of attributes, renames of variables and dimensions in both
        #      modes, redefinitions, cancel, second session ending in close or abort) under random configurations, with a
        #      DIFFERENT configuration for the session that re-opens the file (hash-table sizes, header chunk, alignment, ...):
        #      every by-name inquiry and all data must equal the configuration-free specification
        nC = 50 if tier == 'thorough' else 12
        for k in range(nC if nfail < 3 else 0):
            hints, env, _ = rand_config(rng)
            oh, _, _ = rand_config(rng)
            small = ';'.join('%s=%d' % (kk, rng.choice([1, 1, 2, 3])) for kk in ('nc_hash_size_dim', 'nc_hash_size_var', 'nc_hash_size_gattr', 'nc_hash_size_vattr') if rng.chance(1, 2))
            if small and 'PNETCDF_HINTS' not in env:
                hints = small if hints == '-' else ';'.join([h for h in hints.split(';') if not h.startswith('nc_hash_size')] + [small])
            nprocs = rng.choice([1, 1, 2, 3])
            p = apigen.gen_meta_program(rng, 'c10c_%d.nc' % k, nprocs, hints=hints, ohints=oh)
            text = p.text()
            sp = _write(wd, 'c.txt', text)
            rc, impl, err = apicmp.run_impl(exe, sp, nprocs, wd, env=env)
            src, spec, serr = apicmp.run_spec(sp, nprocs)
            evals += len(impl)
            for kv in (hints.split(';') if hints != '-' else []) + ['reopen:' + x for x in (oh.split(';') if oh != '-' else [])] + list(env.keys()) + ['meta-np%d' % nprocs]:
                kk = kv.split('=')[0]
                cfg_hist[kk] = cfg_hist.get(kk, 0) + 1
            desc = dict(hints=hints, reopen_hints=oh, env=env, nprocs=nprocs)
            distinct.add(json.dumps(desc, sort_keys=True) + 'meta%d' % k)
            mism = apicmp.compare(spec, impl)
            if rc != 0 or mism:
                rc2, impl2, _ = apicmp.run_impl(exe, sp, nprocs, wd, env=env)
                if rc2 == 0 and not apicmp.compare(spec, impl2):
                    tie_diffs.append(('flaky', 'meta program', desc))
                elif V.failing_input('C10:config-changes-result', 'metadata program under a configuration differs from the configuration-free specification: rc=%s %s' % (rc, [(a[1], a[2]) for a in mism[:3]]),
                                     dict(script=text, config=desc, stderr=err[-300:]), tag='c%d' % nfail):
                    nfail += 1
                if nfail >= 3:
                    break
        # ---- stream D: intra-node aggregation.  The aggregators receive the other ranks' requests, flatten, sort and merge them
        #      (ncmpio_intra_node.c) - a second implementation of the write path that only runs with the hint
        #      nc_num_aggrs_per_node in 1..nprocs-1 on >= 2 ranks.  Larger strided collective writes to fixed and record
        #      variables of up to 3 different dimension lengths, ranks with empty contributions, several requests per wait.
        nD = 80 if tier == 'thorough' else 20
        for k in range(nD if nfail < 3 else 0):
            nprocs = rng.choice([2, 3, 4])
            ag = 'nc_num_aggrs_per_node=%d' % rng.range(1, nprocs - 1)
            if k % 2 == 1:
                # nonblocking requests go through a second flattening routine (flatten_reqs) at wait_all time
                p = apigen.gen_mix_program(rng, 'c10d_%d.nc' % k, nprocs, hints=ag, focus=[None, 'recvarn', None, 'burst'][(k // 2) % 4])
            else:
                p = apigen.gen_rw_program(rng, 'c10d_%d.nc' % k, nprocs, hints=ag, big=True)
            text = p.text()
            sp = _write(wd, 'd.txt', text)
            rc, impl, err = apicmp.run_impl(exe, sp, nprocs, wd)
            src, spec, serr = apicmp.run_spec(sp, nprocs)
            evals += len(impl)
            cfg_hist['aggregation-stream-np%d' % nprocs] = cfg_hist.get('aggregation-stream-np%d' % nprocs, 0) + 1
            desc = dict(hints=ag, nprocs=nprocs)
            distinct.add(json.dumps(desc, sort_keys=True) + 'aggr%d' % k)
            mism = apicmp.compare(spec, impl)
            bv = apicmp.buffer_violations(impl)
            if rc != 0 or mism or bv:
                rc2, impl2, _ = apicmp.run_impl(exe, sp, nprocs, wd)
                if rc2 == 0 and not apicmp.compare(spec, impl2) and not apicmp.buffer_violations(impl2):
                    tie_diffs.append(('flaky', 'aggregation program', desc))
                elif V.failing_input('C10:config-changes-result', 'with intra-node aggregation the program differs from the configuration-free specification: rc=%s %s %s' % (rc, [(a[1], a[2]) for a in mism[:3]], bv[:2]),
                                     dict(script=text, config=desc, stderr=err[-300:]), tag='d%d' % nfail):
                    nfail += 1
                if nfail >= 3:
                    break
        V.cov['evaluations'] = evals
        V.cov['distinct_nontrivial'] = len(distinct)
        V.cov['traces_validated_against_impl'] = nA + nB * ncfg
        V.cov['rule'] = ('A: random (hint values incl. absent/0/negative/non-multiples of 4) x ncmpi__enddef arguments x variable mix on the real library: reported hint values == resolveAlign model, and '
                         'variable offsets honour them; B: each seeded LOGICAL program is executed under %d configurations (hints through MPI_Info or PNETCDF_HINTS, safe mode, enddef arguments, 1-4 processes with '
                         'different decompositions); results must equal the configuration-free specification and the logical dumps must coincide. distinct = distinct (configuration, logical program) pairs + hint tuples' % ncfg)
        V.cov['distribution'] = cfg_hist
        V.cov['samples'] = samples + ['RA - 1000 - 0 0 2 0 -> 1000 1000 4', 'theorem putElems_perm (f) (l1 l2) (hp : l1.Perm l2) (hd : l1.Pairwise disj) : putElems f l1 = putElems f l2']
        real_ties = [t for t in tie_diffs if t[0] != 'flaky']
        if nfail == 0:
            if real_ties:
                V.broken_tie('correspondence stream hints: reported values and resolveAlign model differ', real_ties[:10])
            if proof_broken:
                V.broken_tie('proof obligations no longer check', dict(failed_theorems=sorted(failed_thms), axiom_audit=bad[:10], forbidden=forb[:10], lake_tail=out[-1500:] if not ok else ''))
        V.cov['flaky_runs_ignored'] = len(tie_diffs) - len(real_ties)
        return V.finish()
    finally:
        cleanup(wd)


def _write(wd, name, text):
    p = os.path.join(wd, '%s_%d' % (name, os.getpid()))
    open(p, 'w').write(text)
    return p


if __name__ == '__main__':
    tier, seed, replay = args(sys.argv[1:])
    sys.exit(run_check(tier, seed))
