#!/usr/bin/env python3
"""
run_seeds.py [seed-id ...] : apply each seeded change (seeded/<id>/patch.diff) to a scratch worktree of /repo's HEAD,
run the check(s) of the property it breaks (plus any listed in seeded/<id>/also.txt) with VERIF_REPO pointing there,
and record in seeded/RESULTS.json whether a VIOLATION with a concrete failing input was reported.
The clean-tree baseline (no VIOLATION) is the job of `vp check` / the normal sweep, not of this script.
"""
import os, sys, json, subprocess, glob, re, time, fcntl
HERE = os.path.dirname(os.path.dirname(os.path.abspath(__file__)))

def sh(cmd, **kw):
    return subprocess.run(cmd, shell=True, stdout=subprocess.PIPE, stderr=subprocess.STDOUT, text=True, **kw)

def main():
    ids = sys.argv[1:] or sorted(os.path.basename(d) for d in glob.glob(os.path.join(HERE, 'seeded', 'C*-*')))
    resf = os.path.join(HERE, 'seeded', 'RESULTS.json')
    res = json.load(open(resf)) if os.path.exists(resf) else {}
    for sid in ids:
        d = os.path.join(HERE, 'seeded', sid)
        meta = json.load(open(os.path.join(d, 'meta.json')))
        prop = meta.get('property', sid.split('-')[0])
        checks = [prop]
        also = os.path.join(d, 'also.txt')
        if os.path.exists(also):
            checks += open(also).read().split()
        wt = '/tmp/mut/seedrun-%s' % sid
        sh('git -C /repo worktree remove --force %s; rm -rf %s' % (wt, wt))
        r = sh('git -C /repo worktree add --detach %s HEAD && rsync -a --exclude .git /repo/ %s/ && git -C %s apply %s/patch.diff' % (wt, wt, wt, d))
        if r.returncode != 0:
            res[sid] = dict(error='patch does not apply to HEAD', detail=r.stdout[-400:])
            json.dump(res, open(resf, 'w'), indent=1, sort_keys=True)
            continue
        out = {}
        for c in checks:
            if not os.path.exists(os.path.join(HERE, 'checks', c.lower() + '.py')):
                out[c] = dict(status='no-check'); continue
            t0 = time.time()
            env = dict(os.environ, VERIF_REPO=wt)
            r = sh('cd %s && ./check %s --tier quick' % (HERE, c), env=env)
            viol = re.findall(r'^VIOLATION property=\S+ replay=(\S+)(.*)$', r.stdout, re.M)
            concrete = [v for v in viol if 'no-failing-input-found' not in v[1]]
            what = ''
            if concrete:
                try:
                    what = json.load(open(concrete[0][0])).get('what', '')[:300]
                except Exception:
                    pass
            crashed = (not viol) and r.returncode != 0
            out[c] = dict(status='caught-with-failing-input' if concrete else ('caught-no-failing-input' if viol else ('CHECK-CRASHED' if crashed else 'MISSED')),
                          tail=(r.stdout[-600:] if crashed else ''),
                          rc=r.returncode, violations=len(viol), first=what, wall_s=round(time.time() - t0, 1))
        # several instances may run on disjoint seed sets: read-modify-write under a lock; earlier verdicts are kept in `history`
        with open(resf + '.lock', 'w') as lk:
            fcntl.flock(lk, fcntl.LOCK_EX)
            res = json.load(open(resf)) if os.path.exists(resf) else {}
            prev = res.get(sid, {})
            hist = prev.get('history', [])
            if prev.get('checks'):
                hist = hist + [dict(repo_head=prev.get('repo_head'), verif_head=prev.get('verif_head'), checks={c: o.get('status') for c, o in prev['checks'].items()})]
            res[sid] = dict(property=prop, needs=meta.get('needs', '')[:400], summary=meta.get('summary', '')[:400], checks=out, history=hist[-6:],
                            repo_head=sh('git -C /repo rev-parse --short HEAD').stdout.strip(),
                            verif_head=sh('git -C %s rev-parse --short HEAD' % HERE).stdout.strip())
            json.dump(res, open(resf, 'w'), indent=1, sort_keys=True)
        sh('git -C /repo worktree remove --force %s; rm -rf %s' % (wt, wt))
        print(sid, {c: o.get('status') for c, o in out.items()}, flush=True)
        # regenerate the clean Gen/ files etc. by running the property's check once on the real tree
        sh('cd %s && ./check %s --tier quick' % (HERE, prop))

if __name__ == '__main__':
    main()
