"""Helpers for reading clang -ast-dump=json output (a stream of top-level JSON objects)."""
import json

def iter_json_stream(text):
    dec = json.JSONDecoder()
    i, n = 0, len(text)
    while i < n:
        while i < n and text[i] != '{':
            # skip "Dumping foo:" lines and whitespace
            j = text.find('\n', i)
            if text[i] in ' \t\r\n':
                i += 1
            else:
                i = n if j < 0 else j + 1
        if i >= n:
            break
        obj, end = dec.raw_decode(text, i)
        yield obj
        i = end

def condensed(node, depth=0, out=None):
    if out is None:
        out = []
    k = node.get('kind')
    extra = []
    for f in ('name', 'opcode', 'value', 'castKind', 'isPostfix'):
        if f in node:
            extra.append('%s=%s' % (f, node[f]))
    if 'type' in node and isinstance(node['type'], dict):
        extra.append('ty=' + node['type'].get('qualType', '?'))
    if 'referencedDecl' in node:
        extra.append('ref=' + node['referencedDecl'].get('name', '?'))
    out.append('  ' * depth + '%s %s' % (k, ' '.join(extra)))
    for c in node.get('inner', []) or []:
        condensed(c, depth + 1, out)
    return out
